(* Hand-written model of the curve-curve / self-intersection drivers of beziers.py:

     utils/intersectionsmixin.py
       IntersectionsMixin._curve_curve_intersections_t(self, other, precision=1e-3):
           assert len(self.points) > 2 and len(other.points) > 2
           if not (self.bounds().overlaps(other.bounds())): return []
           if self.bounds().area < precision and other.bounds().area < precision:
               return [[0.5 * (self._range[0] + self._range[1]), 0.5 * (other._range[0] + other._range[1])]]
           def xmap(v, ts, te): return ts + (te - ts) * v
           c11, c12 = self.splitAtTime(0.5)
           c11._range = [self._range[0], xmap(0.5, self._range[0], self._range[1])]
           c12._range = [xmap(0.5, self._range[0], self._range[1]), self._range[1]]
           c21, c22 = other.splitAtTime(0.5)            (same bookkeeping)
           assert c11._range[0] < c11._range[1]  (and for c12, c21, c22)
           found = []
           for this in [c11, c12]:
               for that in [c21, c22]:
                   if this.bounds().overlaps(that.bounds()):
                       found.extend(this._curve_curve_intersections_t(that, precision))
           seen = {}
           numPrecisionDigits = abs(Decimal(str(precision)).as_tuple().exponent)        (= 3)
           def filterSeen(n):
               key = f"%.{numPrecisionDigits - 1}f" % n[0]                               ("%.2f" % t1)
               if key in seen: return False
               seen[key] = 1
               return True
           found = filter(filterSeen, found)
           return found
       IntersectionsMixin._curve_curve_intersections(self, other):
           return [Intersection(self, t[0], other, t[1]) for t in self._curve_curve_intersections_t(other)]
       IntersectionsMixin.intersections(self, other, limited=True)   (swap by degree, dispatch, withinRange filter)
       class Intersection (t1, point = seg1.pointAtTime(t1), t2)
     utils/booleanoperationsmixin.py
       BooleanOperationsMixin.getSelfIntersections(self)

   Modelling decisions (each is checked by the correspondence of tools/props/C06.py on the float instance):

   * A subdivided piece is (curve, lo, hi): the Python object with its `_range` attribute.  The caller's segments
     have `_range = [0, 1]` (Python ints: `ofZ 0`, `ofZ 1`; they only ever meet floats, DESIGN section 3).
   * Recursion depth is explicit fuel; running out is the value [Err OutOfFuel] (Python: RecursionError), a failing
     `assert lo < hi` is [Err RangeAssert] (Python: AssertionError); `Segment.bounds()` of a curve always has both
     corners (Hand/Bounds.v returns an option; [None] would be [Err NoBounds], proved unreachable over R in
     Proofs/C06.v); the `else: raise ValueError` arm of `intersections` is [Err DispatchError].  An exception raised
     by a recursive call aborts the whole computation: [bind] in source order.
   * The lazy `filter`.  `found = filter(filterSeen, found)` returns an iterator; it is consumed either by the
     parent's `found.extend(...)` (immediately after the return, before the parent does anything else) or by the list
     comprehension of `_curve_curve_intersections`.  `seen` is a fresh dict per call and is captured only by that
     call's `filterSeen`; the underlying list is complete and no longer mutated when the iterator is created (the
     name `found` is rebound, the list object is not touched again).  `filterSeen` cannot raise.  So laziness only
     changes WHEN the dict is consulted, never the sequence of elements produced: the eager [dedup] below (keep an
     element iff the key of its t1 has not been produced before in this list) is the same list.
   * The key `"%.2f" % t1`.  CPython formats a float with correctly rounded decimal conversion (round-half-even on the
     EXACT binary value).  The model is generic in the key: [key2 : T -> K] with a boolean equality [keq]; the
     theorems hold for every such pair.  For binary64 [key2F] below computes the key exactly with integer arithmetic
     on mantissa and exponent: (class, round_half_even(100 * |x|)); the class separates "-0.00" from "0.00" and the
     strings inf/-inf/nan.  Two keys are equal iff the Python strings are equal (the correspondence compares
     [key2F x] with the string Python produced, for all k/2^d, d <= 12, and for every t1 met in the runs).
   * `Intersection` is the triple (t1, seg1.pointAtTime(t1), t2) as in Gen (X__curve_line_intersections); in
     `getSelfIntersections` each report also carries the indices of seg1 and seg2 in the segment list (after the swap
     "arrange by degree" inside `intersections`, seg1 may be the later segment).
   Generic over the scalar carrier: executed on floats, reasoned about over R. *)
From Coq Require Import PrimFloat.
From Coq Require Import ZArith List Bool.
From Coq Require Import Floats.
Import ListNotations.
From BZ Require Import Base.Ops Gen.Point Gen.BBox Gen.Line Gen.Quad Gen.Cubic Hand.Bounds.

Inductive cc_error := OutOfFuel | RangeAssert | NoBounds | DispatchError.
Inductive result (A : Type) := Ok (a : A) | Err (e : cc_error).
Arguments Ok {A}. Arguments Err {A}.
Definition bind {A B : Type} (r : result A) (f : A -> result B) : result B :=
  match r with Ok a => f a | Err e => Err e end.

(* the two curved segment kinds *)
Inductive curve (T : Type) := CQuad (s : seg3 T) | CCubic (s : seg4 T).
Arguments CQuad {T}. Arguments CCubic {T}.
(* a segment object together with its `_range` *)
Record piece (T : Type) := Piece { pc : curve T; plo : T; phi : T }.
Arguments Piece {T}. Arguments pc {T}. Arguments plo {T}. Arguments phi {T}.

Section CurveCurve.
Context {T : Type} (O : Ops T).
Context {K : Type} (key2 : T -> K) (keq : K -> K -> bool).

Definition half : T := lit O 1 2 0x1p-1%float.                        (* 0.5 *)
Definition precision : T := lit O 1 1000 0x1.0624dd2f1a9fcp-10%float. (* 1e-3 *)
Definition my_epsilon : T := lit O 1 5000000 0x1.ad7f29abcaf48p-23%float. (* 2e-7 *)

Definition curve_point (c : curve T) (t : T) : pt T :=
  match c with CQuad q => Quad_pointAtTime O q t | CCubic c => Cubic_pointAtTime O c t end.
Definition curve_bounds (c : curve T) : option (bbox T) :=
  match c with CQuad q => Quad_bounds O q | CCubic c => Cubic_bounds O c end.
(* self.splitAtTime(0.5) *)
Definition curve_split_half (c : curve T) : curve T * curve T :=
  match c with
  | CQuad q => (CQuad (fst (Quad_splitAtTime O q half)), CQuad (snd (Quad_splitAtTime O q half)))
  | CCubic c => (CCubic (fst (Cubic_splitAtTime O c half)), CCubic (snd (Cubic_splitAtTime O c half)))
  end.

(* def xmap(v, ts, te): return ts + (te - ts) * v *)
Definition xmap (v ts te : T) : T := add O ts (mul O (sub O te ts) v).
(* 0.5 * (r[0] + r[1]) *)
Definition mid (lo hi : T) : T := mul O half (add O lo hi).

(* c1, c2 = p.splitAtTime(0.5) with the `_range` bookkeeping *)
Definition psplit (p : piece T) : piece T * piece T :=
  let m := xmap half (plo p) (phi p) in
  (Piece (fst (curve_split_half (pc p))) (plo p) m, Piece (snd (curve_split_half (pc p))) m (phi p)).
(* assert c._range[0] < c._range[1] *)
Definition range_ok (p : piece T) : bool := ltb O (plo p) (phi p).

(* found = filter(filterSeen, found): keep an element iff the key of its first component is new *)
Fixpoint dedup (seen : list K) (l : list (T * T)) : list (T * T) :=
  match l with
  | [] => []
  | x :: r => let k := key2 (fst x) in
              if existsb (keq k) seen then dedup seen r else x :: dedup (k :: seen) r
  end.

Fixpoint cc_t (fuel : nat) (this that : piece T) : result (list (T * T)) :=
  match fuel with
  | Datatypes.O => Err OutOfFuel
  | S f =>
    match curve_bounds (pc this), curve_bounds (pc that) with
    | Some b1, Some b2 =>
      if negb (BBox_overlaps O b1 b2) then Ok []
      else if ltb O (BBox_area O b1) precision && ltb O (BBox_area O b2) precision
      then Ok [(mid (plo this) (phi this), mid (plo that) (phi that))]
      else
        let c11 := fst (psplit this) in let c12 := snd (psplit this) in
        let c21 := fst (psplit that) in let c22 := snd (psplit that) in
        if range_ok c11 && range_ok c12 && range_ok c21 && range_ok c22 then
          (* `if this.bounds().overlaps(that.bounds()): found.extend(this._curve_curve_intersections_t(that))` *)
          let child := fun (a b : piece T) =>
            match curve_bounds (pc a), curve_bounds (pc b) with
            | Some ba, Some bb => if BBox_overlaps O ba bb then cc_t f a b else Ok []
            | _, _ => Err NoBounds
            end in
          bind (child c11 c21) (fun l1 =>
          bind (child c11 c22) (fun l2 =>
          bind (child c12 c21) (fun l3 =>
          bind (child c12 c22) (fun l4 =>
          Ok (dedup [] (l1 ++ l2 ++ l3 ++ l4))))))
        else Err RangeAssert
    | _, _ => Err NoBounds
    end
  end.

(* a user-level segment: `_range = [0, 1]` *)
Definition whole (c : curve T) : piece T := Piece c (ofZ O 0) (ofZ O 1).

Definition ix : Type := (T * pt T * T)%type.     (* Intersection: t1, point, t2 *)

(* _curve_curve_intersections *)
Definition curve_curve_intersections (fuel : nat) (c1 c2 : curve T) : result (list ix) :=
  bind (cc_t fuel (whole c1) (whole c2)) (fun l =>
  Ok (map (fun t => (fst t, curve_point c1 (fst t), snd t)) l)).

(* the closure withinRange of `intersections` *)
Definition within_range (t : T) : bool :=
  if ltb O t my_epsilon then false
  else if ltb O (add O (lit O 1 1 0x1p+0%float) my_epsilon) t then false
  else true.

Definition order (s : segment T) : nat := match s with SLine _ => 2 | SQuad _ => 3 | SCubic _ => 4 end.
(* `if len(other.points) > len(self.points): self, other = other, self` *)
Definition swapped (self other : segment T) : bool := Nat.ltb (order self) (order other).

Definition intersections (fuel : nat) (self other : segment T) (limited : bool) : result (list ix) :=
  let s := if swapped self other then other else self in
  let o := if swapped self other then self else other in
  let inter :=
    match s, o with
    | SQuad a, SQuad b => curve_curve_intersections fuel (CQuad a) (CQuad b)
    | SQuad a, SCubic b => curve_curve_intersections fuel (CQuad a) (CCubic b)
    | SCubic a, SQuad b => curve_curve_intersections fuel (CCubic a) (CQuad b)
    | SCubic a, SCubic b => curve_curve_intersections fuel (CCubic a) (CCubic b)
    | SQuad a, SLine l => Ok (Quad__curve_line_intersections O a l)
    | SCubic a, SLine l => Ok (Cubic__curve_line_intersections O a l)
    | SLine a, SLine b => Ok (Line__line_line_intersections O a b)
    | SLine _, _ => Err DispatchError      (* `else: raise ValueError`; not reachable after the swap *)
    end in
  bind inter (fun l =>
  Ok (if limited then filter (fun i : ix => within_range (fst (fst i)) && within_range (snd i)) l else l)).

(* ---- BezierPath.getSelfIntersections on the list self.asSegments() ---- *)
Definition sx : Type := (nat * nat * ix)%type.    (* index of seg1, index of seg2, Intersection *)

(* loops = seg.hasLoop; if loops and 0 < loops[0] < 1 and 0 < loops[1] < 1: Intersection(seg, loops[0], seg, loops[1]) *)
Definition loop_report (i : nat) (s : segment T) : list sx :=
  match s with
  | SCubic c =>
      match Cubic_hasLoop O c with
      | Some (a, b) =>
          if ltb O (ofZ O 0) a && ltb O a (ofZ O 1) && ltb O (ofZ O 0) b && ltb O b (ofZ O 1)
          then [(i, i, (a, Cubic_pointAtTime O c a, b))] else []
      | None => []
      end
  | _ => []       (* Segment.hasLoop is False for lines and quadratics *)
  end.
Fixpoint loop_reports (i : nat) (segs : list (segment T)) : list sx :=
  match segs with [] => [] | s :: r => loop_report i s ++ loop_reports (S i) r end.

(* `if i.t1 > 1e-2 and i.t1 < 1 - 1e-2` *)
Definition t1_interior (i : ix) : bool :=
  ltb O (lit O 1 100 0x1.47ae147ae147bp-7%float) (fst (fst i)) &&
  ltb O (fst (fst i)) (sub O (ofZ O 1) (lit O 1 100 0x1.47ae147ae147bp-7%float)).

Definition tag (i1 i2 : nat) (s1 s2 : segment T) (l : list ix) : list sx :=
  map (fun i => if swapped s1 s2 then (i2, i1, i) else (i1, i2, i)) l.

(* for i2 in range(i1 + 1, len(segs)): ... on the tail of the list *)
Fixpoint inner_loop (fuel : nat) (i1 : nat) (s1 : segment T) (i2 : nat) (rest : list (segment T)) : result (list sx) :=
  match rest with
  | [] => Ok []
  | s2 :: r =>
      bind (intersections fuel s1 s2 true) (fun l =>
      bind (inner_loop fuel i1 s1 (S i2) r) (fun l' =>
      Ok (tag i1 i2 s1 s2 (filter t1_interior l) ++ l')))
  end.
(* for i1 in range(0, len(segs)): ... *)
Fixpoint outer_loop (fuel : nat) (i1 : nat) (segs : list (segment T)) : result (list sx) :=
  match segs with
  | [] => Ok []
  | s1 :: r =>
      bind (inner_loop fuel i1 s1 (S i1) r) (fun l =>
      bind (outer_loop fuel (S i1) r) (fun l' => Ok (l ++ l')))
  end.

Definition self_intersections (fuel : nat) (segs : list (segment T)) : result (list sx) :=
  bind (outer_loop fuel 0 segs) (fun l => Ok (loop_reports 0 segs ++ l)).

End CurveCurve.

(* ---- the key "%.2f" % x on binary64, exactly ---- *)
(* round-half-even of n * 2^e for n >= 0 *)
Definition rne_scaled (n e : Z) : Z :=
  if (0 <=? e)%Z then (n * 2 ^ e)%Z else
  let d := (2 ^ (- e))%Z in
  let q := (n / d)%Z in let r := (n mod d)%Z in let h := (d / 2)%Z in
  if (r <? h)%Z then q else if (h <? r)%Z then (q + 1)%Z else if Z.even q then q else (q + 1)%Z.
(* (class, hundredths): class 0 "d.dd", 1 "-d.dd" (incl. "-0.00"), 2 "inf", 3 "-inf", 4 "nan" *)
Definition key2F (x : float) : Z * Z :=
  match Prim2SF x with
  | S754_zero s => (if s then 1%Z else 0%Z, 0%Z)
  | S754_finite s m e => (if s then 1%Z else 0%Z, rne_scaled (100 * Zpos m) e)
  | S754_infinity s => (if s then 3%Z else 2%Z, 0%Z)
  | S754_nan => (4%Z, 0%Z)
  end.
Definition keyF_eqb (a b : Z * Z) : bool := Z.eqb (fst a) (fst b) && Z.eqb (snd a) (snd b).

(* the raw (never-deduplicating) instance: with a key equality that is constantly false [dedup] is the identity *)
Definition cc_raw {T : Type} (O : Ops T) : nat -> piece T -> piece T -> result (list (T * T)) :=
  cc_t O (fun _ : T => tt) (fun _ _ : unit => false).
