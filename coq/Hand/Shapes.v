(* Hand-written model of the curved shape constructors of beziers/path/geometricshapes.py:

     CIRCULAR_SUPERNESS = 4.0 / 3.0 * (math.sqrt(2) - 1)
     west = Point(-1, 0); east = Point(1, 0); north = Point(0, 1); south = Point(0, -1)

     def Circle(x_radius, origin=None, superness=CIRCULAR_SUPERNESS):
         return Ellipse(x_radius, x_radius, origin=origin, superness=superness)

     def Ellipse(x_radius, y_radius, origin=None, superness=CIRCULAR_SUPERNESS):
         if not origin: origin = Point(0, 0)
         w = origin + west * x_radius;  e = origin + east * x_radius
         n = origin + north * y_radius; s = origin + south * y_radius
         w_n = CubicBezier(w, w + north * y_radius * superness, n + west * x_radius * superness, n)
         n_e = CubicBezier(n, n + east * x_radius * superness, e + north * y_radius * superness, e)
         e_s = CubicBezier(e, e + south * y_radius * superness, s + east * x_radius * superness, s)
         s_w = CubicBezier(s, s + west * x_radius * superness, w + south * y_radius * superness, w)
         return BezierPath.fromSegments([w_n, n_e, e_s, s_w])

     def Square(width, origin=None): return Rectangle(width, width, origin=origin)

   Transcribed operation by operation, in Python's association order ([a + b * c * d] is [a + ((b * c) * d)]), on top of
   the GENERATED Point.__add__ / Point.__mul__, generic over the scalar carrier: the FOps instance is the binary64
   computation CPython performs, the ROps instance is what Proofs/C10shapes.v reasons about.  A path is represented by
   the list of its segments in path order (what BezierPath.fromSegments(...).asSegments() gives back).
   Point has neither __bool__ nor __len__, so [not origin] is true exactly for origin=None: the [_opt] variants below
   take [option (pt T)] and substitute Point(0, 0), i.e. (float(0), float(0)). *)
From Coq Require Import PrimFloat.
From Coq Require Import ZArith List Bool.
Import ListNotations.
From BZ Require Import Base.Ops Gen.Point Hand.Shoelace.

Section Shapes.
Context {T : Type} (O : Ops T).

(* 4.0 / 3.0 * (math.sqrt(2) - 1)  =  (4.0 / 3.0) * (sqrt(float(2)) - float(1)) *)
Definition circular_superness : T :=
  mul O (dvd O (lit O 4 1 0x1p+2%float) (lit O 3 1 0x1.8p+1%float)) (sub O (sqrt_ O (ofZ O 2)) (ofZ O 1)).

Definition Ellipse_cubics (x_radius y_radius : T) (origin : pt T) (superness : T) : list (seg4 T) :=
  let west := P (ofZ O (-1)) (ofZ O 0) in let east := P (ofZ O 1) (ofZ O 0) in
  let north := P (ofZ O 0) (ofZ O 1) in let south := P (ofZ O 0) (ofZ O (-1)) in
  let w := Point___add__ O origin (Point___mul__ O west x_radius) in
  let e := Point___add__ O origin (Point___mul__ O east x_radius) in
  let n := Point___add__ O origin (Point___mul__ O north y_radius) in
  let s := Point___add__ O origin (Point___mul__ O south y_radius) in
  let w_n := C4 w (Point___add__ O w (Point___mul__ O (Point___mul__ O north y_radius) superness))
                  (Point___add__ O n (Point___mul__ O (Point___mul__ O west x_radius) superness)) n in
  let n_e := C4 n (Point___add__ O n (Point___mul__ O (Point___mul__ O east x_radius) superness))
                  (Point___add__ O e (Point___mul__ O (Point___mul__ O north y_radius) superness)) e in
  let e_s := C4 e (Point___add__ O e (Point___mul__ O (Point___mul__ O south y_radius) superness))
                  (Point___add__ O s (Point___mul__ O (Point___mul__ O east x_radius) superness)) s in
  let s_w := C4 s (Point___add__ O s (Point___mul__ O (Point___mul__ O west x_radius) superness))
                  (Point___add__ O w (Point___mul__ O (Point___mul__ O south y_radius) superness)) w in
  [w_n; n_e; e_s; s_w].

Definition Circle_cubics (x_radius : T) (origin : pt T) (superness : T) : list (seg4 T) :=
  Ellipse_cubics x_radius x_radius origin superness.

Definition Square_lines (width : T) (origin : pt T) : list (seg2 T) := Rectangle_lines O width width origin.

(* the keyword defaults: origin=None, superness=CIRCULAR_SUPERNESS *)
Definition default_origin (origin : option (pt T)) : pt T :=
  match origin with Some o => o | None => P (ofZ O 0) (ofZ O 0) end.
Definition Ellipse_cubics_opt (x_radius y_radius : T) (origin : option (pt T)) (superness : option T) : list (seg4 T) :=
  Ellipse_cubics x_radius y_radius (default_origin origin)
                 (match superness with Some s => s | None => circular_superness end).
Definition Circle_cubics_opt (x_radius : T) (origin : option (pt T)) (superness : option T) : list (seg4 T) :=
  Ellipse_cubics_opt x_radius x_radius origin superness.
Definition Square_lines_opt (width : T) (origin : option (pt T)) : list (seg2 T) :=
  Square_lines width (default_origin origin).

(* the control polygon of a list of cubics, as a vertex list: start point of the first cubic, then the three further
   points of every cubic except the final end point (which closes the contour) *)
Fixpoint control_points (cs : list (seg4 T)) : list (pt T) :=
  match cs with
  | [] => []
  | c :: r => c0 c :: c1 c :: c2 c :: control_points r
  end.
End Shapes.

(* a chain of cubics that starts at [p] and ends at [q]: every cubic starts exactly where the previous one ended *)
Fixpoint cubic_chain_from {T : Type} (p : pt T) (cs : list (seg4 T)) (q : pt T) : Prop :=
  match cs with
  | [] => p = q
  | c :: r => c0 c = p /\ cubic_chain_from (c3 c) r q
  end.
Definition closed_cubic_chain {T : Type} (cs : list (seg4 T)) : Prop :=
  match cs with
  | [] => True
  | c :: r => cubic_chain_from (c3 c) r (c0 c)
  end.
