(* Hand-written model of beziers/utils/linesweep.py: bbox_intersections (and dequefilter).
   Shapes are identified by their index in their collection (Python: object identity; `!=` on two distinct shapes
   is assumed to be True -- recorded in DESIGN section 3).  Generic over the scalar carrier, so the same text is
   executed on floats by the correspondence check and reasoned about over R. *)
From Coq Require Import PrimFloat.
From Coq Require Import ZArith List Bool.
Import ListNotations.
From BZ Require Import Base.Ops Gen.BBox.

Section Sweep.
Context {T : Type} (O : Ops T).

(* one "instruction" tuple (key, object, bounds, verb, activelist) *)
Record ev := Ev { ekey : T; eisA : bool; eadd : bool; eid : nat; ebox : bbox T }.

(* for a in seta: append (left, add_to), (right, remove_from) *)
Fixpoint events_from (isA : bool) (i : nat) (l : list (bbox T)) : list ev :=
  match l with
  | [] => []
  | b :: r => Ev (px (bl b)) isA true i b :: Ev (px (tr b)) isA false i b :: events_from isA (S i) r
  end.

(* sorted(instructions, key=lambda i: i[0]) : stable, compares keys with < only *)
Fixpoint insert_ev (e : ev) (l : list ev) : list ev :=
  match l with
  | [] => [e]
  | y :: r => if ltb O (ekey e) (ekey y) then e :: y :: r else y :: insert_ev e r
  end.
Definition sort_ev (l : list ev) : list ev := fold_left (fun acc e => insert_ev e acc) l [].

(* state: active_a, active_b (deques of (object, bounds)), intersections (in append order);
   a reported pair is (first-is-from-A?, id of the object being added, id of the already active object) *)
Definition active := list (nat * bbox T).
Definition state := (active * active * list (bool * nat * nat))%type.

Definition step (st : state) (e : ev) : state :=
  let '(aa, ab, out) := st in
  if eadd e then
    (* add_to: lst.append((o, bounds)); then scan the *other* list in order *)
    let other := if eisA e then ab else aa in
    let found := map (fun ob => (eisA e, eid e, fst ob))
                     (filter (fun ob => BBox_overlaps O (ebox e) (snd ob)) other) in
    if eisA e then (aa ++ [(eid e, ebox e)], ab, out ++ found)
    else (aa, ab ++ [(eid e, ebox e)], out ++ found)
  else
    (* remove_from: dequefilter(lst, lambda i: i[0] != o) keeps the others in order *)
    if eisA e then (filter (fun ob => negb (Nat.eqb (fst ob) (eid e))) aa, ab, out)
    else (aa, filter (fun ob => negb (Nat.eqb (fst ob) (eid e))) ab, out).

Definition bbox_intersections (seta setb : list (bbox T)) : list (bool * nat * nat) :=
  let evs := sort_ev (events_from true 0 seta ++ events_from false 0 setb) in
  snd (fold_left step evs ([], [], [])).

(* orientation-free view of a reported pair: (index in seta, index in setb) *)
Definition as_ab (p : bool * nat * nat) : nat * nat :=
  let '(fromA, i, j) := p in if fromA then (i, j) else (j, i).
End Sweep.
