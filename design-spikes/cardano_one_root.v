From Coq Require Import Reals Lra Psatz.
Open Scope R_scope.

(* real cube root *)
Definition cbrt (x:R) : R :=
  if Rlt_dec 0 x then Rpower x (/3) else if Rlt_dec x 0 then - Rpower (-x) (/3) else 0.

Lemma Rpower_third_cube x : 0 < x -> Rpower x (/3) * Rpower x (/3) * Rpower x (/3) = x.
Proof.
  intros Hx. rewrite <- !Rpower_plus. replace (/3 + /3 + /3) with 1 by field. apply Rpower_1; exact Hx.
Qed.

Lemma cbrt_cube x : cbrt x * cbrt x * cbrt x = x.
Proof.
  unfold cbrt. destruct (Rlt_dec 0 x) as [H|H].
  - apply Rpower_third_cube; exact H.
  - destruct (Rlt_dec x 0) as [H'|H'].
    + pose proof (Rpower_third_cube (-x) ltac:(lra)) as E. nra.
    + assert (x = 0) by lra. subst. ring.
Qed.

Lemma cube_inj x y : x*x*x = y*y*y -> x = y.
Proof.
  intros H.
  assert (E : (x - y) * (x*x + x*y + y*y) = 0) by nra.
  destruct (Rmult_integral _ _ E) as [E1|E2]; [lra|].
  assert (Hs : (2*x + y)*(2*x+y) + 3*y*y = 0) by nra.
  assert (0 <= (2*x+y)*(2*x+y)) by nra. assert (0 <= y*y) by nra.
  assert (y*y = 0) by lra. assert ((2*x+y)*(2*x+y) = 0) by lra.
  assert (y = 0) by nra. assert (2*x+y = 0) by nra. lra.
Qed.

(* one-real-root branch of the code, transcribed: t^3 + a t^2 + b t + c, discriminant > 0 *)
Lemma cardano_one_root a b c :
  let p := (3*b - a*a)/3 in let p3 := p/3 in
  let q := (2*a*a*a - 9*a*b + 27*c)/27 in let q2 := q/2 in
  let disc := q2*q2 + p3*p3*p3 in
  0 < disc ->
  let sd := sqrt disc in
  let u1 := cbrt (sd - q2) in let v1 := cbrt (sd + q2) in
  let r := u1 - v1 - a/3 in
  r*r*r + a*r*r + b*r + c = 0.
Proof.
  intros p p3 q q2 disc Hd sd u1 v1 r.
  assert (Hsd : sd*sd = disc) by (apply sqrt_sqrt; lra).
  assert (Hu : u1*u1*u1 = sd - q2) by apply cbrt_cube.
  assert (Hv : v1*v1*v1 = sd + q2) by apply cbrt_cube.
  assert (Huv : u1*v1 = p3).
  { apply cube_inj. replace (u1*v1*(u1*v1)*(u1*v1)) with ((u1*u1*u1)*(v1*v1*v1)) by ring.
    rewrite Hu, Hv. unfold disc in Hsd. nra. }
  (* y = u1 - v1 solves y^3 + p y + q = 0 *)
  set (y := u1 - v1).
  assert (Hy : y*y*y + p*y + q = 0).
  { unfold y. replace ((u1-v1)*(u1-v1)*(u1-v1)) with (u1*u1*u1 - v1*v1*v1 - 3*(u1*v1)*(u1-v1)) by ring.
    rewrite Hu, Hv, Huv. unfold p3, q2. field. }
  unfold r. fold y. unfold p, q in Hy. nra.
Qed.
Print Assumptions cardano_one_root.
