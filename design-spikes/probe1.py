import sys, math
sys.path.insert(0,'/repo/src')
from beziers.point import Point
from beziers.line import Line
from beziers.quadraticbezier import QuadraticBezier
from beziers.cubicbezier import CubicBezier
from beziers.boundingbox import BoundingBox
from beziers.affinetransformation import AffineTransformation
from beziers.path import BezierPath
from beziers.path.geometricshapes import Rectangle, Circle, Ellipse
P=Point
def tryit(name, f):
    try:
        print(name, '=>', f())
    except Exception as e:
        print(name, 'EXC', type(e).__name__, e)
# C02/C03 degree-elevated quadratic symmetric arch
q = QuadraticBezier(P(0,0),P(50,100),P(100,0))
c = q.toCubicBezier()
tryit('arch cubic extremes', lambda: c.findExtremes())
tryit('arch cubic bounds', lambda: str(c.bounds()))
c2 = CubicBezier(P(0,0),P(0,100),P(100,100),P(100,0))
tryit('sym arch extremes', lambda: c2.findExtremes())
tryit('sym arch bounds', lambda: str(c2.bounds()))
# C05
tryit('arch-line', lambda: c2.intersections(Line(P(-10,50),P(110,50))))
tryit('arch-line rev', lambda: Line(P(-10,50),P(110,50)).intersections(c2))
tryit('quad-line', lambda: q.intersections(Line(P(-10,25),P(110,25))))
tryit('quad-line diag', lambda: q.intersections(Line(P(-10,20),P(110,30))))
tryit('elev-line diag', lambda: c.intersections(Line(P(-10,20),P(110,30))))
# C15
tryit('quad tOfPoint', lambda: q.tOfPoint(q.pointAtTime(0.3)))
q2 = QuadraticBezier(P(0,0),P(30,100),P(100,0))
tryit('quad2 tOfPoint', lambda: q2.tOfPoint(q2.pointAtTime(0.3)))
tryit('cubic tOfPoint', lambda: c2.tOfPoint(c2.pointAtTime(0.3)))
# C19
b=BoundingBox(); b.extend(P(0,0)); b.extend(P(10,10))
tryit('includes inside', lambda: b.includes(P(5,5)))
from beziers.utils.linesweep import bbox_intersections
tryit('sweep', lambda: bbox_intersections([Rectangle(10,10)],[Rectangle(10,10,origin=P(3,3))]))
# C09
tryit('scaling(2,0)', lambda: AffineTransformation.scaling(2,0).matrix)
# C16
r = Rectangle(4,4)
tryit('path lengthAtTime(1.0)', lambda: r.lengthAtTime(1.0))
tryit('path regularSampleTValue', lambda: r.regularSampleTValue(4))
tryit('seg regularSampleTValue', lambda: CubicBezier(P(0,0),P(0,0),P(16,0),P(16,0)).regularSampleTValue(4))
# C07 clone
r2 = Rectangle(4.5,4.5); cl = r2.clone(); cl.round(); tryit('clone independence', lambda: r2.asSegments())
# C18
tryit('quad curvature', lambda: (q2.curvatureAtTime(0.3)))
d=q2.derivative(); dd = (q2[0]-q2[1]*2+q2[2])*2; p=d.pointAtTime(0.3)
print('expected', (p.x*dd.y-p.y*dd.x)/(p.x**2+p.y**2)**1.5)
# C12
a=Rectangle(100,100); bb=Rectangle(100,100,origin=P(50,50))
tryit('union flat', lambda: [(p.asSegments(), p.area) for p in a.union(bb, flat=True)])
tryit('union curve', lambda: [(p.asSegments()) for p in a.union(bb)])
# C20
from beziers.utils.curvedistance import curveDistance
tryit('dist crossing', lambda: curveDistance(Line(P(0,0),P(10,10)), Line(P(0,10),P(10,0))))
tryit('dist', lambda: curveDistance(c2, CubicBezier(P(200,0),P(200,100),P(300,100),P(300,0))))
# C11
tri = BezierPath.fromSegments([Line(P(0,0),P(10,10)),Line(P(10,10),P(20,0)),Line(P(20,0),P(0,0))])
tryit('inside level with apex? (30,10) outside', lambda: tri.pointIsInside(P(30,10)))
tryit('inside (10,5)', lambda: tri.pointIsInside(P(10,5)))
sq = Rectangle(10,10)
tryit('sq inside level w/ vertex (20,5)', lambda: sq.pointIsInside(P(20,5)))
tryit('sq inside (0,0)', lambda: sq.pointIsInside(P(0,0)))
dia = BezierPath.fromSegments([Line(P(0,0),P(10,10)),Line(P(10,10),P(20,0)),Line(P(20,0),P(10,-10)),Line(P(10,-10),P(0,0))])
tryit('diamond inside (10,0) level with two vertices', lambda: dia.pointIsInside(P(10,0)))
tryit('diamond (30,0)', lambda: dia.pointIsInside(P(30,0)))
tryit('diamond (10,10.0) level apex outside(25,10)', lambda: dia.pointIsInside(P(25,10)))
