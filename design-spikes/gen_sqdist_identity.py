from math import comb
def C(y,x): return comb(x,y) if 0<=y<=x else 0
n=m=3
def P(i): return (f"px{i}", f"py{i}")
def Q(i): return (f"qx{i}", f"qy{i}")
def dot(a,b): return f"({a[0]}*{b[0]}+{a[1]}*{b[1]})"
def A_r(r,Pf,n):
    terms=[]
    for i in range(max(0,r-n), min(r,n)+1):
        terms.append(f"{dot(Pf(i),Pf(r-i))}*{C(i,n)*C(r-i,n)}/{C(r,2*n)}")
    return "("+"+".join(terms)+")"
def factor(Pf,r,n,c):
    terms=[]
    for i in range(max(0,r-n), min(r,n)+1):
        terms.append(f"{Pf(i)[c]}*{C(i,n)*C(r-i,n)}/{C(r,2*n)}")
    return "("+"+".join(terms)+")"
def Crk(r,k):
    return f"({factor(P,r,n,0)}*{factor(Q,k,m,0)}+{factor(P,r,n,1)}*{factor(Q,k,m,1)})"
def basis(n,i,u): return f"({C(i,n)}*(1-{u})^{n-i}*{u}^{i})"
S="+".join(f"({A_r(r,P,n)}+{A_r(k,Q,m)}-2*{Crk(r,k)})*{basis(2*n,r,'u')}*{basis(2*m,k,'v')}" for r in range(2*n+1) for k in range(2*m+1))
def bez(Pf,c,t): return f"((1-{t})^3*{Pf(0)[c]}+3*(1-{t})^2*{t}*{Pf(1)[c]}+3*(1-{t})*{t}^2*{Pf(2)[c]}+{t}^3*{Pf(3)[c]})"
D=f"({bez(P,0,'u')}-{bez(Q,0,'v')})^2+({bez(P,1,'u')}-{bez(Q,1,'v')})^2"
vars_=" ".join([f"px{i} py{i} qx{i} qy{i}" for i in range(4)])
print("From Coq Require Import Reals. Open Scope R_scope.")
print(f"Lemma S33 : forall {vars_} u v : R, {S} = {D}.")
print("Proof. intros. field. Qed.")
