import sys, math, random
sys.path.insert(0, sys.argv[1] if len(sys.argv)>1 else '/repo/src')
from beziers.point import Point
from beziers.line import Line
from beziers.quadraticbezier import QuadraticBezier
from beziers.cubicbezier import CubicBezier
from beziers.path import BezierPath
from beziers.path.geometricshapes import Rectangle, Circle, Ellipse
from beziers.utils.curvedistance import curveDistance
P=Point
random.seed(5)
def rpt(g=1): return P(random.randint(-300,300)*g, random.randint(-300,300)*g)
def rseg(k=None):
    k=k or random.choice([2,3,4]); return [Line,QuadraticBezier,CubicBezier][k-2](*[rpt() for _ in range(k)])
# ---- C05 curve-line brute force
def brute_curve_line(c, l, N=4000):
    # signed distance of curve pts to line carrier; crossing params where sign changes and line param in (0,1)
    a,b=l.start,l.end; dx,dy=b.x-a.x,b.y-a.y; L2=dx*dx+dy*dy
    def f(t):
        p=c.pointAtTime(t); return (p.x-a.x)*dy-(p.y-a.y)*dx
    res=[]; prev=f(0)
    for i in range(1,N+1):
        cur=f(i/N)
        if prev*cur<0:
            lo,hi=(i-1)/N,i/N
            for _ in range(60):
                mid=(lo+hi)/2
                if f(lo)*f(mid)<=0: hi=mid
                else: lo=mid
            t=(lo+hi)/2; p=c.pointAtTime(t); u=((p.x-a.x)*dx+(p.y-a.y)*dy)/L2
            res.append((t,u))
        prev=cur
    return res
bad=0; tot=0; examples=[]; FAM={}
for it in range(1500):
    fam=it%5
    if fam==0: c=rseg(4)
    elif fam==1: c=rseg(3)
    elif fam==2: c=rseg(3).toCubicBezier()
    elif fam==3:
        a,b=rpt(),rpt(); c=CubicBezier(a, a.lerp(b,1/3.), a.lerp(b,2/3.), b)
    else:
        x0,x1=sorted([random.randint(-300,300),random.randint(-300,300)]); y0=random.randint(-300,300); h=random.randint(10,300)
        c=CubicBezier(P(x0,y0),P(x0,y0+h),P(x1,y0+h),P(x1,y0))
    l=rseg(2)
    if l.length<1: continue
    truth=[(t,u) for (t,u) in brute_curve_line(c,l) if 1e-4<t<1-1e-4 and 1e-4<u<1-1e-4]
    outside=[(t,u) for (t,u) in brute_curve_line(c,l) if not(-1e-4<u<1+1e-4)]
    amb=[(t,u) for (t,u) in brute_curve_line(c,l) if (t,u) not in truth and (t,u) not in outside]
    if amb: continue
    try: got=c.intersections(l)
    except Exception as e: got='EXC '+type(e).__name__
    tot+=1
    ok = not isinstance(got,str) and len(got)==len(truth) and all(min(abs(g.t1-t) for t,_ in truth)<1e-6 for g in got)
    if not ok:
        bad+=1; FAM[fam]=FAM.get(fam,0)+1
        if len(examples)<6: examples.append((fam,c,l,[round(t,5) for t,_ in truth], got if isinstance(got,str) else [round(g.t1,5) for g in got]))
print('C05 curve-line bad',bad,'of',tot)
for e in examples: print('   ',e)
from collections import Counter
print('by family',FAM)
