From Coq Require Import Reals Lra Psatz.
From Coquelicot Require Import Coquelicot.
Open Scope R_scope.

Definition b3 (p0 p1 p2 p3 t:R) := (1-t)*(1-t)*(1-t)*p0 + 3*(1-t)*(1-t)*t*p1 + 3*(1-t)*t*t*p2 + t*t*t*p3.
Definition b2 (p0 p1 p2 t:R) := (1-t)*(1-t)*p0 + 2*(1-t)*t*p1 + t*t*p2.

Lemma b3_deriv p0 p1 p2 p3 t : is_derive (b3 p0 p1 p2 p3) t (b2 ((p1-p0)*3) ((p2-p1)*3) ((p3-p2)*3) t).
Proof. unfold b3, b2. auto_derive; [exact I| ring]. Qed.

