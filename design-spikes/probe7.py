import sys, math, random, time
sys.path.insert(0, sys.argv[1] if len(sys.argv)>1 else '/repo/src')
from beziers.point import Point
from beziers.line import Line
from beziers.quadraticbezier import QuadraticBezier
from beziers.cubicbezier import CubicBezier
from beziers.path import BezierPath
from beziers.path.geometricshapes import Rectangle, Circle, Ellipse
P=Point
random.seed(7)
def rpt(): return P(random.randint(-300,300), random.randint(-300,300))
def rseg(k=None):
    k=k or random.choice([3,4]); return [Line,QuadraticBezier,CubicBezier][k-2](*[rpt() for _ in range(k)])
def poly(c,N): return [c.pointAtTime(i/N) for i in range(N+1)]
def segint(p,q,r,s):
    d=(q.x-p.x)*(s.y-r.y)-(q.y-p.y)*(s.x-r.x)
    if d==0: return None
    t=((r.x-p.x)*(s.y-r.y)-(r.y-p.y)*(s.x-r.x))/d; u=((r.x-p.x)*(q.y-p.y)-(r.y-p.y)*(q.x-p.x))/d
    if 0<=t<1 and 0<=u<1: return t,u
def brute(a,b,N=300):
    pa,pb=poly(a,N),poly(b,N); res=[]
    for i in range(N):
        for j in range(N):
            if max(pa[i].x,pa[i+1].x)<min(pb[j].x,pb[j+1].x) or max(pb[j].x,pb[j+1].x)<min(pa[i].x,pa[i+1].x): continue
            if max(pa[i].y,pa[i+1].y)<min(pb[j].y,pb[j+1].y) or max(pb[j].y,pb[j+1].y)<min(pa[i].y,pa[i+1].y): continue
            r=segint(pa[i],pa[i+1],pb[j],pb[j+1])
            if r: res.append(((i+r[0])/N,(j+r[1])/N))
    return res
miss=0; phantom=0; tot=0; exc=0; slow=0; ex=[]
for it in range(120):
    a,b=rseg(),rseg()
    ba=a.bounds(); bb=b.bounds(); ext=max(ba.right,bb.right)-min(ba.left,bb.left); ext=max(ext, max(ba.top,bb.top)-min(ba.bottom,bb.bottom))
    truth=brute(a,b)
    # general-position filter
    if any(t<0.01 or t>0.99 or u<0.01 or u>0.99 for t,u in truth): continue
    if any(abs(t1-t2)<0.02 or abs(u1-u2)<0.02 for i,(t1,u1) in enumerate(truth) for (t2,u2) in truth[i+1:]): continue
    tot+=1; t0=time.time()
    try: got=a.intersections(b)
    except Exception as e: exc+=1; continue
    if time.time()-t0>5: slow+=1
    tol=0.002*ext
    for t,u in truth:
        pt=a.pointAtTime(t)
        if not any(g.point.distanceFrom(pt)<=tol for g in got): miss+=1; ex.append(('miss',a,b,round(t,4),round(u,4),[(round(g.t1,4),round(g.t2,4)) for g in got]))
    for g in got:
        if g.seg1.pointAtTime(g.t1).distanceFrom(g.seg2.pointAtTime(g.t2))>tol: phantom+=1; ex.append(('phantom',a,b,g))
print('C06 pairs',tot,'miss',miss,'phantom',phantom,'exc',exc,'slow',slow)
for e in ex[:4]: print('   ',e)
# C12/C13 on shapes
def area_check(A,B):
    res={}
    for flat in (True,False):
        try:
            u=A.union(B,flat=flat); i=A.intersection(B,flat=flat); d=A.difference(B,flat=flat)
            au=sum(p.area for p in u); ai=sum(p.area for p in i); ad=sum(p.area for p in d)
            res[flat]=(round(au+ai-A.area-B.area,2), round(ad-(A.area-ai),2), [len(p.asSegments()) for p in u], all(all(x.end==y.start for x,y in zip(p.asSegments(),p.asSegments()[1:]+p.asSegments()[:1])) for p in u+i+d))
        except Exception as e: res[flat]='EXC %s %s'%(type(e).__name__,str(e)[:60])
    return res
print(area_check(Rectangle(100,100),Rectangle(100,100,origin=P(50,50))))
print(area_check(Circle(50),Circle(50,origin=P(40,10))))
print(area_check(Ellipse(80,40),Rectangle(60,120,origin=P(10,5))))
print(area_check(Circle(50),Circle(20)))
print(area_check(Circle(50),Circle(20,origin=P(200,0))))
