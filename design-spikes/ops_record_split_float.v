From Coq Require Import Reals Lra Lia ZArith List PrimFloat Floats.FloatOps QArith Qreals.
Import ListNotations.

(* scalar interface *)
Record Ops (T:Type) := { add: T->T->T; sub: T->T->T; mul: T->T->T; dvd: T->T->T; ofZ : Z -> T; lit : Q -> float -> T;
  ltb : T->T->bool; leb: T->T->bool; eqb : T->T->bool; sqrt_: T->T }.
Arguments add {T}. Arguments sub {T}. Arguments mul {T}. Arguments dvd {T}. Arguments ofZ {T}. Arguments lit {T}.
Arguments ltb {T}. Arguments leb {T}. Arguments eqb {T}. Arguments sqrt_ {T}.

Section M.
Context {T:Type} (O:Ops T).
Notation "x + y" := (add O x y). Notation "x - y" := (sub O x y). Notation "x * y" := (mul O x y).
Notation "# z" := (ofZ O z) (at level 1).
Record pt := P { px : T; py : T }.
Definition padd a b := P (px a + px b) (py a + py b).
Definition pmul a k := P (px a * k) (py a * k).
Definition lerp a b t := padd (pmul a (#1 - t)) (pmul b t).
Definition cubic_eval (p0 p1 p2 p3:pt) t :=
  P ((#1 - t) * (#1 - t) * (#1 - t) * px p0 + #3 * (#1 - t) * (#1 - t) * t * px p1 + #3 * (#1 - t) * t * t * px p2 + t*t*t*px p3)
    ((#1 - t) * (#1 - t) * (#1 - t) * py p0 + #3 * (#1 - t) * (#1 - t) * t * py p1 + #3 * (#1 - t) * t * t * py p2 + t*t*t*py p3).
Definition cubic_split p0 p1 p2 p3 t :=
  let p4 := lerp p0 p1 t in let p5 := lerp p1 p2 t in let p6 := lerp p2 p3 t in
  let p7 := lerp p4 p5 t in let p8 := lerp p5 p6 t in let p9 := lerp p7 p8 t in
  ((p0,p4,p7,p9),(p9,p8,p6,p3)).
End M.

Definition ROps : Ops R := {| add := Rplus; sub := Rminus; mul := Rmult; dvd := Rdiv; ofZ := IZR; lit := fun q _ => Q2R q;
  ltb := fun x y => if Rlt_dec x y then true else false; leb := fun x y => if Rle_dec x y then true else false;
  eqb := fun x y => if Req_EM_T x y then true else false; sqrt_ := R_sqrt.sqrt |}.
Definition FOps : Ops float := {| add := PrimFloat.add; sub := PrimFloat.sub; mul := PrimFloat.mul; dvd := PrimFloat.div;
  ofZ := fun z => match z with Z0 => 0%float | Zpos p => PrimFloat.of_uint63 (Uint63.of_Z z) | Zneg p => PrimFloat.opp (PrimFloat.of_uint63 (Uint63.of_Z (Zpos p))) end;
  lit := fun _ f => f; ltb := PrimFloat.ltb; leb := PrimFloat.leb; eqb := PrimFloat.eqb; sqrt_ := PrimFloat.sqrt |}.

Lemma split_left_R : forall p0 p1 p2 p3 t s,
  let '((a,b,c,d),_) := cubic_split ROps p0 p1 p2 p3 t in
  cubic_eval ROps a b c d s = cubic_eval ROps p0 p1 p2 p3 (s*t)%R.
Proof. intros [x0 y0] [x1 y1] [x2 y2] [x3 y3] t s. cbv [cubic_split cubic_eval lerp padd pmul px py ROps add sub mul ofZ]. f_equal; ring. Qed.
Print Assumptions split_left_R.

Eval vm_compute in (let '(P x y) := cubic_eval FOps (P 120 160)%float (P 35 200)%float (P 220 260)%float (P 220 40)%float 0x1.3333333333333p-2%float in (x,y)).
