"""Spike: fail-closed Python-ast -> Gallina (over Ops) for a few kernels."""
import ast, sys, textwrap
SRC='/repo/src/beziers/'
class Untranslatable(Exception): pass

# types: 'S' scalar, 'P' point, 'B' bool, ('seg',n), ('list',t), ('tup',[...]), 'M' mat3 (list of list of S)
class Tx:
    def __init__(self, env, selfty=None, funs=None):
        self.env=dict(env); self.selfty=selfty; self.funs=funs or {}
    def e(self, n):
        """returns (coqtext, type)"""
        if isinstance(n, ast.Constant):
            v=n.value
            if isinstance(v,bool): raise Untranslatable('bool const')
            if isinstance(v,int): return (f"(ofZ O ({v}))",'S')
            if isinstance(v,float):
                from fractions import Fraction
                q=Fraction(repr(v)) ; return (f"(lit O ({q.numerator}#{q.denominator}) {v.hex()}%float)",'S')
            raise Untranslatable(f'const {v!r}')
        if isinstance(n, ast.Name):
            if n.id in self.env: return (n.id if n.id!='self' else 'self_', self.env[n.id])
            raise Untranslatable(f'unbound {n.id}')
        if isinstance(n, ast.UnaryOp) and isinstance(n.op, ast.USub):
            a,t=self.e(n.operand)
            if t=='S': return (f"(neg O {a})",'S')
            raise Untranslatable('neg non-scalar')
        if isinstance(n, ast.BinOp):
            a,ta=self.e(n.left); b,tb=self.e(n.right)
            op=type(n.op).__name__
            if ta=='S' and tb=='S':
                f={'Add':'add','Sub':'sub','Mult':'mul','Div':'dvd'}.get(op)
                if not f: raise Untranslatable(op)
                return (f"({f} O {a} {b})",'S')
            if ta=='P' and tb=='P' and op in('Add','Sub'):
                return (f"(p{op.lower()} O {a} {b})",'P')
            if ta=='P' and tb=='S' and op=='Mult': return (f"(pmul O {a} {b})",'P')
            if ta=='P' and tb=='S' and op=='Div': return (f"(pdiv O {a} {b})",'P')
            raise Untranslatable(f'binop {op} {ta} {tb}')
        if isinstance(n, ast.Compare):
            parts=[]; left=n.left
            for op,right in zip(n.ops,n.comparators):
                a,ta=self.e(left); b,tb=self.e(right)
                if ta!='S' or tb!='S': raise Untranslatable('cmp non-scalar')
                f={'Lt':('ltb',0),'LtE':('leb',0),'Gt':('ltb',1),'GtE':('leb',1),'Eq':('eqb',0),'NotEq':('neqb',0)}[type(op).__name__]
                parts.append(f"({f[0]} O {b} {a})" if f[1] else f"({f[0]} O {a} {b})")
                left=right
            out=parts[0]
            for p in parts[1:]: out=f"(andb {out} {p})"
            return (out,'B')
        if isinstance(n, ast.BoolOp):
            vs=[self.e(v) for v in n.values]
            if any(t!='B' for _,t in vs): raise Untranslatable('boolop non-bool')
            f='andb' if isinstance(n.op,ast.And) else 'orb'
            out=vs[0][0]
            for v,_ in vs[1:]: out=f"({f} {out} {v})"
            return (out,'B')
        if isinstance(n, ast.Attribute):
            a,t=self.e(n.value)
            if t=='P' and n.attr in('x','y'): return (f"(p{n.attr} {a})",'S')
            if isinstance(t,tuple) and t[0]=='seg' and n.attr in('start',): return (f"(nth_pt {a} 0)",'P')
            raise Untranslatable(f'attr {n.attr} on {t}')
        if isinstance(n, ast.Subscript):
            a,t=self.e(n.value)
            if isinstance(t,tuple) and t[0]=='seg' and isinstance(n.slice,ast.Constant):
                i=n.slice.value
                if i<0: i+=t[1]
                return (f"(nth_pt {a} {i})",'P')
            if t=='M' and isinstance(n.slice,ast.Constant): return (f"(mrow {a} {n.slice.value})",'Mrow')
            if t=='Mrow' and isinstance(n.slice,ast.Constant): return (f"(rcol {a} {n.slice.value})",'S')
            raise Untranslatable(f'subscript on {t}')
        if isinstance(n, ast.Call):
            fn=n.func
            if isinstance(fn,ast.Name) and fn.id=='Point':
                a=[self.e(x) for x in n.args]; return (f"(P {a[0][0]} {a[1][0]})",'P')
            if isinstance(fn,ast.Name) and fn.id in('CubicBezier','QuadraticBezier','Line'):
                a=[self.e(x)[0] for x in n.args]; return ("["+"; ".join(a)+"]",('seg',len(a)))
            if isinstance(fn,ast.Name) and fn.id=='sqrt':
                return (f"(sqrt_ O {self.e(n.args[0])[0]})",'S')
            if isinstance(fn,ast.Attribute):
                recv,t=self.e(fn.value)
                if t=='P' and fn.attr=='lerp':
                    a=[self.e(x)[0] for x in n.args]; return (f"(Point_lerp O {recv} {a[0]} {a[1]})",'P')
            raise Untranslatable(f'call {ast.dump(fn)[:60]}')
        if isinstance(n, ast.Tuple):
            vs=[self.e(v) for v in n.elts]
            return ("("+", ".join(v for v,_ in vs)+")",('tup',[t for _,t in vs]))
        if isinstance(n, ast.List):
            vs=[self.e(v) for v in n.elts]
            if vs and all(t=='S' for _,t in vs): return ("["+"; ".join(v for v,_ in vs)+"]",'Mrow')
            if vs and all(t=='Mrow' for _,t in vs): return ("["+"; ".join(v for v,_ in vs)+"]",'M')
            raise Untranslatable('list')
        raise Untranslatable(type(n).__name__)
    def body(self, stmts):
        """statement list -> coq expr (must end in return)"""
        if not stmts: raise Untranslatable('fallthrough')
        s=stmts[0]; rest=stmts[1:]
        if isinstance(s, ast.Expr) and isinstance(s.value, ast.Constant) and isinstance(s.value.value,str): return self.body(rest)
        if isinstance(s, ast.Return):
            return self.e(s.value)
        if isinstance(s, ast.Assign) and len(s.targets)==1 and isinstance(s.targets[0],ast.Name):
            v,t=self.e(s.value); name=s.targets[0].id
            self.env[name]=t
            b,tb=self.body(rest)
            return (f"let {name} := {v} in\n  {b}",tb)
        raise Untranslatable(f'stmt {type(s).__name__}')

def find(tree, cls, fn):
    for n in tree.body:
        if isinstance(n, ast.ClassDef) and n.name==cls:
            for m in n.body:
                if isinstance(m, ast.FunctionDef) and m.name==fn: return m
    raise KeyError((cls,fn))

out=[]
def emit(modfile, cls, fn, selfty, argtys):
    tree=ast.parse(open(SRC+modfile).read())
    f=find(tree,cls,fn)
    names=[a.arg for a in f.args.args]
    env={'self':selfty}
    for nme,t in zip(names[1:],argtys): env[nme]=t
    tx=Tx(env)
    b,t=tx.body(f.body)
    params=" ".join(['self_']+names[1:])
    out.append(f"Definition {cls}_{fn} {params} :=\n  {b}.\n")

emit('point.py','Point','lerp','P',['P','S'])
emit('cubicbezier.py','CubicBezier','pointAtTime',('seg',4),['S'])
emit('cubicbezier.py','CubicBezier','splitAtTime',('seg',4),['S'])
emit('cubicbezier.py','CubicBezier','derivative',('seg',4),[])
emit('cubicbezier.py','CubicBezier','area',('seg',4),[])
emit('quadraticbezier.py','QuadraticBezier','area',('seg',3),[])
emit('affinetransformation.py','AffineTransformation','apply','M0',['M0']) if False else None
print("\n".join(out))
