from sympy import *
x0,y0,x1,y1,x2,y2,x3,y3,t=symbols('x0 y0 x1 y1 x2 y2 x3 y3 t')
def bez3(p,t): return (1-t)**3*p[0]+3*(1-t)**2*t*p[1]+3*(1-t)*t**2*p[2]+t**3*p[3]
def bez2(p,t): return (1-t)**2*p[0]+2*(1-t)*t*p[1]+t**2*p[2]
X=bez3([x0,x1,x2,x3],t); Y=bez3([y0,y1,y2,y3],t)
I=integrate(expand(Y*diff(X,t)),(t,0,1))
area=(10*(x3*y3-x0*y0)+6*(x1*y0-x0*y1+x3*y2-x2*y3)+3*(x2*y0-x0*y2+x2*y1-x1*y2+x3*y1-x1*y3)+x3*y0-x0*y3)/20
print('cubic area == int y dx:', simplify(I-area)==0, ' == int x dy:', simplify(integrate(expand(X*diff(Y,t)),(t,0,1))-area)==0, '== -int x dy', simplify(integrate(expand(X*diff(Y,t)),(t,0,1))+area)==0)
X2=bez2([x0,x1,x2],t); Y2=bez2([y0,y1,y2],t)
I2=integrate(expand(Y2*diff(X2,t)),(t,0,1))
a2=(2*(x1*y0-x0*y1-x1*y2+x2*y1)+3*(x2*y2-x0*y0)+x2*y0-x0*y2)/6
print('quad area == int y dx:', simplify(I2-a2)==0)
# hasLoop
a1=x0*(y3-y2)+y0*(x2-x3)+x3*y2-y3*x2
a2_=x1*(y0-y3)+y1*(x3-x0)+x0*y3-y0*x3
a3=x2*(y1-y0)+y2*(x0-x1)+x1*y0-y1*x0
d3=3*a3; d2=d3-a2_; d1=d2-a2_+a1
sig=d2/d1   # t1+t2 = 2*d2/(2*d1)
# t1,t2=(d2±f1)/(2 d1), f1^2 = -(3 d2^2-4 d1 d3)
pi_=(d2**2+(3*d2**2-4*d1*d3))/(4*d1**2)
# B(t1)-B(t2) = (t1-t2)*(A(sig^2-pi)+B sig + C)
Ax=-x0+3*x1-3*x2+x3; Bx=3*x0-6*x1+3*x2; Cx=-3*x0+3*x1
Ay=-y0+3*y1-3*y2+y3; By=3*y0-6*y1+3*y2; Cy=-3*y0+3*y1
ex=simplify(Ax*(sig**2-pi_)+Bx*sig+Cx); ey=simplify(Ay*(sig**2-pi_)+By*sig+Cy)
print('hasLoop double point identity:', ex, ey)
