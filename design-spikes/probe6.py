import sys, math, random
sys.path.insert(0, sys.argv[1] if len(sys.argv)>1 else '/repo/src')
from beziers.point import Point
from beziers.line import Line
from beziers.quadraticbezier import QuadraticBezier
from beziers.cubicbezier import CubicBezier
from beziers.path import BezierPath
from beziers.path.geometricshapes import Rectangle, Circle, Ellipse
from beziers.utils.curvedistance import curveDistance
P=Point
random.seed(6)
def rpt(): return P(random.randint(-300,300), random.randint(-300,300))
def rseg(k=None):
    k=k or random.choice([2,3,4]); return [Line,QuadraticBezier,CubicBezier][k-2](*[rpt() for _ in range(k)])
# ---- C11 even-odd on random closed paths (general position)
def evenodd(path, pt, N=3000):
    # count crossings of ray to +x by dense polyline approx
    cnt=0
    for s in path.asSegments():
        prev=s.pointAtTime(0)
        for i in range(1,N+1):
            cur=s.pointAtTime(i/N)
            if (prev.y>pt.y)!=(cur.y>pt.y):
                x=prev.x+(pt.y-prev.y)*(cur.x-prev.x)/(cur.y-prev.y)
                if x>pt.x: cnt+=1
            prev=cur
    return cnt%2==1
def mindist(path,pt,N=300):
    return min(s.pointAtTime(i/N).distanceFrom(pt) for s in path.asSegments() for i in range(N+1))
def rpath(n):
    pts=[rpt() for _ in range(n)]
    segs=[]
    for i in range(n):
        a,b=pts[i],pts[(i+1)%n]; k=random.choice([2,3,4])
        if k==2: segs.append(Line(a,b))
        elif k==3: segs.append(QuadraticBezier(a,rpt(),b))
        else: segs.append(CubicBezier(a,rpt(),rpt(),b))
    return BezierPath.fromSegments(segs)
bad=0;tot=0;ex=[]
for it in range(150):
    p=rpath(random.randint(3,5))
    bb=p.bounds(); ext=max(bb.width,bb.height)
    for _ in range(6):
        q=P(random.uniform(bb.left-20,bb.right+20), random.uniform(bb.bottom-20,bb.top+20))
        if mindist(p,q)<1e-2*ext: continue
        # skip rays level with nodes within 1e-6*ext
        if any(abs(s.start.y-q.y)<1e-6*ext for s in p.asSegments()): continue
        tot+=1
        try: got=p.pointIsInside(q)
        except Exception as e: got='EXC'+type(e).__name__
        if got!=evenodd(p,q):
            bad+=1
            if len(ex)<3: ex.append((p.asSegments(),q,got))
print('C11 general-position bad',bad,'of',tot); [print('   ',e) for e in ex]
# ---- C15 steep lines
bad=0
for it in range(2000):
    a=rpt(); b=P(a.x+10**random.uniform(-7,-1), a.y+random.randint(1,600)); l=Line(a,b); t=random.random()
    r=l.tOfPoint(l.pointAtTime(t))
    if r==-1 or l.pointAtTime(r).distanceFrom(l.pointAtTime(t))>1e-9*max(abs(b.x),abs(b.y),1): bad+=1; last=(l,t,r)
print('C15 steep-line bad',bad, last if bad else '')
# ---- C16 regular sample strictly increasing, spacing; C17 counts
bad_inc=0; bad_cnt=0; exc=0
for it in range(200):
    c=rseg(random.choice([3,4])); L=c.length
    if L<40: continue
    n=random.randint(1,int(L/4))
    try:
        ts=c.regularSampleTValue(n)
    except Exception as e: exc+=1; continue
    if ts[0]!=0 or ts[-1]!=1.0 or any(b<=a for a,b in zip(ts,ts[1:])): bad_inc+=1; exi=(c,n,[ (a,b) for a,b in zip(ts,ts[1:]) if b<=a][:2])
    d=random.uniform(0.5,100)
    fl=c.flatten(d)
    if L>=d and not (len(fl)>L/(2*d)): bad_cnt+=1; exc_=(c,d,len(fl),L)
print('C16 not strictly increasing',bad_inc, exi if bad_inc else '', 'exc',exc); print('C17 edge-count bad',bad_cnt, exc_ if bad_cnt else '')
# ---- C20 crossing/touching crash
exc=0; neg=0
for it in range(300):
    a,b=rseg(),rseg()
    try: d,t1,t2=curveDistance(a,b)
    except Exception as e: exc+=1; exe=(type(e).__name__,a,b)
print('C20 exceptions',exc, exe if exc else '')
for a,b in [(Line(P(0,0),P(10,0)),Line(P(10,0),P(20,5))),(Line(P(0,0),P(3,1)),Line(P(3,1),P(7,9))),(CubicBezier(P(0,0),P(1,2),P(3,3),P(4,0)),CubicBezier(P(4,0),P(5,5),P(6,1),P(9,9)))]:
    try: print('touching', curveDistance(a,b))
    except Exception as e: print('touching EXC',type(e).__name__,e)
