From Coq Require Import Reals Lra Psatz.
From Coquelicot Require Import Coquelicot.
Open Scope R_scope.

(* cubic coordinate polynomial in power basis and its derivative *)
Definition p (a b c d t:R) := a*t*t*t + b*t*t + c*t + d.
Definition dp (a b c t:R) := 3*a*t*t + 2*b*t + c.

Lemma p_derivable a b c d t : derivable_pt_lim (p a b c d) t (dp a b c t).
Proof. apply is_derive_Reals. unfold p, dp. auto_derive; [exact I|ring]. Qed.

(* Key lemma: on [0,1], p is bounded by its values at 0, 1 and at interior critical points. *)
Lemma cubic_max_at_crit a b c d M :
  p a b c d 0 <= M -> p a b c d 1 <= M ->
  (forall r, 0 < r < 1 -> dp a b c r = 0 -> p a b c d r <= M) ->
  forall t, 0 <= t <= 1 -> p a b c d t <= M.
Proof.
  intros H0 H1 Hc t Ht.
  destruct (continuity_ab_maj (p a b c d) 0 1) as [Mx [Hmax HMx]]; [lra| |].
  { intros x _. apply derivable_continuous_pt. exists (dp a b c x). apply p_derivable. }
  apply Rle_trans with (p a b c d Mx); [apply Hmax; exact Ht|].
  destruct (Req_dec Mx 0) as [->|N0]; [exact H0|].
  destruct (Req_dec Mx 1) as [->|N1]; [exact H1|].
  apply Hc; [lra|].
  assert (pr : derivable_pt (p a b c d) Mx) by (exists (dp a b c Mx); apply p_derivable).
  rewrite <- (deriv_maximum (p a b c d) 0 1 Mx pr); [| lra | lra | intros x Hx0 Hx1; apply Hmax; lra].
  symmetry. apply derive_pt_eq_0. apply p_derivable.
Qed.
Print Assumptions cubic_max_at_crit.
