import ast, re
from fractions import Fraction
src=open('/repo/src/beziers/utils/legendregauss.py').read()
nums=re.findall(r'-?\d+\.\d+', src)
T=[Fraction(x) for x in nums[:24]]; C=[Fraction(x) for x in nums[24:]]
print(len(T),len(C), float(sum(C)-2))
z=Fraction(1,2)
for k in range(0,8):
    m=sum(c*(z*t+z)**k for c,t in zip(C,T))*z
    print(k, float(m-Fraction(1,k+1)))
# also as floats (what python uses)
Tf=[float(x) for x in nums[:24]]; Cf=[float(x) for x in nums[24:]]
for k in range(0,4):
    m=sum(Fraction(c)*(z*Fraction(t)+z)**k for c,t in zip(Cf,Tf))*z
    print('float-table',k, float(m-Fraction(1,k+1)))
