import sys, math, random
sys.path.insert(0,'/repo/src')
from beziers.point import Point
from beziers.line import Line
from beziers.quadraticbezier import QuadraticBezier
from beziers.cubicbezier import CubicBezier
from beziers.path import BezierPath
from beziers.path.representations.Nodelist import Node
from beziers.path.geometricshapes import Rectangle, Circle, Ellipse
from beziers.utils.curvedistance import curveDistance
P=Point
def tryit(name, f):
    try:
        print(name, '=>', f())
    except Exception as e:
        print(name, 'EXC', type(e).__name__, str(e)[:100])
# C14 closing stroke
pts=[P(0,0),P(50,80),P(100,100),P(150,80),P(200,0),P(100,-50),P(0,0)]
tryit('fit closing', lambda: BezierPath.fromPoints(pts,error=50,maxSegments=20).asSegments())
pts2=[P(0,0),P(10,0),P(20,0)]
tryit('fit collinear', lambda: BezierPath.fromPoints(pts2,error=1,maxSegments=20).asSegments())
random.seed(1)
bad=0; exc=0
for it in range(300):
    n=random.randint(2,30)
    pts=[P(random.randint(-300,300),random.randint(-300,300)) for _ in range(n)]
    err=10**random.uniform(-2,4); ct=10**random.uniform(-1,2)
    try:
        segs=BezierPath.fromPoints(pts,error=err,cornerTolerance=ct,maxSegments=n+5).asSegments()
    except Exception as e:
        exc+=1; 
        if exc<4: print('fit EXC',type(e).__name__,str(e)[:80], n, err, ct)
        continue
    ok = len(segs)>0 and segs[0].start==pts[0] and segs[-1].end==pts[-1] and all(a.end==b.start for a,b in zip(segs,segs[1:]))
    if ok:
        tol=math.sqrt(err)*(1+1e-6)+1e-6
        for p in pts:
            d=min(min(s.pointAtTime(i/400).distanceFrom(p) for i in range(401)) for s in segs)
            if d>tol+0.5: ok=False
    if not ok: bad+=1
print('C14 random polylines bad',bad,'exc',exc)
# C20
random.seed(2); bad=0; exc=0
def rs():
    k=random.choice([2,3,4]); pts=[P(random.randint(-200,200),random.randint(-200,200)) for _ in range(k)]
    return [Line,QuadraticBezier,CubicBezier][k-2](*pts)
for it in range(200):
    a,b=rs(),rs()
    try:
        d,t1,t2=curveDistance(a,b)
    except Exception as e:
        exc+=1
        if exc<4: print('dist EXC',type(e).__name__,str(e)[:80],a,b)
        continue
    true=min(a.pointAtTime(i/100).distanceFrom(b.pointAtTime(j/100)) for i in range(101) for j in range(101))
    if d<true-2 or not (0<=t1<=1 and 0<=t2<=1) or d!=d: bad+=1
print('C20 bad',bad,'exc',exc)
# C04 cusp accuracy
def truelen(c,N=20000):
    d=c.derivative(); s=0
    for i in range(N):
        t=(i+0.5)/N; p=d.pointAtTime(t); s+=math.hypot(p.x,p.y)
    return s/N
cusp=CubicBezier(P(0,0),P(100,100),P(0,100),P(100,0))
tryit('cusp len rel err', lambda: (cusp.length/truelen(cusp)-1))
retr=CubicBezier(P(0,0),P(100,0),P(-50,0),P(50,0))
tryit('retrace len rel err', lambda: (retr.length/truelen(retr)-1))
worst=0
random.seed(3)
for it in range(300):
    c=CubicBezier(*[P(random.randint(-100,100),random.randint(-100,100)) for _ in range(4)])
    tl=truelen(c,4000)
    if tl>0: worst=max(worst,abs(c.length/tl-1))
print('C04 worst random rel err',worst)
# C06 tiny curves
a=CubicBezier(P(0,0),P(0.003,0.01),P(0.006,0.01),P(0.01,0)); b=CubicBezier(P(0,0.02),P(0.003,0.008),P(0.006,0.008),P(0.01,0.02))
tryit('tiny curves', lambda: a.intersections(b))
# C17
c=CubicBezier(P(0,0),P(0,100),P(100,100),P(100,0))
fl=c.flatten(10); print('flatten n',len(fl),'len',c.length, fl[0].start, fl[-1].end, all(x.end==y.start for x,y in zip(fl,fl[1:])))
sh=CubicBezier(P(0,0),P(1,1),P(2,1),P(3,0)); print('short chord _orig', sh.flatten(8)[0]._orig)
q=QuadraticBezier(P(0,0),P(50,100),P(100,0)); fq=q.flatten(10); print('quad flatten', len(fq), q.length, fq[-1].end, fq[-2].end)
# C08 rotation
nl=[Node(0,0,'curve'),Node(0,50,'offcurve'),Node(50,100,'offcurve'),Node(100,100,'curve'),Node(200,100,'line'),Node(200,0,'line')]
for k in range(len(nl)):
    r=nl[k:]+nl[:k]
    p=BezierPath.fromNodelist(r); print(k,p.asSegments())
