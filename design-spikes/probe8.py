import sys, math, random
sys.path.insert(0,'/repo/src')
from beziers.point import Point
from beziers.path import BezierPath
import beziers.utils.curvefitter as cf
P=Point
random.seed(1)
orig=cf.CurveFit._fitCurve.__func__
trace=[]
def wrapped(cls, points, t1, t2, error, ct, maxSegments):
    r=orig(cls, points, t1, t2, error, ct, maxSegments)
    if r==[] or r is None: trace.append((len(points), t1, t2, maxSegments))
    return r
cf.CurveFit._fitCurve=classmethod(wrapped)
for it in range(300):
    n=random.randint(2,30)
    pts=[P(random.randint(-300,300),random.randint(-300,300)) for _ in range(n)]
    err=10**random.uniform(-2,4); ct=10**random.uniform(-1,2)
    trace.clear()
    segs=BezierPath.fromPoints(pts,error=err,cornerTolerance=ct,maxSegments=n+5).asSegments()
    ok = len(segs)>0 and segs[0].start==pts[0] and segs[-1].end==pts[-1] and all(a.end==b.start for a,b in zip(segs,segs[1:]))
    if not ok or trace: print(it, n, round(err,2), round(ct,2), 'ok' if ok else 'BROKEN', trace[:3])
