import sys, math, random
sys.path.insert(0,'/repo/src')
from beziers.point import Point
from beziers.line import Line
from beziers.quadraticbezier import QuadraticBezier
from beziers.cubicbezier import CubicBezier
from beziers.path import BezierPath
from beziers.utils.curvedistance import curveDistance
P=Point
random.seed(1)
kinds={}
for it in range(300):
    n=random.randint(2,30)
    pts=[P(random.randint(-300,300),random.randint(-300,300)) for _ in range(n)]
    err=10**random.uniform(-2,4); ct=10**random.uniform(-1,2)
    segs=BezierPath.fromPoints(pts,error=err,cornerTolerance=ct,maxSegments=n+5).asSegments()
    why=None
    # dedupe effect
    seen=set(); dd=[]
    for p in pts:
        if hash(p) in seen: continue
        seen.add(hash(p)); dd.append(p)
    if len(segs)==0: why='empty'
    elif not (segs[0].start==pts[0]): why='start'
    elif not (segs[-1].end==pts[-1]): why='end' + ('(dedup)' if dd[-1]!=pts[-1] else '')
    elif not all(a.end==b.start for a,b in zip(segs,segs[1:])): why='gap'
    else:
        tol=math.sqrt(err)
        worst=0
        for p in pts:
            d=min(min(s.pointAtTime(i/2000).distanceFrom(p) for i in range(2001)) for s in segs)
            worst=max(worst,d-tol)
        if worst>1e-3: why='err>%g'%round(worst,3)
    if why:
        kinds.setdefault(why.split('>')[0],[]).append((n,round(err,3),round(ct,2),why,len(dd),len(segs)))
for k,v in kinds.items(): print(k,len(v),v[:4])
random.seed(2)
def rs():
    k=random.choice([2,3,4]); pts=[P(random.randint(-200,200),random.randint(-200,200)) for _ in range(k)]
    return [Line,QuadraticBezier,CubicBezier][k-2](*pts)
for it in range(200):
    a,b=rs(),rs()
    d,t1,t2=curveDistance(a,b)
    true=min(a.pointAtTime(i/100).distanceFrom(b.pointAtTime(j/100)) for i in range(101) for j in range(101))
    if d<true-2 or not (0<=t1<=1 and 0<=t2<=1) or d!=d: print('C20 bad',a,b,d,t1,t2,true)
