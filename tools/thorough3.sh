#!/bin/bash
# thorough3.sh : the thorough tier of every check in three parallel streams (the checks are independent); prints one line per check
cd "$(dirname "$(readlink -f "$0")")/.."
run() { for p in "$@"; do out=$(./check $p --tier thorough 2>&1); rc=$?; echo "$out" | grep -v "^!" | grep -E "tier=|VIOLATION|broken:" | cut -c1-220; [ $rc -ne 0 ] && echo "  EXIT $rc for $p"; done; }
run C12 C15 C18 C01 C04 C07 C19 & 
run C13 C16 C20 C02 C05 C08 C10 &
run C14 C17 C03 C06 C09 C11 &
wait
echo thorough3-done
