#!/usr/bin/env python3
"""fail-closed check of the round-6 translator: mutate a scratch copy of the Python source a few ways; every mutant must be rejected
(an error for the affected function) or change the generated text of Gen/Fit.v / Gen/Clip.v

    PYTHONPATH=/repo/src PYTHONHASHSEED=0 /venv/bin/python tools/mutation/run_mut_round6.py [name-substring ..]   (log: tools/mutation/run_mut_round6.log)"""
import os, sys, shutil, subprocess, json, hashlib
ROOT = os.environ.get('MUT_ROOT', '/root/pw/tx6/scratch/mut')
SRC0 = '/repo/src/beziers'
PY2V = os.path.join(os.path.dirname(os.path.dirname(os.path.abspath(__file__))), 'py2v.py')
CF = 'utils/curvefitter.py'
BO = 'utils/booleanoperationsmixin.py'

MUTANTS = [
    # (name, file, old, new)
    # ---- _fitCurve: budget arithmetic, tangents, comparisons, exits
    ('fc-budget-init', CF, 'segmentsRemaining = maxSegments - 1\n            if isCorner:', 'segmentsRemaining = maxSegments - 2\n            if isCorner:'),
    ('fc-budget-after-left', CF, 'segmentsRemaining = maxSegments - len(lbeziers)', 'segmentsRemaining = segmentsRemaining - len(lbeziers)'),
    ('fc-budget-test', CF, '        if 1 < maxSegments:', '        if 1 <= maxSegments:'),
    ('fc-budget-left-full', CF, 'lPoints, tangent1, recTHat2, error, cornerTolerance, segmentsRemaining', 'lPoints, tangent1, recTHat2, error, cornerTolerance, maxSegments'),
    ('fc-swap-rec-tangents', CF, 'lPoints, tangent1, recTHat2, error', 'lPoints, tangent1, recTHat1, error'),
    ('fc-swap-tangent-args', CF, 'rPoints, recTHat1, tangent2, error', 'rPoints, tangent2, recTHat1, error'),
    ('fc-neg-tangent', CF, 'recTHat1 = recTHat2 * -1', 'recTHat1 = recTHat2 * 1'),
    ('fc-accept-lt', CF, '        if abs(maxErrorRatio) <= 1.0:\n            return [bez]\n        if 0.0', '        if abs(maxErrorRatio) < 1.0:\n            return [bez]\n        if 0.0'),
    ('fc-iter-window', CF, 'if 0.0 <= maxErrorRatio and maxErrorRatio <= 3.0:', 'if 0.0 <= maxErrorRatio and maxErrorRatio <= 4.0:'),
    ('fc-iterations', CF, 'maxIterations = 3', 'maxIterations = 4'),
    ('fc-iter-no-plus1', CF, 'for _ in range(0, maxIterations + 1):', 'for _ in range(0, maxIterations):'),
    ('fc-corner-le', CF, 'isCorner = maxErrorRatio < 0', 'isCorner = maxErrorRatio <= 0'),
    ('fc-corner-is-none-truthy', CF, '                if tangent1 is None:\n                    splitPoint = splitPoint + 1', '                if not tangent1:\n                    splitPoint = splitPoint + 1'),
    ('fc-reentry-none', CF, '                        points,\n                        Point(0.0, 0.0),\n                        tangent2,', '                        points,\n                        None,\n                        tangent2,'),
    ('fc-corner-range', CF, 'if not (0 < splitPoint and splitPoint < len(points) - 1):', 'if not (0 <= splitPoint and splitPoint < len(points) - 1):'),
    ('fc-exit-none', CF, '                if not (0 < splitPoint and splitPoint < len(points) - 1):\n                    return []', '                if not (0 < splitPoint and splitPoint < len(points) - 1):\n                    return'),
    ('fc-exit-degenerate', CF, '        if u[-1] == 0.0:\n            return []', '        if u[-1] == 0.0:\n            return [self.fitLine(points, tangent1, tangent2)]'),
    ('fc-slice-left', CF, 'lPoints = points[: splitPoint + 1]', 'lPoints = points[:splitPoint]'),
    ('fc-slice-right', CF, 'rPoints = points[splitPoint:]', 'rPoints = points[splitPoint + 1 :]'),
    ('fc-concat-order', CF, 'return lbeziers + rbeziers', 'return rbeziers + lbeziers'),
    ('fc-truthy-left', CF, '            if lbeziers:\n                segmentsRemaining', '            if lbeziers is not None:\n                segmentsRemaining'),
    ('fc-two-points', CF, '        if len(points) == 2:', '        if len(points) == 3:'),
    ('fc-no-reparam', CF, '        self.reparameterize(bez, points, u)\n', ''),
    ('fc-tolerance', CF, 'tolerance = math.sqrt(error + 1e-9)', 'tolerance = math.sqrt(error)'),
    ('fc-add-statement', CF, '        isCorner = maxErrorRatio < 0\n', '        isCorner = maxErrorRatio < 0\n        points.reverse()\n'),
    ('fc-add-statement-budget', CF, '        isCorner = maxErrorRatio < 0\n', '        isCorner = maxErrorRatio < 0\n        maxSegments = maxSegments + 1\n'),
    ('fc-alias-u', CF, '        u = self.chordLengthParameterize(points)\n        if u[-1]', '        u = self.chordLengthParameterize(points)\n        u0 = u\n        if u[-1]'),
    # ---- fitCurve
    ('fit-dedupe-and', CF, 'if len(deduped) == 0 or x.x != deduped[-1].x or x.y != deduped[-1].y:', 'if len(deduped) == 0 or (x.x != deduped[-1].x and x.y != deduped[-1].y):'),
    ('fit-dedupe-first', CF, 'if len(deduped) == 0 or x.x != deduped[-1].x or x.y != deduped[-1].y:', 'if len(deduped) == 0 or x.x != deduped[0].x or x.y != deduped[-1].y:'),
    ('fit-dedupe-eq', CF, 'if len(deduped) == 0 or x.x != deduped[-1].x or x.y != deduped[-1].y:', 'if len(deduped) == 0 or x != deduped[-1]:'),
    ('fit-min-points', CF, '        if len(data) < 2:\n            return\n        return self._fitCurve', '        if len(data) < 3:\n            return\n        return self._fitCurve'),
    ('fit-tangent-arg', CF, 'return self._fitCurve(data, None, None, error, cornerTolerance, maxSegments)', 'return self._fitCurve(data, None, Point(0.0, 0.0), error, cornerTolerance, maxSegments)'),
    # ---- the numeric helpers
    ('cl-guard-removed', CF, '        if det_C0_C1 != 0.0:\n            det_C0_X', '        if True:\n            det_C0_X'),
    ('el-c10', CF, 'C[1][0] = C[0][1]', 'C[1][0] = C[1][1]'),
    ('el-alias-row', CF, '        X = [0.0, 0.0]\n', '        X = [0.0, 0.0]\n        row = C[0]\n'),
    ('el-append', CF, '        det_C0_C1 = C[0][0]', '        X.append(1.0)\n        det_C0_C1 = C[0][0]'),
    ('el-eps', CF, 'if alpha_l < 1.0e-6 or alpha_r < 1.0e-6:', 'if alpha_l < 1.0e-6 and alpha_r < 1.0e-6:'),
    ('nr-guard', CF, '        if denominator > 0.0:\n            improvedU', '        if denominator >= 0.0:\n            improvedU'),
    ('nr-proportion', CF, '            proportion += 0.125\n', '            proportion += 0.25\n'),
    ('nr-break-removed', CF, '                    improvedU = u\n                    break\n', '                    improvedU = u\n'),
    ('lt-start', CF, '        i = 1\n        while True:\n            pi = data[i]\n            t = pi - data[0]', '        i = 0\n        while True:\n            pi = data[i]\n            t = pi - data[0]'),
    ('lt-test-true', CF, '        i = 1\n        while True:', '        i = 1\n        while i < len(data):'),
    ('rt-stop', CF, '            if i == 0:\n                if distSq == 0:\n                    return self._rightTangent(data)', '            if i == 1:\n                if distSq == 0:\n                    return self._rightTangent(data)'),
    ('ct-eq', CF, 'if data[center + 1] == data[center - 1]:', 'if data[center + 1] != data[center - 1]:'),
    ('cme-max-init', CF, '        maxSqDist = 0.0\n', '        maxSqDist = -1.0\n'),
    ('cme-max-dir', CF, '            if distSq > maxSqDist:\n                maxSqDist = distSq', '            if distSq < maxSqDist:\n                maxSqDist = distSq'),
    ('cme-snap', CF, '            splitPoint = snapEnd - 1\n', '            splitPoint = snapEnd\n'),
    ('cme-range', CF, '        for i in range(1, len(points)):\n            cur = bez.pointAtTime(params[i])', '        for i in range(0, len(points)):\n            cur = bez.pointAtTime(params[i])'),
    ('ch-return-float', CF, '        if dist < cornerTolerance:\n            return 0\n', '        if dist < cornerTolerance:\n            return None\n'),
    ('rp-other-list', CF, 'params[i] = self.newtonRaphsonFind(bez, points[i], params[i])', 'params[i] = self.newtonRaphsonFind(bez, points[i], params[i - 1])'),
    ('gb-refine-both', CF, '        if not tHat1:\n            # print("Refining', '        if not tHat2:\n            # print("Refining'),
    ('fl-thirds', CF, 'p1 = ((p0 * 2.0) + p3) / 3.0', 'p1 = ((p0 * 2.0) + p3) / dist'),
    ('b1-coeff', CF, '    return 3 * u * (1.0 - u) * (1.0 - u)', '    return 3.0 * u * (1.0 - u) * (1.0 - u)'),
    # ---- BezierPath.fromPoints
    ('fp-closed', 'path/__init__.py', '        path = BezierPath()\n        path.closed = False\n        path.activeRepresentation = SegmentRepresentation(path, segs)', '        path = BezierPath()\n        path.closed = True\n        path.activeRepresentation = SegmentRepresentation(path, segs)'),
    ('fp-args', 'path/__init__.py', 'segs = CurveFit.fitCurve(points, error, cornerTolerance, maxSegments)', 'segs = CurveFit.fitCurve(points, cornerTolerance, error, maxSegments)'),
    # ---- the Boolean-operation glue (utils/booleanoperationsmixin.py: clip / union / intersection / difference)
    ('cl-roles-swapped', BO, 'pc.AddPath(clip, pyclipper.PT_CLIP, True)\n        pc.AddPath(subj, pyclipper.PT_SUBJECT, True)', 'pc.AddPath(clip, pyclipper.PT_SUBJECT, True)\n        pc.AddPath(subj, pyclipper.PT_CLIP, True)'),
    ('cl-open-path', BO, 'pc.AddPath(subj, pyclipper.PT_SUBJECT, True)', 'pc.AddPath(subj, pyclipper.PT_SUBJECT, False)'),
    ('cl-fill-rule', BO, 'pc.Execute(cliptype, pyclipper.PFT_EVENODD, pyclipper.PFT_EVENODD)', 'pc.Execute(cliptype, pyclipper.PFT_NONZERO, pyclipper.PFT_EVENODD)'),
    ('cl-other-api', BO, '        paths = pc.Execute(', '        pc.Clear()\n        paths = pc.Execute('),
    ('cl-offset-api', BO, '        pc = pyclipper.Pyclipper()\n', '        pc = pyclipper.PyclipperOffset()\n'),
    ('cl-scale-helper', BO, '        outpaths = []\n', '        outpaths = []\n        paths = pyclipper.scale_from_clipper(paths)\n'),
    ('cl-union-op', BO, 'return self.clip(other, pyclipper.CT_UNION, flat)', 'return self.clip(other, pyclipper.CT_XOR, flat)'),
    ('cl-difference-swapped', BO, 'return self.clip(other, pyclipper.CT_DIFFERENCE, flat)', 'return other.clip(self, pyclipper.CT_DIFFERENCE, flat)'),
    ('cl-precision', BO, '        precision = 100.0\n', '        precision = 1000.0\n'),
    ('cl-lut-key-unrounded', BO, '                    (line.start * precision).rounded(),\n                    (line.end * precision).rounded(),\n                )\n                reconstructionLUT[key] = line._orig or line', '                    (line.start * precision),\n                    (line.end * precision).rounded(),\n                )\n                reconstructionLUT[key] = line._orig or line'),
    ('cl-lut-no-reverse', BO, 'reconstructionLUT[key2] = (line._orig or line).reversed()', 'reconstructionLUT[key2] = (line._orig or line)'),
    ('cl-lut-line-only', BO, 'reconstructionLUT[key] = line._orig or line', 'reconstructionLUT[key] = line'),
    ('cl-flatten-degree', BO, '        for s in segs1unflattened:\n            flats = s.flatten(2)', '        for s in segs1unflattened:\n            flats = s.flatten(4)'),
    ('cl-flat-ignored', BO, 'if key in reconstructionLUT and not flat:', 'if key in reconstructionLUT:'),
    ('cl-dedupe-eq', BO, 'if len(newpath) == 0 or newpath[-1] != orig:', 'if len(newpath) == 0 or newpath[-1] is not orig:'),
    ('cl-closing-dup', BO, 'if len(newpath) > 1 and newpath[-1] == newpath[0]:', 'if len(newpath) > 2 and newpath[-1] == newpath[0]:'),
    ('cl-no-closing-pair', BO, 'in pairwise(list(p) + [p[0]]):', 'in pairwise(list(p)):'),
    ('cl-fallback-unscaled', BO, 'newpath.append(Line(key[0] / precision, key[1] / precision))', 'newpath.append(Line(key[0], key[1] / precision))'),
    ('cl-split-threshold', BO, '                    if i.t1 > 1e-8 and i.t1 < 1 - 1e-8:', '                    if i.t1 > 1e-8 and i.t2 < 1 - 1e-8:'),
    ('cl-split-roles', BO, '                        if i.seg1 == s1:\n                            splitlist1.append((i.seg1, i.t1))\n                            splitlist2.append((i.seg2, i.t2))', '                        if i.seg1 == s1:\n                            splitlist1.append((i.seg2, i.t2))\n                            splitlist2.append((i.seg1, i.t1))'),
    ('cl-no-clone', BO, '        clip = clip.clone()\n', ''),
    ('cl-subject-from-clip', BO, 'subj = [(s[0].x * precision, s[0].y * precision) for s in segs1]', 'subj = [(s[0].x * precision, s[0].y * precision) for s in segs2]'),
    ('cl-end-points', BO, 'subj = [(s[0].x * precision, s[0].y * precision) for s in segs1]', 'subj = [(s[1].x * precision, s[1].y * precision) for s in segs1]'),
    ('cl-add-statement', BO, '        segs1unflattened = cloned.asSegments()\n', '        segs1unflattened = cloned.asSegments()\n        segs1unflattened.reverse()\n'),
    ('cl-pairwise-changed', BO, '            next(b)\n            for curpoint, nextpoint in zip(a, b):', '            next(b)\n            next(b)\n            for curpoint, nextpoint in zip(a, b):'),
    ('cl-line-init-orig', 'line.py', '        self._orig = None\n', '        self._orig = self\n'),
    ('cl-seg-eq', 'segment.py', '            if self[p] != other[p]:\n                return False', '            if self[p].x != other[p].x:\n                return False'),
    ('cl-fromsegments-open', 'path/__init__.py', '        self.activeRepresentation = None\n        self.closed = True', '        self.activeRepresentation = None\n        self.closed = False'),
    ('fp-segrep-init', 'path/representations/Segment.py', '        if segments:\n            self.segments = segments', '        if segments is not None:\n            self.segments = list(segments)'),
]


# mutants that are the SAME program (the generated text must not change): `not tangent1` for `tangent1 is None` -- a Point defines neither
# __bool__ nor __len__, so it is always truthy (the translator checks this: always_truthy) and both tests tell None from a Point
EQUIVALENT = {'fc-corner-is-none-truthy'}


def gen(srcdir, outdir):
    env = dict(os.environ, BEZIERS_SRC=srcdir, PYTHONHASHSEED='0', PYTHONPATH='/repo/src')
    p = subprocess.run(['/venv/bin/python', PY2V, outdir], env=env, capture_output=True, text=True, timeout=600)
    line = [l for l in p.stdout.split('\n') if l.startswith('{')]
    meta = json.loads(line[-1]) if line else {'errors': [{'function': '?', 'error': p.stdout[-500:] + p.stderr[-1500:]}]}
    texts = {}
    for f in os.listdir(outdir):
        if f.endswith('.v'): texts[f] = open(os.path.join(outdir, f)).read()
    return meta, texts


def main():
    only = sys.argv[1:] 
    base_out = os.path.join(ROOT, 'out_base')
    shutil.rmtree(base_out, ignore_errors=True)
    meta0, texts0 = gen(SRC0, base_out)
    assert not meta0['errors'], meta0['errors']
    rows = []
    for name, file, old, new in MUTANTS:
        if only and not any(o in name for o in only): continue
        src = os.path.join(ROOT, 'src', 'beziers')
        shutil.rmtree(os.path.join(ROOT, 'src'), ignore_errors=True)
        shutil.copytree(SRC0, src, ignore=shutil.ignore_patterns('__pycache__'))
        p = os.path.join(src, file)
        s = open(p).read()
        assert s.count(old) == 1, (name, s.count(old))
        s2 = s.replace(old, new)
        import ast
        ast.parse(s2)
        open(p, 'w').write(s2)
        out = os.path.join(ROOT, 'out_' + name)
        shutil.rmtree(out, ignore_errors=True)
        meta, texts = gen(src, out)
        changed = sorted(f for f in texts0 if texts.get(f) != texts0[f])
        errs = [e['function'] + ': ' + e['error'][:160] for e in meta['errors']]
        verdict = 'REJECTED' if errs else ('TEXT CHANGED ' + ','.join(changed) if changed else ('UNCHANGED (an equivalent program, as expected)' if name in EQUIVALENT else 'SILENT (!!)'))
        rows.append((name, verdict, errs))
        print(f'{name:28s} {verdict}')
        for e in errs: print('      ', e)
        shutil.rmtree(out, ignore_errors=True)
    bad = [r for r in rows if r[1].startswith('SILENT')]
    print('mutants', len(rows), 'silent', len(bad))
    return 1 if bad else 0

if __name__ == '__main__':
    sys.exit(main())
