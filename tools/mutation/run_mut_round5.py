#!/usr/bin/env python3
"""fail-closed check of the round-5 translator: mutate a scratch copy of the Python source a few ways; every mutant must be rejected
(an error for the affected function) or change the generated text of Gen/PathOps.v"""
import os, sys, shutil, subprocess, json, hashlib
ROOT = '/root/pw/tx5/scratch/mut'
SRC0 = '/repo/src/beziers'
PY2V = '/root/pw/tx5/verif/tools/py2v.py'

MUTANTS = [
    # (name, file, old, new)
    ('si-filter-bounds', 'utils/booleanoperationsmixin.py', 'if i.t1 > 1e-2 and i.t1 < 1 - 1e-2:', 'if i.t1 > 2e-2 and i.t1 < 1 - 1e-2:'),
    ('si-filter-t2', 'utils/booleanoperationsmixin.py', 'if i.t1 > 1e-2 and i.t1 < 1 - 1e-2:', 'if i.t2 > 1e-2 and i.t1 < 1 - 1e-2:'),
    ('si-filter-le', 'utils/booleanoperationsmixin.py', 'if i.t1 > 1e-2 and i.t1 < 1 - 1e-2:', 'if i.t1 >= 1e-2 and i.t1 < 1 - 1e-2:'),
    ('si-range-adjacent', 'utils/booleanoperationsmixin.py', 'for i2 in range(i1 + 1, len(segs)):', 'for i2 in range(i1 + 2, len(segs)):'),
    ('si-range-self', 'utils/booleanoperationsmixin.py', 'for i2 in range(i1 + 1, len(segs)):', 'for i2 in range(i1, len(segs)):'),
    ('si-swap-operands', 'utils/booleanoperationsmixin.py', 'for i in segs[i1].intersections(segs[i2]):', 'for i in segs[i2].intersections(segs[i1]):'),
    ('si-unlimited', 'utils/booleanoperationsmixin.py', 'for i in segs[i1].intersections(segs[i2]):', 'for i in segs[i1].intersections(segs[i2], limited=False):'),
    ('si-reorder-loops', 'utils/booleanoperationsmixin.py',
     '        for i1 in range(0, len(segs)):\n            for i2 in range(i1 + 1, len(segs)):',
     '        for i2 in range(0, len(segs)):\n            for i1 in range(0, i2):'),
    ('si-loops-after-pairs', 'utils/booleanoperationsmixin.py', None, 'MOVE_LOOP_BLOCK'),
    ('si-add-statement-sort', 'utils/booleanoperationsmixin.py', '        return intersections\n\n    def removeOverlap', '        intersections.sort(key=lambda i: i.t1)\n        return intersections\n\n    def removeOverlap'),
    ('si-add-statement-reverse', 'utils/booleanoperationsmixin.py', '        segs = self.asSegments()\n        intersections = []\n', '        segs = self.asSegments()\n        segs.reverse()\n        intersections = []\n'),
    ('si-loop-drop-cond', 'utils/booleanoperationsmixin.py', '                and loops[0] < 1\n', ''),
    ('si-loop-swap-ts', 'utils/booleanoperationsmixin.py', 'Intersection(seg, loops[0], seg, loops[1])', 'Intersection(seg, loops[1], seg, loops[0])'),
    ('si-hasloop-true', 'segment.py', '        """Returns True if the segment has a loop. (Only possible for cubics.)"""\n        return False', '        """Returns True if the segment has a loop. (Only possible for cubics.)"""\n        return True'),
    ('fl-closed-negated', 'path/__init__.py', '        flat.closed = self.closed\n        return flat', '        flat.closed = not self.closed\n        return flat'),
    ('fl-closed-dropped', 'path/__init__.py', '        flat.closed = self.closed\n        return flat', '        return flat'),
    ('fl-append', 'path/__init__.py', '            segs.extend(s.flatten(degree))', '            segs.append(s.flatten(degree))'),
    ('fl-degree', 'path/__init__.py', '            segs.extend(s.flatten(degree))', '            segs.extend(s.flatten(degree * 2))'),
    ('fl-reversed', 'path/__init__.py', '        for s in self.asSegments():\n            segs.extend(s.flatten(degree))', '        for s in reversed(self.asSegments()):\n            segs.extend(s.flatten(degree))'),
    ('fl-alias-after', 'path/__init__.py', '        flat.closed = self.closed\n        return flat', '        flat.closed = self.closed\n        segs.append(segs[0])\n        return flat'),
    ('fl-fromsegments-copy', 'path/__init__.py', '        self.activeRepresentation = SegmentRepresentation(self, array)\n        return self\n\n    @classmethod\n    def fromNodelist', '        self.activeRepresentation = SegmentRepresentation(self, list(reversed(array)))\n        return self\n\n    @classmethod\n    def fromNodelist'),
    ('fl-line-flatten-copy', 'line.py', '        return [self]', '        return [Line(self[0], self[1])]'),
    ('dp-le', 'path/__init__.py', 'if not minDistance or d < minDistance:', 'if not minDistance or d <= minDistance:'),
    ('dp-is-none', 'path/__init__.py', 'if not minDistance or d < minDistance:', 'if minDistance is None or d < minDistance:'),
    ('dp-pair-swapped', 'path/__init__.py', 'closestPair = (s1, s2)', 'closestPair = (s2, s1)'),
    ('dp-max', 'path/__init__.py', '                d = min(\n', '                d = max(\n'),
    ('dp-regular', 'path/__init__.py', 'samples2 = s2.sample(samples)', 'samples2 = s2.regularSample(samples)'),
    ('dp-distance', 'path/__init__.py', '[p1.squareDistanceFrom(p2) for p1 in samples1 for p2 in samples2]', '[p1.distanceFrom(p2) for p1 in samples1 for p2 in samples2]'),
    ('dp-comp-order', 'path/__init__.py', '[p1.squareDistanceFrom(p2) for p1 in samples1 for p2 in samples2]', '[p1.squareDistanceFrom(p2) for p2 in samples2 for p1 in samples1]'),
    ('dp-init-pair', 'path/__init__.py', '        minDistance = None\n        # Find closest segment pair.', '        minDistance = None\n        closestPair = None\n        # Find closest segment pair.'),
    ('dp-return-order', 'path/__init__.py', 'return (c[0], c[1], c[2], closestPair[0], closestPair[1])', 'return (c[0], c[2], c[1], closestPair[0], closestPair[1])'),
    ('dp-cd-swapped', 'path/__init__.py', 'c = curveDistance(closestPair[0], closestPair[1])', 'c = curveDistance(closestPair[1], closestPair[0])'),
    ('dp-sample-hoisted', 'path/__init__.py', '            samples1 = s1.sample(samples)\n            for s2 in segs2:\n', '            for s2 in segs2:\n                samples1 = s1.sample(samples)\n'),
    ('ar-half', 'path/__init__.py', '        area = area / 2.0\n', '        area = area / 2\n'),
    ('ar-term', 'path/__init__.py', 'area = area + (s.start.x * s.end.y) - (s.start.y * s.end.x)', 'area = area + (s.start.x * s.end.y) - (s.end.x * s.start.y)'),
    ('ar-degree', 'path/__init__.py', '        flat = self.flatten()\n        area = 0', '        flat = self.flatten(4)\n        area = 0'),
    ('ar-abs', 'path/__init__.py', '        return abs(self.signed_area)', '        return self.signed_area'),
    ('ar-copysign', 'path/__init__.py', 'return math.copysign(1, self.signed_area)', 'return math.copysign(-1, self.signed_area)'),
]


def gen(srcdir, outdir):
    env = dict(os.environ, BEZIERS_SRC=srcdir, PYTHONHASHSEED='0', PYTHONPATH='/repo/src')
    p = subprocess.run(['/venv/bin/python', PY2V, outdir], env=env, capture_output=True, text=True, timeout=600)
    line = [l for l in p.stdout.split('\n') if l.startswith('{')]
    meta = json.loads(line[-1]) if line else {'errors': [{'function': '?', 'error': p.stdout[-500:] + p.stderr[-1500:]}]}
    texts = {}
    for f in os.listdir(outdir):
        if f.endswith('.v'): texts[f] = open(os.path.join(outdir, f)).read()
    return meta, texts


def main():
    only = sys.argv[1:] 
    base_out = os.path.join(ROOT, 'out_base')
    shutil.rmtree(base_out, ignore_errors=True)
    meta0, texts0 = gen(SRC0, base_out)
    assert not meta0['errors'], meta0['errors']
    rows = []
    for name, file, old, new in MUTANTS:
        if only and not any(o in name for o in only): continue
        src = os.path.join(ROOT, 'src', 'beziers')
        shutil.rmtree(os.path.join(ROOT, 'src'), ignore_errors=True)
        shutil.copytree(SRC0, src, ignore=shutil.ignore_patterns('__pycache__'))
        p = os.path.join(src, file)
        s = open(p).read()
        if new == 'MOVE_LOOP_BLOCK':
            a = s.index('        for seg in segs:\n            loops = seg.hasLoop')
            b = s.index('        for i1 in range(0, len(segs)):')
            c = s.index('        return intersections\n')
            s2 = s[:a] + s[b:c] + s[a:b] + s[c:]
        else:
            assert s.count(old) == 1, (name, s.count(old))
            s2 = s.replace(old, new)
        import ast
        ast.parse(s2)
        open(p, 'w').write(s2)
        out = os.path.join(ROOT, 'out_' + name)
        shutil.rmtree(out, ignore_errors=True)
        meta, texts = gen(src, out)
        changed = sorted(f for f in texts0 if texts.get(f) != texts0[f])
        errs = [e['function'] + ': ' + e['error'][:160] for e in meta['errors']]
        verdict = 'REJECTED' if errs else ('TEXT CHANGED ' + ','.join(changed) if changed else 'SILENT (!!)')
        rows.append((name, verdict, errs))
        print(f'{name:28s} {verdict}')
        for e in errs: print('      ', e)
        shutil.rmtree(out, ignore_errors=True)
    bad = [r for r in rows if r[1].startswith('SILENT')]
    print('mutants', len(rows), 'silent', len(bad))
    return 1 if bad else 0

if __name__ == '__main__':
    sys.exit(main())
