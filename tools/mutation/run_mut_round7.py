import os, sys, shutil, subprocess, json, filecmp
BASE='/root/pw/tx7/scratch/mut'
REF='/root/pw/tx7/verif/coq/Gen'
muts = [
 ('swap lower/upper', 'lower = bestT - precision', 'lower = bestT + precision'),
 ('swap lower/upper 2', 'upper = bestT + precision', 'upper = bestT - precision'),
 ('dist <= bestDist', 'if dist < bestDist:', 'if dist <= bestDist:'),
 ('ldist > bestDist flipped', 'if ldist < bestDist:', 'if bestDist < ldist:'),
 ('lower <= 0', 'if lower < 0:', 'if lower <= 0:'),
 ('upper >= 1', 'if upper > 1:', 'if upper >= 1:'),
 ('precision >= 1e-5', 'while precision > 1e-5:', 'while precision >= 1e-5:'),
 ('1e-5 -> 1e-6', 'while precision > 1e-5:', 'while precision > 1e-6:'),
 ('samples 50 -> 40', 'self.regularSampleTValue(50)', 'self.regularSampleTValue(40)'),
 ('precision 1/50 -> 1/40', 'precision = 1.0 / 50.0', 'precision = 1.0 / 40.0'),
 ('inf -> -inf', 'float("inf")', 'float("-inf")'),
 ('inf -> nan', 'float("inf")', 'float("nan")'),
 ('inf -> Infinity', 'float("inf")', 'float("Infinity")'),
 ('bestT = -1 -> 0', 'bestT = -1', 'bestT = 0'),
 ('arithmetic on bestDist', '            if dist < bestDist:', '            bestDist = bestDist + 0\n            if dist < bestDist:'),
 ('return bestDist', '        return bestT\n\n    def splitAtTime', '        return bestDist\n\n    def splitAtTime'),
 ('rdist updates bestT = lower', '                bestT = upper', '                bestT = lower'),
 ('drop rdist update', '                bestDist = rdist', '                pass'),
 ('halving -> /3', 'precision = precision / 2', 'precision = precision / 3'),
 ('clamp lower to 1', '                lower = 0', '                lower = 1'),
 ('bestDist > dist (same meaning)', 'if dist < bestDist:', 'if bestDist > dist:'),
 ('bestDist == dist', 'if dist < bestDist:', 'if dist == bestDist:'),
]
out=[]
for i,(name,a,b) in enumerate(muts):
    d=f'{BASE}/src{i}'
    if os.path.exists(d): shutil.rmtree(d)
    shutil.copytree('/repo/src/beziers', d)
    p=d+'/cubicbezier.py'; s=open(p).read()
    assert s.count(a)==1, (name, s.count(a))
    open(p,'w').write(s.replace(a,b))
    g=f'{BASE}/gen{i}'
    if os.path.exists(g): shutil.rmtree(g)
    r=subprocess.run(['/venv/bin/python','/root/pw/tx7/verif/tools/py2v.py',g],env=dict(os.environ,BEZIERS_SRC=d,PYTHONPATH='/repo/src',PYTHONHASHSEED='0'),capture_output=True,text=True)
    js=json.loads(r.stdout.strip().splitlines()[-1])
    diff=[f for f in sorted(os.listdir(REF)) if f.endswith('.v') and (not os.path.exists(f'{g}/{f}') or open(f'{g}/{f}').read()!=open(f'{REF}/{f}').read())]
    verdict = 'REJECTED: '+js['errors'][0]['error'][:150] if js['errors'] else ('TEXT CHANGED in '+','.join(diff) if diff else 'UNDETECTED')
    out.append((name,verdict)); print(f'{name:34s} {verdict}')
    shutil.rmtree(d)
