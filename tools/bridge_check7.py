#!/usr/bin/env python3
"""Kernel cross-check of the definition added to the translator in the seventh round:

  Gen/Lookup.v (cubicbezier.py): Cubic_tOfPoint -- CubicBezier.tOfPoint, the sampled lookup of the parameter of a point: the `for` over the outcome
    of Cubic_regularSampleTValue (exceptions and out-of-fuel propagate), the running minimum that starts as float("inf") (an option: None = +infinity,
    compared by ltb_xinf) and the `while precision > 1e-5` refinement loop as a fuelled Fixpoint (FUEL iterations per loop invocation; it runs 11
    times).  IndexError of regularSampleTValue's rSamples[-1] (a NaN length) is `Raises PyIndexError`.

The definition is executed on floats inside Coq (vm_compute) and compared bit for bit with the Python method it was generated from on N random
inputs (default 200): cubics of length 5 .. 600 (short, straight, gently curved, arbitrary; rarely of length 0 or with a NaN coordinate), query points
on the curve at a random parameter, near the curve, and anywhere.

    cd <verif> && PYTHONPATH=/repo/src PYTHONHASHSEED=0 /venv/bin/python tools/bridge_check7.py [N] [seed] [name-substring]

Exit status 0 iff every case agrees (and the kernel produced at least N cases)."""
import sys, os, json, random
sys.path.insert(0, os.path.dirname(os.path.abspath(__file__)))
import vlib, kernels


def main():
    n = int(sys.argv[1]) if len(sys.argv) > 1 else 200
    seed = int(sys.argv[2]) if len(sys.argv) > 2 else 20261007
    sub = sys.argv[3] if len(sys.argv) > 3 else ''
    rng = random.Random(seed)
    names = [k.name for k in kernels.NEW_KERNELS7 if sub in k.name]
    res = kernels.cross_check('BRIDGE7', names, n, rng, tag='bridge7', per_file=50, timeout=1500)
    short = {d: v['cases'] for d, v in res['distribution'].items() if v['cases'] < n}
    ok = res['n'] == res['agree'] and not res['failing'] and not res['errors'] and not short and res['n'] > 0
    print(json.dumps({'kernels': len(names), 'cases': res['n'], 'agree': res['agree'], 'failing': res['failing'][:10],
                      'failing_kernels': res.get('failing_kernels'), 'first_disagreement': res.get('first_disagreement'),
                      'errors': [e[-800:] for e in res['errors']], 'short_of_cases': short, 'python_outcomes': res.get('python_outcomes')}))
    print('BRIDGE7 CROSS-CHECK', 'PASS' if ok else 'FAIL')
    return 0 if ok else 1


if __name__ == '__main__':
    sys.exit(main())
