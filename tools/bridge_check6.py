#!/usr/bin/env python3
"""Kernel cross-check of the definitions added to the translator in the sixth round:

  Gen/Fit.v (the whole curve fitter, utils/curvefitter.py, written with checked arithmetic):
    CurveFit_fitLine, CurveFit__leftTangent / __rightTangent, CurveFit_centerTangent, CurveFit_leftTangent / rightTangent (the `while True`
    loops left by return, on FUEL6 iterations), CurveFit_estimateLengths (the 2x2 list literals carried as tuples), CurveFit_generateBezier,
    CurveFit_newtonRaphsonFind, CurveFit_reparameterize (zip_update), CurveFit_computeMaxError, the checked variants CurveFit_computeHook_zd /
    CurveFit_chordLengthParameterize_zd, CurveFit__fitCurve (a Fixpoint on `depth`, DEPTH6 nested calls) and CurveFit_fitCurve;
    IndexError / ZeroDivisionError / ValueError / TypeError are `Raises Py..`, Python's RecursionError is None (out of depth);
  Gen/Line.v, Gen/Quad.v, Gen/Cubic.v: X___eq___Y (Segment.__eq__ for the nine pairs of classes);
  Gen/Clip.v (utils/booleanoperationsmixin.py): Path_clip / Path_union / Path_intersection / Path_difference, the whole of clip (intersection loops,
    clone, splitAtPoints, flatten(2), the reconstruction LUT, the conversion, the Clipper call, the reconstruction loop, fromSegments) with
    pyclipper as abstract parameters: toZ := int() of a binary64, clipper := the table of the Execute call recorded on the real run
    (tools/props/clipglue.py), the constant None when Python raised ClipperException; ClipperException / a failing conversion / IndexError of p[0]
    are `Raises PyClipperError / PyConvertError / PyIndexError`.  These four kernels are heavy and run in small case files (per_file=6).

Every definition is executed on floats inside Coq (vm_compute) and compared with the Python function it was generated from,
structure for structure and bit for bit, on N random inputs each (default 120), including inputs on which Python raises.

    cd <verif> && PYTHONPATH=/repo/src PYTHONHASHSEED=0 /venv/bin/python tools/bridge_check6.py [N] [seed] [name-substring]

Exit status 0 iff every case of every kernel agrees (and every kernel produced at least N cases)."""
import sys, os, json, random
sys.path.insert(0, os.path.dirname(os.path.abspath(__file__)))
import vlib, kernels


def main():
    n = int(sys.argv[1]) if len(sys.argv) > 1 else 120
    seed = int(sys.argv[2]) if len(sys.argv) > 2 else 20261006
    sub = sys.argv[3] if len(sys.argv) > 3 else ''
    rng = random.Random(seed)
    # the clip kernels are heavy (hundreds of flattened edges per case): small case files, run in parallel
    heavy = [k.name for k in kernels.CLIP6_KERNELS if sub in k.name]
    light = [k.name for k in kernels.NEW_KERNELS6 if sub in k.name and k.name not in heavy]
    ok, out = True, []
    for names, per_file, tag in ((light, 400, 'bridge6'), (heavy, 6, 'bridge6clip')):
        if not names: continue
        res = kernels.cross_check('BRIDGE6', names, n, rng, tag=tag, per_file=per_file, timeout=1500)
        short = {d: v['cases'] for d, v in res['distribution'].items() if v['cases'] < n}
        ok = ok and res['n'] == res['agree'] and not res['failing'] and not res['errors'] and not short
        out.append({'kernels': len(names), 'cases': res['n'], 'agree': res['agree'], 'failing': res['failing'][:10],
                    'failing_kernels': res.get('failing_kernels'), 'first_disagreement': res.get('first_disagreement'),
                    'errors': [e[-800:] for e in res['errors']], 'short_of_cases': short,
                    'python_outcomes': res.get('python_outcomes')})
    for o in out: print(json.dumps(o))
    print('BRIDGE6 CROSS-CHECK', 'PASS' if ok else 'FAIL')
    return 0 if ok else 1


if __name__ == '__main__':
    sys.exit(main())
