"""Independent reference computations used by the search oracles (never by the model): exact/robust root finding,
arc length by adaptive quadrature, brute-force crossings, even-odd containment.  Pure Python, no beziers imports."""
import math
from fractions import Fraction as Fr


def bern(pts, t):
    """de Casteljau evaluation of a control polygon given as [(x,y),...]"""
    p = [(float(x), float(y)) for x, y in pts]
    while len(p) > 1:
        p = [((1 - t) * a[0] + t * b[0], (1 - t) * a[1] + t * b[1]) for a, b in zip(p, p[1:])]
    return p[0]


def dbern(pts, t):
    n = len(pts) - 1
    d = [(n * (b[0] - a[0]), n * (b[1] - a[1])) for a, b in zip(pts, pts[1:])]
    return bern(d, t) if d else (0.0, 0.0)


def power_coeffs(ws):
    """Bernstein weights (scalars) of degree n -> power basis coefficients c0..cn (exact Fractions)"""
    n = len(ws) - 1
    ws = [Fr(w) for w in ws]
    out = []
    for k in range(n + 1):
        c = sum(Fr((-1) ** (k - i) * math.comb(n, k) * math.comb(k, i)) * ws[i] for i in range(k + 1))
        out.append(c)
    return out


def polyval(cs, t):
    r = 0
    for c in reversed(cs): r = r * t + c
    return r


def poly_roots_01(cs, lo=0.0, hi=1.0):
    """real roots of a polynomial (degree <= 3, Fraction coeffs) in [lo,hi] with sign change, by isolating through
    the derivative's roots and bisecting with exact sign evaluation; returns list of (root, is_simple_crossing)"""
    cs = list(cs)
    while cs and cs[-1] == 0: cs.pop()
    if len(cs) <= 1: return []
    d = [k * c for k, c in enumerate(cs)][1:]
    crit = sorted(r for r, _ in poly_roots_01(d, lo, hi)) if len(d) > 1 else []
    if len(d) == 3:   # derivative quadratic: also its double root matters little; crit from sign changes only is fine
        pass
    pts = [lo] + [c for c in crit if lo < c < hi] + [hi]
    out = []
    def sgn(t):
        v = polyval(cs, Fr(t))
        return (v > 0) - (v < 0)
    for a, b in zip(pts, pts[1:]):
        sa, sb = sgn(a), sgn(b)
        if sa == 0:
            if not out or abs(out[-1][0] - a) > 1e-15: out.append((a, True))
            continue
        if sb == 0 or sa == sb: continue
        x, y = a, b
        for _ in range(70):
            m = (x + y) / 2
            sm = sgn(m)
            if sm == 0: x = y = m; break
            if sm == sa: x = m
            else: y = m
        out.append(((x + y) / 2, True))
    if sgn(hi) == 0 and (not out or abs(out[-1][0] - hi) > 1e-15): out.append((hi, True))
    return out


def line_param(a, b, p):
    dx, dy = b[0] - a[0], b[1] - a[1]
    return ((p[0] - a[0]) * dx + (p[1] - a[1]) * dy) / (dx * dx + dy * dy)


def curve_carrier_crossings(pts, a, b):
    """all parameters t in [0,1] where the curve with control polygon pts crosses the infinite line through a,b;
    returns list of dicts {t, u, slope} (u = line parameter of the point; slope = d(signed distance)/dt / scale)"""
    dx, dy = Fr(b[0]) - Fr(a[0]), Fr(b[1]) - Fr(a[1])
    ws = [(Fr(p[0]) - Fr(a[0])) * dy - (Fr(p[1]) - Fr(a[1])) * dx for p in pts]
    cs = power_coeffs(ws)
    roots = poly_roots_01(cs)
    out = []
    L = math.hypot(float(dx), float(dy))
    ext = max(1e-300, max(abs(float(w)) for w in ws))
    dcs = [k * c for k, c in enumerate(cs)][1:]
    for t, _ in roots:
        p = bern(pts, t)
        out.append({'t': t, 'u': line_param(a, b, p), 'point': p, 'slope': abs(float(polyval(dcs, Fr(t)))) / ext if dcs else 0.0})
    return out


def near_tangent(pts, a, b, eps=1e-3):
    """True when the signed-distance polynomial has a critical point in [0,1] with |value| small: tangential contact"""
    dx, dy = Fr(b[0]) - Fr(a[0]), Fr(b[1]) - Fr(a[1])
    ws = [(Fr(p[0]) - Fr(a[0])) * dy - (Fr(p[1]) - Fr(a[1])) * dx for p in pts]
    cs = power_coeffs(ws)
    ext = max(1e-300, max(abs(float(w)) for w in ws))
    dcs = [k * c for k, c in enumerate(cs)][1:]
    for t, _ in poly_roots_01(dcs) if len(dcs) > 1 else []:
        if abs(float(polyval(cs, Fr(t)))) < eps * ext: return True
    return False


# ---------------------------------------------------------------- arc length
def speed(pts, t):
    d = dbern(pts, t)
    return math.hypot(d[0], d[1])


_GK_X = [0.991455371120812639206854697526329, 0.949107912342758524526189684047851, 0.864864423359769072789712788640926,
         0.741531185599394439863864773280788, 0.586087235467691130294144838258730, 0.405845151377397166906606412076961,
         0.207784955007898467600689403773245, 0.0]
_GK_WK = [0.022935322010529224963732008058970, 0.063092092629978553290700663189204, 0.104790010322250183839876322541518,
          0.140653259715525918745189590510238, 0.169004726639267902826583426598550, 0.190350578064785409913256402421014,
          0.204432940075298892414161999234649, 0.209482141084727828012999174891714]
_GK_WG = [0.129484966168869693270611432679082, 0.279705391489276667901467771423780, 0.381830050505118944950369775488975,
          0.417959183673469387755102040816327]


def _gk15(f, a, b):
    c, h = (a + b) / 2, (b - a) / 2
    k = g = 0.0
    for i, x in enumerate(_GK_X):
        if x == 0.0:
            fx = f(c); k += _GK_WK[i] * fx; g += _GK_WG[3] * fx
        else:
            f1, f2 = f(c - h * x), f(c + h * x)
            k += _GK_WK[i] * (f1 + f2)
            if i % 2 == 1: g += _GK_WG[i // 2] * (f1 + f2)
    return k * h, abs(k - g) * h


def integrate(f, a, b, tol=1e-11, depth=40):
    v, e = _gk15(f, a, b)
    if e <= tol * max(1.0, abs(v)) or depth == 0: return v
    m = (a + b) / 2
    return integrate(f, a, m, tol, depth - 1) + integrate(f, m, b, tol, depth - 1)


def arc_length(pts, t0=0.0, t1=1.0):
    """true arc length of the Bezier with control polygon pts on [t0,t1], split at the zeros of the hodograph components"""
    if len(pts) == 2:
        return math.hypot(pts[1][0] - pts[0][0], pts[1][1] - pts[0][1]) * (t1 - t0)
    n = len(pts) - 1
    cuts = {t0, t1}
    for k in (0, 1):
        ws = [n * (b[k] - a[k]) for a, b in zip(pts, pts[1:])]
        for r, _ in poly_roots_01(power_coeffs(ws)):
            if t0 < r < t1: cuts.add(r)
    cuts = sorted(cuts)
    return sum(integrate(lambda t: speed(pts, t), a, b) for a, b in zip(cuts, cuts[1:]))


# ---------------------------------------------------------------- polygons
def flatten_poly(segs, n=64):
    """dense polyline of a path given as list of control polygons"""
    out = []
    for pts in segs:
        k = 1 if len(pts) == 2 else n
        for i in range(k): out.append(bern(pts, i / k))
    return out


def even_odd(poly, p):
    """even-odd containment of p in the closed polygon (list of points); robust half-open rule"""
    x, y = p
    inside = False
    n = len(poly)
    for i in range(n):
        x0, y0 = poly[i]; x1, y1 = poly[(i + 1) % n]
        if (y0 > y) != (y1 > y):
            xi = x0 + (y - y0) * (x1 - x0) / (y1 - y0)
            if xi > x: inside = not inside
    return inside


def dist_point_polyline(p, poly, closed=True):
    best = float('inf')
    n = len(poly)
    for i in range(n if closed else n - 1):
        a, b = poly[i], poly[(i + 1) % n]
        dx, dy = b[0] - a[0], b[1] - a[1]
        L2 = dx * dx + dy * dy
        u = 0.0 if L2 == 0 else max(0.0, min(1.0, ((p[0] - a[0]) * dx + (p[1] - a[1]) * dy) / L2))
        q = (a[0] + u * dx, a[1] + u * dy)
        best = min(best, math.hypot(p[0] - q[0], p[1] - q[1]))
    return best


def polygon_area(poly):
    s = 0.0
    n = len(poly)
    for i in range(n):
        x0, y0 = poly[i]; x1, y1 = poly[(i + 1) % n]
        s += x0 * y1 - x1 * y0
    return s / 2


def green_area(segs):
    """exact enclosed signed area (x dy - y dx)/2 of a closed chain of control polygons, by exact per-segment integrals"""
    tot = Fr(0)
    for pts in segs:
        n = len(pts) - 1
        xs = power_coeffs([p[0] for p in pts]); ys = power_coeffs([p[1] for p in pts])
        dxs = [k * c for k, c in enumerate(xs)][1:]; dys = [k * c for k, c in enumerate(ys)][1:]
        # integral over [0,1] of x*y' - y*x'
        def mul(a, b):
            r = [Fr(0)] * (len(a) + len(b) - 1) if a and b else []
            for i, u in enumerate(a):
                for j, v in enumerate(b): r[i + j] += u * v
            return r
        p1, p2 = mul(xs, dys), mul(ys, dxs)
        L = max(len(p1), len(p2))
        for k in range(L):
            c = (p1[k] if k < len(p1) else 0) - (p2[k] if k < len(p2) else 0)
            tot += c / (k + 1)
    return float(tot / 2)


# ---------------------------------------------------------------- sign changes of a derivative coordinate (C03)
def frac_sqrt(x, digits=40):
    """square root of a non-negative Fraction, as a Fraction, absolute-relative error below 10**-digits"""
    x = Fr(x)
    if x < 0: raise ValueError('negative')
    if x == 0: return Fr(0)
    s = 10 ** (2 * digits)
    # sqrt(n/d) = sqrt(n*d)/d ; scale so that the integer square root carries `digits` extra decimal digits
    n, d = x.numerator, x.denominator
    return Fr(math.isqrt(n * d * s), d * 10 ** digits)


def sign_change_roots(cs):
    """cs: exact power-basis coefficients [c0, c1, c2] (Fractions, degree <= 2) of a polynomial q.
    Returns (roots, reldisc): the real parameters (Fractions, exact for degree 1, to ~1e-40 for degree 2) at which q
    CHANGES SIGN -- simple zeros only: a double zero is not a sign change, a constant polynomial has none -- in
    increasing order, anywhere on the real line; reldisc = disc / max(c1^2, |4 c0 c2|) for a genuine quadratic (None
    otherwise), a measure of how close the two zeros are to merging."""
    cs = [Fr(c) for c in cs] + [Fr(0)] * (3 - len(cs))
    c, b, a = cs[0], cs[1], cs[2]
    if a == 0:
        if b == 0: return [], None
        return [-c / b], None
    disc = b * b - 4 * a * c
    scale = max(b * b, abs(4 * a * c))
    rel = disc / scale if scale else Fr(0)
    if disc <= 0: return [], rel
    s = frac_sqrt(disc)
    r1, r2 = (-b - s) / (2 * a), (-b + s) / (2 * a)
    return sorted([r1, r2]), rel


def subdivide(pts, a, b):
    """control polygon (exact Fractions) of the Bezier with control polygon pts restricted to [a,b], by blossoming:
    the k-th control point is the blossom with k arguments b and n-k arguments a"""
    n = len(pts) - 1
    a, b = Fr(a), Fr(b)
    P0 = [(Fr(x), Fr(y)) for x, y in pts]
    out = []
    for k in range(n + 1):
        args = [b] * k + [a] * (n - k)
        p = P0
        for t in args:
            p = [((1 - t) * u[0] + t * v[0], (1 - t) * u[1] + t * v[1]) for u, v in zip(p, p[1:])]
        out.append(p[0])
    return out
