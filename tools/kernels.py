"""Kernel cross-check (DESIGN 2.2/2.5): the float instance of every generated definition is executed by vm_compute
on generated inputs and compared with the Python function it was generated from -- bit for bit where only
+ - * / sqrt are involved, through the recorded libm table for cos/sin/acos/atan2/pow, and with a relative
tolerance where CPython's `**` (libm pow, not correctly rounded) is involved."""
import math
import vlib, gen
from beziers.point import Point
from beziers.line import Line
from beziers.quadraticbezier import QuadraticBezier
from beziers.cubicbezier import CubicBezier
from beziers.affinetransformation import AffineTransformation
from beziers.boundingbox import BoundingBox
from beziers.utils import quadraticRoots

PROXY = None


def proxy():
    global PROXY
    if PROXY is None: PROXY = vlib.install_math_proxy()
    return PROXY


CLS = {'seg2': 'Line', 'seg3': 'Quad', 'seg4': 'Cubic'}
ORDER = {'seg2': 2, 'seg3': 3, 'seg4': 4}


# ---- result formatting: (python value, kind) -> coq comparison of `got` against it
def cmp_expr(kind, got, val, tol=None):
    if isinstance(kind, tuple) and kind[0] == 'T':
        parts = [cmp_expr(k, f'x{i}_', v, tol) for i, (k, v) in enumerate(zip(kind[1], val))]
        pat = 'x0_'
        for i in range(1, len(kind[1])): pat = f'({pat}, x{i}_)'
        return f"(let '{pat} := {got} in " + ' && '.join(parts) + ')'
    if kind == 'S':
        if val is True or val is False: raise TypeError('bool where scalar expected')
        return f'feq ({got}) {vlib.fhex(val)}' if tol is None else f'fclose {vlib.fhex(tol)} ({got}) {vlib.fhex(val)}'
    if kind == 'B': return f'Bool.eqb ({got}) {vlib.cbool(bool(val))}'
    if kind == 'P':
        return f'pt_feq ({got}) {vlib.cpt(val)}' if tol is None else f'pt_fclose {vlib.fhex(tol)} ({got}) {vlib.cpt(val)}'
    if kind in ORDER:
        if len(val.points) != ORDER[kind]: return 'false'
        return f'{kind}_feq ({got}) {vlib.cseg(val)}' if tol is None else f'{kind}_fclose {vlib.fhex(tol)} ({got}) {vlib.cseg(val)}'
    if kind == 'M':
        m = val.matrix
        return f'mat_feq ({got}) {vlib.cmat(m)}' if tol is None else f'mat_fclose {vlib.fhex(tol)} ({got}) {vlib.cmat(m)}'
    if kind == 'LS':
        f = 'feq' if tol is None else f'(fclose {vlib.fhex(tol)})'
        return f'list_eqb {f} ({got}) {vlib.clist([vlib.fhex(x) for x in val])}'
    if kind == 'OSS':   # hasLoop: False or (t1, t2)
        if val is False: return f'match {got} with None => true | Some _ => false end'
        return f'match {got} with Some (a, b) => feq a {vlib.fhex(val[0])} && feq b {vlib.fhex(val[1])} | None => false end'
    if isinstance(kind, tuple) and kind[0] == 'T':
        parts = [cmp_expr(k, f'x{i}_', v, tol) for i, (k, v) in enumerate(zip(kind[1], val))]
        pat = 'x0_'
        for i in range(1, len(kind[1])): pat = f'({pat}, x{i}_)'
        return f"(let '{pat} := {got} in " + ' && '.join(parts) + ')'
    if kind == 'LIX':
        items = [f'({vlib.fhex(i.t1)}, {vlib.cpt(i.point)}, {vlib.fhex(i.t2)})' for i in val]
        f = 'ix_feq' if tol is None else f'(ix_fclose {vlib.fhex(tol)})'
        return f'list_eqb {f} ({got}) {vlib.clist(items)}'
    raise ValueError(kind)


def carg(kind, v):
    if kind == 'S': return vlib.fhex(v)
    if kind == 'P': return vlib.cpt(v)
    if kind in ORDER: return vlib.cseg(v)
    if kind == 'M': return vlib.cmat(v.matrix)
    if kind == 'B': return vlib.cbool(v)
    if kind == 'OS': return 'None' if v is None else f'(Some {vlib.fhex(v)})'
    if kind == 'BB': return f'(BB {vlib.cpt(v.bl)} {vlib.cpt(v.tr)})'
    raise ValueError(kind)


# ---- argument generators
def g_S(rng): return rng.choice([rng.uniform(-3, 3), rng.uniform(-500, 500), float(rng.randint(-5, 5)), 0.0, 1.0, -1.0, rng.random()])
def g_t(rng): return gen.tvalue(rng)
def g_angle(rng): return rng.choice([rng.uniform(-7, 7), math.pi / 2, -math.pi / 2, math.pi, 0.0, math.pi / 4, 1e-9])
def g_P(rng):
    fam = rng.choice(['int', 'float', 'grid', 'big'])
    x, y = gen.coords(rng, fam, 1)[0]
    return Point(x, y)
def g_M(rng):
    m = AffineTransformation()
    for _ in range(rng.randint(0, 4)):
        k = rng.randrange(4)
        if k == 0: m.translate(Point(rng.uniform(-100, 100), rng.uniform(-100, 100)))
        elif k == 1: m.rotate(g_angle(rng))
        elif k == 2: m.scale(rng.choice([2.0, 0.5, -1.0, rng.uniform(-3, 3)]), rng.choice([None, 3.0, rng.uniform(-3, 3)]))
        else: m.reflect()
    if rng.random() < 0.2:
        m = AffineTransformation([[rng.uniform(-2, 2) for _ in range(3)] for _ in range(2)] + [[0.0, 0.0, 1.0]])
    m.matrix = [[float(x) for x in r] for r in m.matrix]
    return m
def g_seg(order):
    def g(rng):
        return gen.segment(rng, order=order)[0]
    return g
def g_BB(rng):
    b = BoundingBox()
    x0, x1 = sorted([float(rng.randint(-6, 6)), float(rng.randint(-6, 6))]) if rng.random() < 0.6 else sorted([rng.uniform(-50, 50), rng.uniform(-50, 50)])
    y0, y1 = sorted([float(rng.randint(-6, 6)), float(rng.randint(-6, 6))]) if rng.random() < 0.6 else sorted([rng.uniform(-50, 50), rng.uniform(-50, 50)])
    b.bl, b.tr = Point(x0, y0), Point(x1, y1)
    return b
def g_OS(rng): return rng.choice([None, 0.0, 2.0, -1.0, rng.uniform(-3, 3)])
def g_B(rng): return rng.random() < 0.5
GEN = {'S': g_S, 't': g_t, 'angle': g_angle, 'P': g_P, 'M': g_M, 'seg2': g_seg(2), 'seg3': g_seg(3), 'seg4': g_seg(4), 'BB': g_BB, 'OS': g_OS, 'B': g_B}
KIND = {'t': 'S', 'angle': 'S'}


class K:
    """one kernel: coq name, argument generator kinds (receiver first), python callable, return kind, tolerance"""
    def __init__(self, coq, args, py, ret, tol=None, libm=False, clone=True):
        self.coq, self.args, self.py, self.ret, self.tol, self.libm, self.clone = coq, args, py, ret, tol, libm, clone


def seg_kernels(kind):
    c = CLS[kind]
    ks = [
        K(f'{c}_pointAtTime', [kind, 't'], lambda s, t: s.pointAtTime(t), 'P'),
        K(f'{c}_splitAtTime', [kind, 't'], lambda s, t: s.splitAtTime(t), ('T', [kind, kind])),
        K(f'{c}_translated', [kind, 'P'], lambda s, v: s.translated(v), kind),
        K(f'{c}_scaled', [kind, 'S'], lambda s, k: s.scaled(k), kind),
        K(f'{c}_reversed', [kind], lambda s: s.reversed(), kind),
        K(f'{c}_transformed', [kind, 'M'], lambda s, m: s.transformed(m), kind),
        K(f'{c}_rotated', [kind, 'P', 'angle'], lambda s, p, a: s.rotated(p, a), kind, libm=True),
        K(f'{c}_alignmentTransformation', [kind], lambda s: s.alignmentTransformation(), 'M', libm=True),
        K(f'{c}_aligned', [kind], lambda s: s.aligned(), kind, libm=True),
        K(f'{c}_tangentAtTime', [kind, 't'], lambda s, t: s.tangentAtTime(t), 'P', libm=True),
        K(f'{c}_normalAtTime', [kind, 't'], lambda s, t: s.normalAtTime(t), 'P', libm=True),
        K(f'{c}_startAngle', [kind], lambda s: s.startAngle, 'S', libm=True),
        K(f'{c}_endAngle', [kind], lambda s: s.endAngle, 'S', libm=True),
        K(f'{c}_area', [kind], lambda s: s.area, 'S'),
        K(f'{c}_length', [kind], lambda s: s.length, 'S'),
        K(f'{c}_lengthAtTime', [kind, 't'], lambda s, t: s.lengthAtTime(t), 'S'),
        K(f'{c}__findRoots_x', [kind], lambda s: s._findRoots('x'), 'LS', libm=True),
        K(f'{c}__findRoots_y', [kind], lambda s: s._findRoots('y'), 'LS', libm=True),
    ]
    if kind == 'seg2':
        ks += [K(f'{c}_curvatureAtTime', [kind, 't'], lambda s, t: s.curvatureAtTime(t), 'S')]
    if kind != 'seg2':
        ks += [K(f'{c}_derivative', [kind], lambda s: s.derivative(), {'seg3': 'seg2', 'seg4': 'seg3'}[kind]),
               K(f'{c}_curvatureAtTime', [kind, 't'], lambda s, t: s.curvatureAtTime(t), 'S', tol=1e-12, libm=True),
               K(f'{c}__findDRoots', [kind], lambda s: s._findDRoots(), 'LS'),
               K(f'{c}__curve_line_intersections_t', [kind, 'seg2'], lambda s, l: list(s._curve_line_intersections_t(l)), 'LS', libm=True),
               K(f'{c}__curve_line_intersections', [kind, 'seg2'], lambda s, l: s._curve_line_intersections(l), 'LIX', libm=True)]
    return ks


KERNELS = {k.coq: k for k in (
    [K('Point___add__', ['P', 'P'], lambda a, b: a + b, 'P'), K('Point___sub__', ['P', 'P'], lambda a, b: a - b, 'P'),
     K('Point___mul__', ['P', 'S'], lambda a, k: a * k, 'P'), K('Point_dot', ['P', 'P'], lambda a, b: a.dot(b), 'S'),
     K('Point_lerp', ['P', 'P', 't'], lambda a, b, t: a.lerp(b, t), 'P'),
     K('Point___eq__', ['P', 'P'], lambda a, b: a == b, 'B'),
     K('Point_squareMagnitude', ['P'], lambda a: a.squareMagnitude, 'S'), K('Point_magnitude', ['P'], lambda a: a.magnitude, 'S'),
     K('Point_toUnitVector', ['P'], lambda a: a.toUnitVector(), 'P'),
     K('Point_angle', ['P'], lambda a: a.angle, 'S', libm=True),
     K('Point_fromAngle', ['angle'], lambda a: Point.fromAngle(a), 'P', libm=True),
     K('Point_rotated', ['P', 'P', 'angle'], lambda p, c, a: p.rotated(c, a), 'P', libm=True),
     K('Point_squareDistanceFrom', ['P', 'P'], lambda a, b: a.squareDistanceFrom(b), 'S'),
     K('Point_distanceFrom', ['P', 'P'], lambda a, b: a.distanceFrom(b), 'S'),
     K('Point_transformed', ['P', 'M'], lambda p, m: p.transformed(m), 'P'),
     K('Point_rounded', ['P'], lambda p: p.rounded(), 'P'),
     K('utils_quadraticRoots', ['S', 'S', 'S'], lambda a, b, c: quadraticRoots(a, b, c), 'LS'),
     K('Affine_apply', ['M', 'M'], lambda a, b: (a.apply(b), a)[1], 'M'),
     K('Affine_apply_backwards', ['M', 'M'], lambda a, b: (a.apply_backwards(b), a)[1], 'M'),
     K('Affine_translation', ['P'], lambda v: AffineTransformation.translation(v), 'M'),
     K('Affine_translate', ['M', 'P'], lambda m, v: (m.translate(v), m)[1], 'M'),
     K('Affine_scaling', ['S', 'OS'], lambda a, b: AffineTransformation.scaling(a, b), 'M'),
     K('Affine_scale', ['M', 'S', 'OS'], lambda m, a, b: (m.scale(a, b), m)[1], 'M'),
     K('Affine_reflect', ['M'], lambda m: (m.reflect(), m)[1], 'M'),
     K('Affine_rotation', ['angle'], lambda a: AffineTransformation.rotation(a), 'M', libm=True),
     K('Affine_rotate', ['M', 'angle'], lambda m, a: (m.rotate(a), m)[1], 'M', libm=True),
     K('Affine_invert', ['M'], lambda m: (m.invert(), m)[1], 'M'),
     K('BBox_includes', ['BB', 'P'], lambda b, p: b.includes(p), 'B'),
     K('BBox_overlaps', ['BB', 'BB'], lambda a, b: a.overlaps(b), 'B'),
     K('BBox_area', ['BB'], lambda b: b.area, 'S'),
     K('Line_tOfPoint', ['seg2', 'P', 'B'], lambda s, p, b: s.tOfPoint(p, b), 'S'),
     K('Line_slope', ['seg2'], lambda s: s.slope, 'S'), K('Line_intercept', ['seg2'], lambda s: s.intercept, 'S'),
     K('Line__line_line_intersections', ['seg2', 'seg2'], lambda a, b: a._line_line_intersections(b), 'LIX'),
     K('Quad_tOfPoint', ['seg3', 'P'], lambda s, p: s.tOfPoint(p), 'S'),
     K('Quad_findExtremes', ['seg3'], lambda s: s.findExtremes(), 'LS'),
     K('Quad_toCubicBezier', ['seg3'], lambda s: s.toCubicBezier(), 'seg4'),
     K('Cubic_findExtremes_False', ['seg4'], lambda s: s.findExtremes(), 'LS'),
     K('Cubic_hasLoop', ['seg4'], lambda s: s.hasLoop, 'OSS'),
     ] + seg_kernels('seg2') + seg_kernels('seg3') + seg_kernels('seg4'))}

IMPORTS = ['Gen.Utils', 'Gen.Point', 'Gen.Affine', 'Gen.BBox', 'Gen.Line', 'Gen.Quad', 'Gen.Cubic', 'Gen.CurveDist']


def clone_arg(kind, v):
    if kind in ('seg2', 'seg3', 'seg4'): return v.clone()
    if kind == 'M': return AffineTransformation([list(r) for r in v.matrix])
    if kind == 'P': return v.clone()
    return v


def special_args(k, rng, args):
    """make some inputs land on the interesting sets: points on the segment for tOfPoint, lines crossing curves"""
    name = k.coq
    if name.endswith('_tOfPoint') and rng.random() < 0.7:
        s = args[0]; t = gen.tvalue(rng)
        args[1] = s.pointAtTime(t)
    if name.endswith('_line_intersections') or name.endswith('_line_intersections_t'):
        if rng.random() < 0.8:
            s = args[0]
            a = s.pointAtTime(rng.random()); b = s.pointAtTime(rng.random())
            d = Point(rng.uniform(-50, 50), rng.uniform(-50, 50))
            args[1] = Line(a + d, a + d * -1.0)
    if name == 'Line__line_line_intersections' and rng.random() < 0.3:
        s = args[0]
        x = rng.choice([s[0].x, rng.uniform(-100, 100)])
        args[1] = Line(Point(x, rng.uniform(-500, 500)), Point(x, rng.uniform(-500, 500)))
    return args


def cross_check(pid, names, n_per, rng, tag='kern'):
    """returns the run_case_files result extended with distribution/samples/first_disagreement"""
    px = proxy()
    cases, meta, dist = [], [], {}
    for nm in names:
        k = KERNELS[nm]
        made = raised = 0
        tries = 0
        while made < n_per and tries < n_per * 3:
            tries += 1
            args = [GEN[a](rng) for a in k.args]
            args = special_args(k, rng, args)
            kinds = [KIND.get(a, a) for a in k.args]
            cargs = ' '.join(carg(kd, v) for kd, v in zip(kinds, args))
            px.take()
            try:
                val = k.py(*[clone_arg(kd, v) for kd, v in zip(kinds, args)])
            except (ZeroDivisionError, ValueError, OverflowError) as e:
                raised += 1
                continue
            tbl = px.take()
            ops = f'(FOpsT {vlib.clibm(tbl)})' if k.libm else 'FOps'
            try:
                cases.append(cmp_expr(k.ret, f'{k.coq} {ops} {cargs}', val, k.tol))
            except TypeError:
                raised += 1; continue
            meta.append({'kernel': nm, 'args': [repr(a) if not hasattr(a, 'matrix') else a.matrix for a in args], 'python': repr(val)[:200]})
            made += 1
        dist[nm] = {'cases': made, 'python_raised': raised}
    res = vlib.run_case_files(pid, tag, IMPORTS, '', cases)
    res['distribution'] = dist
    res['kinds'] = {'kernels': len(names)}
    res['samples'] = meta[:2]
    if res['failing']:
        res['first_disagreement'] = [meta[i] for i in res['failing'][:3]]
        fk = {}
        for i in res['failing']: fk[meta[i]['kernel']] = fk.get(meta[i]['kernel'], 0) + 1
        res['failing_kernels'] = fk
    return res
