"""Kernel cross-check (DESIGN 2.2/2.5): the float instance of every generated definition is executed by vm_compute
on generated inputs and compared with the Python function it was generated from -- bit for bit where only
+ - * / sqrt are involved, through the recorded libm table for cos/sin/acos/atan2/pow, and with a relative
tolerance where CPython's `**` (libm pow, not correctly rounded) is involved."""
import math
import vlib, gen
from beziers.point import Point
from beziers.line import Line
from beziers.quadraticbezier import QuadraticBezier
from beziers.cubicbezier import CubicBezier
from beziers.affinetransformation import AffineTransformation
from beziers.boundingbox import BoundingBox
from beziers.utils import quadraticRoots
from beziers.path import geometricshapes as GS
from beziers.utils import curvefitter as CF

PROXY = None


def proxy():
    global PROXY
    if PROXY is None: PROXY = vlib.install_math_proxy()
    return PROXY


CLS = {'seg2': 'Line', 'seg3': 'Quad', 'seg4': 'Cubic'}
ORDER = {'seg2': 2, 'seg3': 3, 'seg4': 4}


# ---- result formatting: (python value, kind) -> coq comparison of `got` against it
def cmp_expr(kind, got, val, tol=None):
    if isinstance(kind, tuple) and kind[0] == 'T':
        parts = [cmp_expr(k, f'x{i}_', v, tol) for i, (k, v) in enumerate(zip(kind[1], val))]
        pat = 'x0_'
        for i in range(1, len(kind[1])): pat = f'({pat}, x{i}_)'
        return f"(let '{pat} := {got} in " + ' && '.join(parts) + ')'
    if kind == 'S':
        if val is True or val is False: raise TypeError('bool where scalar expected')
        return f'feq ({got}) {vlib.fhex(val)}' if tol is None else f'fclose {vlib.fhex(tol)} ({got}) {vlib.fhex(val)}'
    if kind == 'B': return f'Bool.eqb ({got}) {vlib.cbool(bool(val))}'
    if kind == 'P':
        return f'pt_feq ({got}) {vlib.cpt(val)}' if tol is None else f'pt_fclose {vlib.fhex(tol)} ({got}) {vlib.cpt(val)}'
    if kind in ORDER:
        if len(val.points) != ORDER[kind]: return 'false'
        return f'{kind}_feq ({got}) {vlib.cseg(val)}' if tol is None else f'{kind}_fclose {vlib.fhex(tol)} ({got}) {vlib.cseg(val)}'
    if kind == 'M':
        m = val.matrix
        return f'mat_feq ({got}) {vlib.cmat(m)}' if tol is None else f'mat_fclose {vlib.fhex(tol)} ({got}) {vlib.cmat(m)}'
    if kind == 'LS':
        f = 'feq' if tol is None else f'(fclose {vlib.fhex(tol)})'
        return f'list_eqb {f} ({got}) {vlib.clist([vlib.fhex(x) for x in val])}'
    if kind == 'OSS':   # hasLoop: False or (t1, t2)
        if val is False: return f'match {got} with None => true | Some _ => false end'
        return f'match {got} with Some (a, b) => feq a {vlib.fhex(val[0])} && feq b {vlib.fhex(val[1])} | None => false end'
    if isinstance(kind, tuple) and kind[0] == 'T':
        parts = [cmp_expr(k, f'x{i}_', v, tol) for i, (k, v) in enumerate(zip(kind[1], val))]
        pat = 'x0_'
        for i in range(1, len(kind[1])): pat = f'({pat}, x{i}_)'
        return f"(let '{pat} := {got} in " + ' && '.join(parts) + ')'
    if kind == 'OBB':   # BoundingBox, possibly with unset corners (None)
        if val.bl is None and val.tr is None: return f'match {got} with None => true | Some _ => false end'
        if val.bl is None or val.tr is None: return 'false'
        return f'match {got} with Some b_ => pt_feq (bl b_) {vlib.cpt(val.bl)} && pt_feq (tr b_) {vlib.cpt(val.tr)} | None => false end'
    if kind in ('Lseg2', 'Lseg4'):   # a path built by BezierPath.fromSegments, compared through asSegments()
        sk = kind[1:]
        segs = val.asSegments() if hasattr(val, 'asSegments') else val
        if any(len(x.points) != ORDER[sk] for x in segs): return 'false'
        return f'list_eqb {sk}_feq ({got}) {vlib.clist([vlib.cseg(x) for x in segs])}'
    if kind == 'LE': return f'list_eqb gedge_feq ({got}) {vlib.clist([cedge(x) for x in val])}'
    if kind in ('OXFLAT', 'OXLIXSS', 'OXDIST'):
        # round 5 (Gen/PathOps.v): option (outcome _) of a flattened path (edges with their _orig, closed) / a list of Intersections with both
        # their segments / distanceToPath's (distance, t1, t2, seg1, seg2); None = out of fuel, never expected
        if isinstance(val, PyRaised): return f'match {got} with Some (Raises {val.exc}) => true | _ => false end'
        if kind == 'OXFLAT':
            inner = f'list_eqb gedge_feq (fst g_) {vlib.clist([cedge(x) for x in val.asSegments()])} && Bool.eqb (snd g_) {vlib.cbool(bool(val.closed))}'
        elif kind == 'OXLIXSS':
            inner = f'list_eqb gixss_feq g_ {vlib.clist([f"({vlib.csegment(i.seg1)}, {vlib.csegment(i.seg2)}, ({vlib.fhex(i.t1)}, {vlib.cpt(i.point)}, {vlib.fhex(i.t2)}))" for i in val])}'
        else:
            d, t1, t2, s1, s2 = val
            inner = (f"(let '(d_, a_, b_, s1_, s2_) := g_ in feq d_ {vlib.fhex(d)} && feq a_ {vlib.fhex(t1)} && feq b_ {vlib.fhex(t2)} && "
                     f"gsegment_feq s1_ {vlib.csegment(s1)} && gsegment_feq s2_ {vlib.csegment(s2)})")
        return f'match {got} with Some (Returns g_) => {inner} | _ => false end'
    if kind in ('OLP', 'OLS', 'OXLS', 'OXLP', 'XP', 'XS', 'OLE', 'OXLE', 'OXS'):
        # results of the effectful definitions (Gen/Sample.v): O = option (None: out of fuel, never expected here), X = outcome
        # (Returns v | Raises e; the Python side is a PyRaised when the call raised a modelled exception)
        inner = {'LP': lambda g: f'list_eqb pt_feq {g} {vlib.clist([vlib.cpt(x) for x in val])}',
                 'LS': lambda g: f'list_eqb feq {g} {vlib.clist([vlib.fhex(x) for x in val])}',
                 'P': lambda g: f'pt_feq {g} {vlib.cpt(val)}', 'S': lambda g: f'feq {g} {vlib.fhex(val)}',
                 'LE': lambda g: f'list_eqb gedge_feq {g} {vlib.clist([cedge(x) for x in val])}'}[kind.lstrip('OX')]
        if isinstance(val, PyRaised):
            if 'X' not in kind: return 'false'
            pat = f'Some (Raises {val.exc})' if kind.startswith('O') else f'Raises {val.exc}'
            return f'match {got} with {pat} => true | _ => false end'
        pat = {(True, True): 'Some (Returns g_)', (True, False): 'Some g_', (False, True): 'Returns g_'}[(kind.startswith('O'), 'X' in kind)]
        return f'match {got} with {pat} => {inner("g_")} | _ => false end'
    if kind in ('XLNODE', 'XSREP'):
        # Gen/Nodelist.v: outcome (list (gnode float)) / outcome (segrep float); the Python side is a list of Node / a
        # SegmentRepresentation (segments compared class by class, `path.closed` with sr_path), or a PyRaised
        if isinstance(val, PyRaised): return f'match {got} with Raises {val.exc} => true | _ => false end'
        if kind == 'XLNODE': return f'match {got} with Returns g_ => list_eqb gnode_feq g_ {cnodes(val)} | _ => false end'
        return (f'match {got} with Returns g_ => Bool.eqb (sr_path g_) {vlib.cbool(bool(val.path.closed))} && '
                f'list_eqb gsegment_feq (sr_segments g_) {vlib.clist([vlib.csegment(x) for x in val.segments])} | _ => false end')
    if kind == 'OLSEG':     # Gen/Split.v: option (list (segment float)), None = out of fuel (never expected); Python: the path afterwards
        segs = val.asSegments()
        return f'match {got} with Some g_ => list_eqb gsegment_feq g_ {vlib.clist([vlib.csegment(x) for x in segs])} | None => false end'
    if kind in ('XDECK', 'XLSS'):
        # Gen/Sweep.v: outcome (list (shape * bbox)) -- a deque of (object, bounds) -- / outcome (list (shape * shape)); Python never raises here
        if isinstance(val, PyRaised): return f'match {got} with Raises {val.exc} => true | _ => false end'
        if kind == 'XDECK': return f'match {got} with Returns g_ => list_eqb gitem_feq g_ {vlib.clist([citem(x) for x in val])} | _ => false end'
        return f'match {got} with Returns g_ => list_eqb gpair_feq g_ {vlib.clist(["(" + cshape(a) + ", " + cshape(b) + ")" for a, b in val])} | _ => false end'
    if kind in ('XZ', 'XB', 'XOBB'):
        # round 4 (Gen/Winding.v): outcome Z / outcome bool / outcome (option bbox); TypeError / AttributeError on None is PyNoneError
        if isinstance(val, PyRaised): return f'match {got} with Raises {val.exc} => true | _ => false end'
        if kind == 'XZ': return f'match {got} with Returns g_ => Z.eqb g_ ({int(val)})%Z | _ => false end'
        if kind == 'XB': return f'match {got} with Returns g_ => Bool.eqb g_ {vlib.cbool(bool(val))} | _ => false end'
        return f'match {got} with Returns g_ => {cmp_expr("OBB", "g_", val)} | _ => false end'
    if kind in ('MINDIST', 'OXSSS'):
        # round 4 (Gen/MinDist.v): option (outcome ((dist, t1, t2), (bestAlpha, iterations))) / option (outcome (dist, t1, t2))
        if kind == 'MINDIST':
            (d, t1, t2), best, its = val.value, val.best, val.iterations
            st = f' && match snd g_ with (Some b_, i_) => feq b_ {vlib.fhex(best)} && Z.eqb i_ {its} | _ => false end' if best is not None else \
                 f' && match snd g_ with (None, i_) => Z.eqb i_ {its} | _ => false end'
            return (f"match {got} with Some (Returns g_) => (let '(d_, a_, b_) := fst g_ in feq d_ {vlib.fhex(d)} && feq a_ {vlib.fhex(t1)} && feq b_ {vlib.fhex(t2)}){st} | _ => false end")
        d, t1, t2 = val
        f = 'feq' if tol is None else f'fclose {vlib.fhex(tol)}'
        return f"match {got} with Some (Returns g_) => (let '(d_, a_, b_) := g_ in {f} d_ {vlib.fhex(d)} && {f} a_ {vlib.fhex(t1)} && {f} b_ {vlib.fhex(t2)}) | _ => false end"
    if kind in ('OXLTT', 'OXLIX', 'LIX4'):
        # round 4 (Gen/CurveCurve.v): option (outcome (list (t1, t2))) / option (outcome (list Intersection)); None = out of fuel, never expected;
        # LIX4: the dispatch `intersections`, whose result carries the effects only when both operands are curves
        if kind == 'LIX4' and not val.fuelled: return cmp_expr('LIX', got, val.value, tol)
        if kind == 'LIX4': val = val.value
        if isinstance(val, PyRaised): return f'match {got} with Some (Raises {val.exc}) => true | _ => false end'
        if kind == 'OXLTT': exp, f = vlib.clist([f'({vlib.fhex(a)}, {vlib.fhex(b)})' for a, b in val]), '(fun a b => feq (fst a) (fst b) && feq (snd a) (snd b))'
        else: exp, f = vlib.clist([f'({vlib.fhex(i.t1)}, {vlib.cpt(i.point)}, {vlib.fhex(i.t2)})' for i in val]), 'ix_feq'
        return f'match {got} with Some (Returns g_) => list_eqb {f} g_ {exp} | _ => false end'
    if isinstance(kind, tuple) and kind[0] == 'R6':
        # round 6 (Gen/Fit.v, Gen/Clip.v): ('R6', wrap, inner): wrap in {'X', 'O', 'OX'} (outcome / option / option (outcome _)); a PyRaised is
        # `Raises <exc>`, PyRaised('OutOfFuel') -- Python's RecursionError -- is None
        _, wrap, inner = kind
        if hasattr(val, 'ctbl') and isinstance(val.value, PyRaised): val = val.value
        if isinstance(val, PyRaised):
            if val.exc == 'OutOfFuel': return f'match {got} with None => true | _ => false end' if 'O' in wrap else 'false'
            if 'X' not in wrap: return 'false'
            pat = f'Some (Raises {val.exc})' if wrap == 'OX' else f'Raises {val.exc}'
            return f'match {got} with {pat} => true | _ => false end'
        pat = {'OX': 'Some (Returns g_)', 'O': 'Some g_', 'X': 'Returns g_'}[wrap]
        return f'match {got} with {pat} => {cmp_r6(inner, "g_", val)} | _ => false end'
    if kind == 'LIX':
        items = [f'({vlib.fhex(i.t1)}, {vlib.cpt(i.point)}, {vlib.fhex(i.t2)})' for i in val]
        f = 'ix_feq' if tol is None else f'(ix_fclose {vlib.fhex(tol)})'
        return f'list_eqb {f} ({got}) {vlib.clist(items)}'
    raise ValueError(kind)


def cmp_r6(inner, g, val):
    if inner == 'S': return f'feq {g} {vlib.fhex(float(val))}'
    if inner == 'P': return f'pt_feq {g} {vlib.cpt(val)}'
    if inner == 'seg4': return f'seg4_feq {g} {vlib.cseg(val)}' if len(val.points) == 4 else 'false'
    if inner == 'LS': return f'list_eqb feq {g} {vlib.clist([vlib.fhex(float(x)) for x in val])}'
    if inner == 'SZ': return f'(feq (fst {g}) {vlib.fhex(float(val[0]))} && Z.eqb (snd {g}) ({int(val[1])})%Z)'
    if inner == 'OLseg4':      # None | a list of cubics
        if val is None: return f'match {g} with None => true | Some _ => false end'
        if any(len(x.points) != 4 for x in val): return 'false'
        return f'match {g} with Some l_ => list_eqb seg4_feq l_ {vlib.clist([vlib.cseg(x) for x in val])} | None => false end'
    if inner == 'PATHC4':      # a path of cubics as (segments, closed)
        segs = val.asSegments()
        if any(len(x.points) != 4 for x in segs): return 'false'
        return f'(list_eqb seg4_feq (fst {g}) {vlib.clist([vlib.cseg(x) for x in segs])} && Bool.eqb (snd {g}) {vlib.cbool(bool(val.closed))})'
    if inner == 'LPATHC':      # round 6: a list of paths, each (segments of mixed classes, closed)
        val = val.value if hasattr(val, 'ctbl') else val
        return f'list_eqb (fun a b => list_eqb gsegment_feq (fst a) (fst b) && Bool.eqb (snd a) (snd b)) {g} ' + \
            vlib.clist(['(' + vlib.clist([vlib.csegment(x) for x in p_.asSegments()]) + ', ' + vlib.cbool(bool(p_.closed)) + ')' for p_ in val])
    if inner == 'LLseg':       # a list of paths, each the list of its segments
        return f'list_eqb (list_eqb gsegment_feq) {g} {vlib.clist([vlib.clist([vlib.csegment(x) for x in p_]) for p_ in val])}'
    raise ValueError(inner)


class PyRaised:
    """the Python call raised a modelled exception (compared with `Raises <exc>` of the generated definition)"""
    def __init__(self, exc): self.exc = exc
    def __repr__(self): return f'raised {self.exc}'


def catching(f, floor=False):
    """IndexError is modelled by every kernel wrapped in this; ValueError / OverflowError only where they can only come from
    math.floor of a NaN / an infinity (floor=True)"""
    def g(*a):
        try: return f(*a)
        except IndexError: return PyRaised('PyIndexError')
        except ValueError:
            if not floor: raise
            return PyRaised('PyValueError')
        except OverflowError:
            if not floor: raise
            return PyRaised('PyOverflowError')
    return g


NODE_TYPES = {'line': 'Nt_line', 'curve': 'Nt_curve', 'offcurve': 'Nt_offcurve'}
def cnode(n): return f'(GNode {vlib.cpt(n.point)} {NODE_TYPES[n.type]})'
def cnodes(nl): return vlib.clist([cnode(n) for n in nl])


class Shp:
    """an object as the sweep sees one: an identity (the tag stands for id()) and bounds()"""
    def __init__(self, tag, b): self.tag, self.b = tag, b
    def bounds(self): return self.b
    def __repr__(self): return f'Shp({self.tag}, {self.b.bl.x},{self.b.bl.y},{self.b.tr.x},{self.b.tr.y})'
class Cond:
    """a `condition` for dequefilter: the Python callable and the same function as a Coq term"""
    def __init__(self, py, coq, desc): self.py, self.coq, self.desc = py, coq, desc
    def __repr__(self): return self.desc
def cbox(b): return f'(BB {vlib.cpt(b.bl)} {vlib.cpt(b.tr)})'
def cshape(o): return f'({o.tag}%nat, {cbox(o.b)})'
def citem(it): return f'({cshape(it[0])}, {cbox(it[1])})'


def corig(x):
    o = getattr(x, '_orig', None)
    return 'None' if o is None else '(Some ' + vlib.csegment(o) + ')'
def cedge(l):
    """a Line produced by flatten, with its _orig attribute"""
    return f'({vlib.cseg(l)}, {corig(l)})'


def carg(kind, v):
    if kind == 'S': return vlib.fhex(v)
    if kind == 'P': return vlib.cpt(v)
    if kind in ORDER: return vlib.cseg(v)
    if kind == 'M': return vlib.cmat(v.matrix)
    if kind == 'B': return vlib.cbool(v)
    if kind == 'OS': return 'None' if v is None else f'(Some {vlib.fhex(v)})'
    if kind == 'LP': return vlib.clist([vlib.cpt(x) for x in v])
    if kind == 'LS': return vlib.clist([vlib.fhex(x) for x in v])
    if kind == 'OBB': return 'None' if v.bl is None else f'(Some (BB {vlib.cpt(v.bl)} {vlib.cpt(v.tr)}))'
    if kind == 'OP': return 'None' if v is None else f'(Some {vlib.cpt(v)})'
    if kind == 'BB': return f'(BB {vlib.cpt(v.bl)} {vlib.cpt(v.tr)})'
    if kind == 'PATH': return vlib.clist([vlib.csegment(x) for x in v.asSegments()])
    if kind == 'EDGE': return cedge(v)
    if kind == 'SREP': return f'(MkSegRep {vlib.cbool(bool(v.path.closed))} {vlib.clist([vlib.csegment(x) for x in v.segments])})'
    if kind == 'LXY': return vlib.clist([f'({vlib.fhex(x)}, {vlib.fhex(y)})' for x, y in v])
    if kind == 'PCLOSED': return vlib.cbool(bool(v.closed))
    if kind == 'LNODE': return cnodes(v)
    if kind == 'DECK': return vlib.clist([citem(x) for x in v])
    if kind == 'COND': return v.coq
    if kind == 'SHAPES': return vlib.clist([cshape(o) for o in v])
    if kind == 'SPLITLIST': return vlib.clist([f'({vlib.csegment(sg)}, {vlib.fhex(t)})' for sg, t in v])
    if kind == 'TPATH':     # round 5: a path as (segments with their _orig, closed)
        return f'({vlib.clist(["(" + vlib.csegment(x) + ", " + corig(x) + ")" for x in v.asSegments()])}, {vlib.cbool(bool(v.closed))})'
    if kind == 'Z': return f'({int(v)})%Z'
    if kind == 'CT': return CT6[v]
    if kind in ('RNG3', 'RNG4'): return f'(Ranged {vlib.cseg(v)} {vlib.fhex(v._range[0])} {vlib.fhex(v._range[1])})'     # a curve with its `_range`
    raise ValueError(kind)


# ---- argument generators
def g_S(rng): return rng.choice([rng.uniform(-3, 3), rng.uniform(-500, 500), float(rng.randint(-5, 5)), 0.0, 1.0, -1.0, rng.random()])
def g_t(rng): return gen.tvalue(rng)
def g_angle(rng): return rng.choice([rng.uniform(-7, 7), math.pi / 2, -math.pi / 2, math.pi, 0.0, math.pi / 4, 1e-9])
def g_P(rng):
    fam = rng.choice(['int', 'float', 'grid', 'big'])
    x, y = gen.coords(rng, fam, 1)[0]
    return Point(x, y)
def g_M(rng):
    m = AffineTransformation()
    for _ in range(rng.randint(0, 4)):
        k = rng.randrange(4)
        if k == 0: m.translate(Point(rng.uniform(-100, 100), rng.uniform(-100, 100)))
        elif k == 1: m.rotate(g_angle(rng))
        elif k == 2: m.scale(rng.choice([2.0, 0.5, -1.0, rng.uniform(-3, 3)]), rng.choice([None, 3.0, rng.uniform(-3, 3)]))
        else: m.reflect()
    if rng.random() < 0.2:
        m = AffineTransformation([[rng.uniform(-2, 2) for _ in range(3)] for _ in range(2)] + [[0.0, 0.0, 1.0]])
    m.matrix = [[float(x) for x in r] for r in m.matrix]
    return m
def g_seg(order):
    def g(rng):
        return gen.segment(rng, order=order)[0]
    return g
def g_BB(rng):
    b = BoundingBox()
    x0, x1 = sorted([float(rng.randint(-6, 6)), float(rng.randint(-6, 6))]) if rng.random() < 0.6 else sorted([rng.uniform(-50, 50), rng.uniform(-50, 50)])
    y0, y1 = sorted([float(rng.randint(-6, 6)), float(rng.randint(-6, 6))]) if rng.random() < 0.6 else sorted([rng.uniform(-50, 50), rng.uniform(-50, 50)])
    b.bl, b.tr = Point(x0, y0), Point(x1, y1)
    return b
def g_OS(rng): return rng.choice([None, 0.0, 2.0, -1.0, rng.uniform(-3, 3)])
def g_B(rng): return rng.random() < 0.5
def g_LP(rng): return [g_P(rng) for _ in range(rng.choice([0, 1, 2, 3, 5, 8]))]
def g_LP2(rng):   # stroke data: mostly two or more points, sometimes with repeated points
    l = [g_P(rng) for _ in range(rng.choice([0, 1, 2, 2, 3, 5, 8, 12]))]
    if len(l) > 2 and rng.random() < 0.3: l[rng.randrange(1, len(l))] = l[0].clone()
    return l
def g_LS(rng): return sorted(rng.random() for _ in range(rng.choice([0, 1, 2, 3, 5, 8])))
def g_OBB(rng): return BoundingBox() if rng.random() < 0.25 else g_BB(rng)
def g_OP(rng): return None if rng.random() < 0.25 else rng.choice([g_P(rng), Point(rng.uniform(-5000, 5000), rng.uniform(-5000, 5000)), Point(0.0, 0.0)])
def g_sseg(order):
    """segments for the sampling loops: finite, length up to a few hundred (the loops run about `length` iterations), often with
    an integer / power-of-two length so that `t += 1/length` lands exactly on 1.0; sometimes of length 0; rarely with a NaN"""
    def g(rng):
        fam = rng.choice(['int', 'int', 'pow2', 'float', 'axis', 'axis', 'pyth', 'zero', 'nan'] if rng.random() < 0.35 else ['int', 'pow2', 'float', 'axis', 'pyth'])
        if fam in ('axis', 'pyth'):
            L = float(rng.choice([1, 2, 3, 4, 5, 7, 8, 10, 16, 32, 50, 64, 100, 128, 200, 256, rng.randint(1, 300)]))
            x0, y0 = float(rng.randint(-50, 50)), float(rng.randint(-50, 50))
            dx, dy = rng.choice([(1.0, 0.0), (0.0, 1.0), (-1.0, 0.0), (0.0, -1.0)]) if fam == 'axis' else rng.choice([(0.6, 0.8), (-0.8, 0.6), (3.0 / 5, -4.0 / 5)])
            if fam == 'pyth': L = float(5 * rng.choice([1, 2, 4, 8, 16, 20, 32, 40]))
            ts = {2: [0.0, 1.0], 3: [0.0, 0.5, 1.0], 4: [0.0, rng.choice([0.25, 1 / 3]), rng.choice([0.75, 2 / 3]), 1.0]}[order]
            pts = [Point(x0 + dx * L * t, y0 + dy * L * t) for t in ts]
        elif fam == 'zero':
            p = (float(rng.randint(-50, 50)), float(rng.randint(-50, 50)))
            pts = [Point(*p) for _ in range(order)]
        elif fam == 'pow2':
            pts = [Point(float(rng.randint(-16, 16) * 8), float(rng.randint(-16, 16) * 8)) for _ in range(order)]
        elif fam == 'float':
            pts = [Point(rng.uniform(-100, 100), rng.uniform(-100, 100)) for _ in range(order)]
        else:
            pts = [Point(float(rng.randint(-100, 100)), float(rng.randint(-100, 100))) for _ in range(order)]
        if fam == 'nan':
            q = pts[rng.randrange(order)]
            if rng.random() < 0.5: q.x = math.nan
            else: q.y = math.nan
        return gen.KINDS[order](*pts)
    return g
def g_nsamp(rng):
    """number of samples: positive (a negative or zero count makes the Python loops run forever / divide by zero), at most a few hundred"""
    return rng.choice([float(rng.randint(1, 200)), float(2 ** rng.randint(0, 8)), rng.uniform(0.5, 150), rng.randint(1, 64), 10.0, 1.0, 0.75])
def g_path(rng):
    """a path as a list of segments of mixed classes (0 to 6 of them; not necessarily connected: the functions never look)"""
    from beziers.path import BezierPath
    n = rng.choice([0, 1, 1, 2, 3, 3, 4, 6])
    return BezierPath.fromSegments([GEN['sseg%d' % rng.choice([2, 3, 4])](rng) if rng.random() < 0.7 else gen.segment(rng)[0] for _ in range(n)])
def g_spath(rng):
    """a path for the sampling loops: total length up to a few hundred; occasionally empty (pointAtTime raises IndexError
    inside the loop) or with a NaN / zero-length segment"""
    from beziers.path import BezierPath
    n = rng.choice([0, 1, 1, 2, 2, 3, 4])
    segs = [GEN['sseg%d' % rng.choice([2, 3, 4])](rng) for _ in range(n)]
    if n > 1 and rng.random() < 0.5:     # connected, as real paths are
        for a, b in zip(segs, segs[1:]):
            d = a.end - b.start
            b.points = [p + d for p in b.points]
    return BezierPath.fromSegments(segs)
def g_pt(rng):
    """path time: mostly inside [0, 1] (segment boundaries k/n included), sometimes outside (negative ints index from the end,
    beyond the ends is IndexError), rarely NaN / infinite (math.floor raises)"""
    r = rng.random()
    if r < 0.45: return gen.tvalue(rng)
    if r < 0.65: return rng.randint(0, 6) / rng.choice([1, 2, 3, 4, 6])
    if r < 0.85: return rng.choice([-0.25, -0.5, -1.0, -1.5, -3.0, 1.25, 2.0, rng.uniform(-2, 3), -1e-9, 1 + 1e-9])
    return rng.choice([math.nan, math.inf, -math.inf, 1e308, -0.0])
def g_edge(rng):
    """a Line as Line.flatten receives it: fresh (no _orig), or cut from a curve by an earlier flatten (_orig set)"""
    l = GEN['sseg2'](rng) if rng.random() < 0.5 else gen.segment(rng, order=2)[0]
    if rng.random() < 0.6: l._orig = gen.segment(rng)[0]
    return l
def g_nlpath(rng, nseg, closed):
    """a connected path of nseg segments of mixed classes; a closed one usually ends where it starts, sometimes only within the
    tolerance of isclose (1e-9 relative), sometimes nowhere near"""
    def pt():
        r = rng.random()
        if r < 0.5: return Point(float(rng.randint(-9, 9)), float(rng.randint(-9, 9)))
        if r < 0.6: return Point(float(rng.randint(-900000, 900000)), float(rng.randint(-900, 900)))
        return Point(rng.uniform(-500, 500), rng.uniform(-500, 500))
    start = pt(); cur = start; segs = []
    for i in range(nseg):
        k = rng.choice([2, 3, 4])
        if closed and i == nseg - 1 and rng.random() < 0.8:
            end = start.clone() if rng.random() < 0.6 else Point(start.x * (1 + rng.choice([4e-10, -3e-10, 2e-9, 0])), start.y * (1 + rng.choice([0, 5e-10, -2e-9])))
        else: end = pt()
        segs.append(gen.KINDS[k](cur.clone(), *[pt() for _ in range(k - 2)], end))
        cur = end
    return segs
def g_srep(rng):
    """a SegmentRepresentation: 0 (toNodelist raises IndexError) to 7 segments"""
    from beziers.path import BezierPath
    from beziers.path.representations.Segment import SegmentRepresentation
    path = BezierPath(); path.closed = rng.random() < 0.5
    n = rng.choice([0, 1, 1, 2, 3, 4, 5, 7])
    segs = g_nlpath(rng, n, path.closed) if rng.random() < 0.7 else [gen.segment(rng)[0] for _ in range(n)]
    return SegmentRepresentation(path, segs)
def g_lxy(rng):
    """the `seg` argument of appendSegment: a list of coordinate pairs, usually 2, 3 or 4 of them (else ValueError)"""
    n = rng.choice([2, 2, 3, 3, 4, 4, 0, 1, 5, 6])
    return [(rng.choice([float(rng.randint(-9, 9)), rng.uniform(-500, 500)]), rng.choice([float(rng.randint(-9, 9)), rng.uniform(-500, 500)])) for _ in range(n)]
def g_pclosed(rng):
    from beziers.path import BezierPath
    p = BezierPath(); p.closed = rng.random() < 0.5
    return p
def g_nodelist(rng):
    """node lists: the ones toNodelist produces (also rotated, and with the repeated start dropped), arbitrary ones (including the ones
    fromNodelist rejects: runs of more than two off-curve nodes -> ValueError), all off-curve, empty (IndexError)"""
    from beziers.path import BezierPath
    from beziers.path.representations.Segment import SegmentRepresentation
    from beziers.path.representations.Nodelist import Node
    r = rng.random()
    if r < 0.55:
        closed = rng.random() < 0.6
        nl = SegmentRepresentation(BezierPath(), g_nlpath(rng, rng.randint(1, 7), closed)).toNodelist()
        if rng.random() < 0.4: nl = nl[1:]          # closed contours are stored without the repeated start
        if rng.random() < 0.6:
            k = rng.randrange(len(nl)); nl = nl[k:] + nl[:k]
        return nl
    if r < 0.9:
        return [Node(float(rng.randint(-5, 5)), float(rng.randint(-5, 5)), rng.choice(['line', 'curve', 'offcurve', 'offcurve'])) for _ in range(rng.randint(1, 9))]
    if r < 0.96:
        return [Node(float(rng.randint(-5, 5)), float(rng.randint(-5, 5)), 'offcurve') for _ in range(rng.randint(1, 4))]
    return []
def g_sweepbox(rng, grid):
    if grid:
        x0, x1 = sorted([rng.randint(0, 6), rng.randint(0, 6)]); y0, y1 = sorted([rng.randint(0, 6), rng.randint(0, 6)])
    else:
        x0, x1 = sorted([rng.uniform(-100, 100), rng.uniform(-100, 100)]); y0, y1 = sorted([rng.uniform(-100, 100), rng.uniform(-100, 100)])
    b = BoundingBox(); b.bl, b.tr = Point(float(x0), float(y0)), Point(float(x1), float(y1))
    if rng.random() < 0.08: b.bl.x = -0.0 if rng.random() < 0.5 else 0.0
    return b
def g_shapes(rng):
    """a collection for the sweep: 0..9 shapes tagged by their position; on a small grid (many equal keys: the order among ties is
    the insertion order of the stable sort) or with random float coordinates"""
    grid = rng.random() < 0.6
    return [Shp(i, g_sweepbox(rng, grid)) for i in range(rng.choice([0, 1, 2, 3, 4, 6, 9]))]
def g_deck(rng):
    """a deque of (object, bounds) pairs as bbox_intersections builds them; tags may repeat (the same object twice) and need not be in order"""
    n = rng.choice([0, 1, 2, 3, 5, 8])
    out = []
    for _ in range(n):
        o = Shp(rng.randint(0, 4), g_sweepbox(rng, True))
        out.append((o, o.b))
    return out
def g_cond(rng):
    r = rng.random()
    if r < 0.5:
        t = rng.randint(0, 4)     # lambda i: i[0] != o  -- the condition remove_from uses; o is any shape with that identity
        return Cond(lambda i: i[0].tag != t, f'(fun i => negb (shape_eqb (fst i) ({t}%nat, BB (P 0%float 0%float) (P 0%float 0%float))))', f'tag != {t}')
    if r < 0.8:
        c = float(rng.randint(0, 6))
        return Cond(lambda i: i[1].left < c, f'(fun i => PrimFloat.ltb (px (bl (snd i))) {vlib.fhex(c)})', f'left < {c}')
    b = rng.random() < 0.5
    return Cond(lambda i: b, f'(fun _ => {vlib.cbool(b)})', f'const {b}')
def g_splitpath(rng):
    """a path for splitAtPoints / addExtremes: 0..6 segments of mixed classes, sometimes with a segment repeated BY VALUE (the dict
    is keyed by value: the second occurrence finds the list already consumed) or differing from another only by -0.0 / 0.0"""
    from beziers.path import BezierPath
    n = rng.choice([0, 1, 2, 3, 3, 4, 6])
    segs = []
    for _ in range(n):
        sg = gen.segment(rng, fam=rng.choice(['int', 'float', 'grid', 'smallint', 'collinear']))[0]
        segs.append(sg)
    if segs and rng.random() < 0.35:
        segs.insert(rng.randrange(len(segs) + 1), rng.choice(segs).clone())
    if segs and rng.random() < 0.15:
        c = rng.choice(segs).clone()
        c.points[0] = Point(c.points[0].x + 0.0, -0.0 if c.points[0].y == 0 else c.points[0].y)
        segs.append(c)
    return BezierPath.fromSegments(segs)
def g_splitlist_for(rng, path):
    """split points: (segment of the path | a value-equal copy | a segment that is not in the path, time); times in [0, 1], repeated,
    below the 1e-8 threshold, and rarely 1.0 (then mapx divides by zero when another time follows: Python raises, the case is dropped)"""
    segs = path.asSegments()
    out = []
    for _ in range(rng.choice([0, 1, 2, 3, 5, 8])):
        r = rng.random()
        if segs and r < 0.6: sg = rng.choice(segs)
        elif segs and r < 0.85: sg = rng.choice(segs).clone()
        else: sg = gen.segment(rng)[0]
        t = rng.choice([gen.tvalue(rng), rng.random(), rng.random(), 0.5, 0.25, 1e-9, 0.0, 5e-9, 0.75, 1.0 if rng.random() < 0.15 else 0.9])
        out.append((sg, t))
    if out and rng.random() < 0.3: out.append((out[0][0], out[0][1]))
    return out
def g_degree(rng): return rng.choice([8, 8.0, float(rng.randint(1, 40)), rng.uniform(0.5, 60), 1.0, 4.0, 16.0, 300.0])
def g_size(rng): return rng.choice([float(rng.randint(1, 5000)), rng.uniform(0.5, 5000), rng.uniform(-50, 50), 0.0])
def g_sup(rng): return rng.choice([GS.CIRCULAR_SUPERNESS, rng.uniform(0.1, 1.2), 1.0, 0.0, rng.uniform(-2, 2)])
# ---- round 4: pairs of curves for the curve-curve subdivision (the second operand is rebuilt from the first in special_args)
def g_curve(order):
    def g(rng):
        r = rng.random()
        if r < 0.45: pts = [Point(rng.uniform(-300, 300), rng.uniform(-300, 300)) for _ in range(order)]
        elif r < 0.7: pts = [Point(float(rng.randint(-300, 300)), float(rng.randint(-300, 300))) for _ in range(order)]
        elif r < 0.8:
            sc = 10.0 ** rng.uniform(-3, 1.5)
            pts = [Point(rng.uniform(-sc, sc), rng.uniform(-sc, sc)) for _ in range(order)]
        elif r < 0.9:    # straight, axis-parallel or nearly: thin boxes
            o = Point(rng.uniform(-200, 200), rng.uniform(-200, 200)); L = rng.uniform(50, 400)
            d = Point(L, L * rng.choice([0.0, 1e-6, 1e-3, -1e-2])) if rng.random() < 0.5 else Point(L * rng.choice([0.0, 1e-5]), L)
            ts = sorted(rng.uniform(0.1, 0.9) for _ in range(order - 2))
            pts = [o] + [o + d * t for t in ts] + [o + d]
        else: return gen.segment(rng, order=order)[0]
        return gen.KINDS[order](*pts)
    return g
def crossing_partner(rng, a, order):
    """a curve of the given order through an interior point of a (usually a transversal crossing), at a's scale"""
    ext = max(abs(p.x - q.x) + abs(p.y - q.y) for p in a.points for q in a.points) or 1.0
    b = gen.KINDS[order](*[Point(rng.uniform(-ext, ext), rng.uniform(-ext, ext)) for _ in range(order)])
    d = a.pointAtTime(rng.uniform(0.05, 0.95)) - b.pointAtTime(rng.uniform(0.05, 0.95))
    return gen.KINDS[order](*[p + d for p in b.points])
GEN = {'RNG3': g_curve(3), 'RNG4': g_curve(4), 'curve3': g_curve(3), 'curve4': g_curve(4), 'S': g_S, 't': g_t, 'angle': g_angle, 'P': g_P, 'M': g_M, 'seg2': g_seg(2), 'seg3': g_seg(3), 'seg4': g_seg(4), 'BB': g_BB, 'OS': g_OS, 'B': g_B,
       'OP': g_OP, 'OBB': g_OBB, 'LP': g_LP, 'LP2': g_LP2, 'LS': g_LS, 'size': g_size, 'sup': g_sup,
       'PATH': g_path, 'pt': g_pt, 'EDGE': g_edge, 'SPATH': g_spath,
       'sseg2': g_sseg(2), 'sseg3': g_sseg(3), 'sseg4': g_sseg(4), 'nsamp': g_nsamp, 'degree': g_degree,
       'SREP': g_srep, 'LXY': g_lxy, 'PCLOSED': g_pclosed, 'LNODE': g_nodelist,
       'DECK': g_deck, 'COND': g_cond, 'SHAPES': g_shapes, 'SPLITPATH': g_splitpath, 'SPLITLIST': lambda rng: []}
KIND = {'curve3': 'seg3', 'curve4': 'seg4', 't': 'S', 'angle': 'S', 'size': 'S', 'sup': 'S', 'LP2': 'LP', 'sseg2': 'seg2', 'sseg3': 'seg3', 'sseg4': 'seg4', 'nsamp': 'S', 'degree': 'S', 'pt': 'S', 'SPATH': 'PATH', 'SPLITPATH': 'PATH'}


class K:
    """one kernel: coq name, argument generator kinds (receiver first), python callable, return kind, tolerance"""
    def __init__(self, coq, args, py, ret, tol=None, libm=False, clone=True, term=None, name=None, termv=None):
        self.coq, self.args, self.py, self.ret, self.tol, self.libm, self.clone = coq, args, py, ret, tol, libm, clone
        self.termv = termv      # termv(ops, cargs, python value): the Coq term when it depends on what the Python run recorded
        # term(ops, cargs): the Coq term when it is not just `coq ops cargs` (e.g. a default argument filled in);
        # name: the key in KERNELS when one generated definition is exercised by more than one kernel
        self.term, self.name = term, name or coq


def seg_kernels(kind):
    c = CLS[kind]
    ks = [
        K(f'{c}_pointAtTime', [kind, 't'], lambda s, t: s.pointAtTime(t), 'P'),
        K(f'{c}_splitAtTime', [kind, 't'], lambda s, t: s.splitAtTime(t), ('T', [kind, kind])),
        K(f'{c}_translated', [kind, 'P'], lambda s, v: s.translated(v), kind),
        K(f'{c}_scaled', [kind, 'S'], lambda s, k: s.scaled(k), kind),
        K(f'{c}_reversed', [kind], lambda s: s.reversed(), kind),
        K(f'{c}_transformed', [kind, 'M'], lambda s, m: s.transformed(m), kind),
        K(f'{c}_rotated', [kind, 'P', 'angle'], lambda s, p, a: s.rotated(p, a), kind, libm=True),
        K(f'{c}_alignmentTransformation', [kind], lambda s: s.alignmentTransformation(), 'M', libm=True),
        K(f'{c}_aligned', [kind], lambda s: s.aligned(), kind, libm=True),
        K(f'{c}_tangentAtTime', [kind, 't'], lambda s, t: s.tangentAtTime(t), 'P', libm=True),
        K(f'{c}_normalAtTime', [kind, 't'], lambda s, t: s.normalAtTime(t), 'P', libm=True),
        K(f'{c}_startAngle', [kind], lambda s: s.startAngle, 'S', libm=True),
        K(f'{c}_endAngle', [kind], lambda s: s.endAngle, 'S', libm=True),
        K(f'{c}_area', [kind], lambda s: s.area, 'S'),
        K(f'{c}_length', [kind], lambda s: s.length, 'S'),
        K(f'{c}_lengthAtTime', [kind, 't'], lambda s, t: s.lengthAtTime(t), 'S'),
        K(f'{c}__findRoots_x', [kind], lambda s: s._findRoots('x'), 'LS', libm=True),
        K(f'{c}__findRoots_y', [kind], lambda s: s._findRoots('y'), 'LS', libm=True),
    ]
    if kind == 'seg2':
        ks += [K(f'{c}_curvatureAtTime', [kind, 't'], lambda s, t: s.curvatureAtTime(t), 'S')]
    if kind != 'seg2':
        ks += [K(f'{c}_derivative', [kind], lambda s: s.derivative(), {'seg3': 'seg2', 'seg4': 'seg3'}[kind]),
               K(f'{c}_curvatureAtTime', [kind, 't'], lambda s, t: s.curvatureAtTime(t), 'S', tol=1e-12, libm=True),
               K(f'{c}__findDRoots', [kind], lambda s: s._findDRoots(), 'LS'),
               K(f'{c}__curve_line_intersections_t', [kind, 'seg2'], lambda s, l: list(s._curve_line_intersections_t(l)), 'LS', libm=True),
               K(f'{c}__curve_line_intersections', [kind, 'seg2'], lambda s, l: s._curve_line_intersections(l), 'LIX', libm=True)]
    return ks


# path/geometricshapes.py (Gen/Shapes.v): the path is compared through asSegments(); the `@default` kernels call Python
# WITHOUT the superness argument and the generated definition with the generated module constant
SHAPE_KERNELS = [
    K('geometricshapes_CIRCULAR_SUPERNESS', [], lambda: GS.CIRCULAR_SUPERNESS, 'S'),
    K('geometricshapes_Rectangle', ['size', 'size', 'OP'], lambda w, h, o: GS.Rectangle(w, h, origin=o), 'Lseg2'),
    K('geometricshapes_Square', ['size', 'OP'], lambda w, o: GS.Square(w, origin=o), 'Lseg2'),
    K('geometricshapes_Ellipse', ['size', 'size', 'OP', 'sup'], lambda a, b, o, s: GS.Ellipse(a, b, origin=o, superness=s), 'Lseg4'),
    K('geometricshapes_Circle', ['size', 'OP', 'sup'], lambda a, o, s: GS.Circle(a, origin=o, superness=s), 'Lseg4'),
    K('geometricshapes_Ellipse', ['size', 'size', 'OP'], lambda a, b, o: GS.Ellipse(a, b, o), 'Lseg4', name='geometricshapes_Ellipse@default',
      term=lambda ops, cargs: f'geometricshapes_Ellipse {ops} {cargs} (geometricshapes_CIRCULAR_SUPERNESS {ops})'),
    K('geometricshapes_Circle', ['size', 'OP'], lambda a, o: GS.Circle(a, o), 'Lseg4', name='geometricshapes_Circle@default',
      term=lambda ops, cargs: f'geometricshapes_Circle {ops} {cargs} (geometricshapes_CIRCULAR_SUPERNESS {ops})'),
]
# boundingbox.py BoundingBox.extend (receiver: option bbox, None = corners unset) and segment.py Segment.bounds
BOUNDS_KERNELS = [
    K('BBox_extend_Point', ['OBB', 'P'], lambda b, p: (b.extend(p), b)[1], 'OBB'),
    K('BBox_extend_BBox', ['OBB', 'BB'], lambda b, o: (b.extend(o), b)[1], 'OBB'),
    K('Line_bounds', ['seg2'], lambda s: s.bounds(), 'OBB'),
    K('Quad_bounds', ['seg3'], lambda s: s.bounds(), 'OBB'),
    K('Cubic_bounds', ['seg4'], lambda s: s.bounds(), 'OBB'),
]
# segment.py Segment.clone / Segment.round (round updates the receiver)
SEGMENT_KERNELS = [K(f'{CLS[kd]}_clone', [kd], lambda s: s.clone(), kd) for kd in ('seg2', 'seg3', 'seg4')] + \
                  [K(f'{CLS[kd]}_round', [kd], lambda s: (s.round(), s)[1], kd) for kd in ('seg2', 'seg3', 'seg4')]
# utils/curvefitter.py (Gen/Fit.v); estimateBi updates its argument bez
FIT_KERNELS = [
    K('curvefitter_B0', ['t'], CF.B0, 'S'), K('curvefitter_B1', ['t'], CF.B1, 'S'),
    K('curvefitter_B2', ['t'], CF.B2, 'S'), K('curvefitter_B3', ['t'], CF.B3, 'S'),
    K('CurveFit_computeHook', ['P', 'P', 't', 'seg4', 'S'], lambda a, b, t, bez, c: float(CF.CurveFit.computeHook(a, b, t, bez, c)), 'S'),
    K('CurveFit_estimateBi', ['seg4', 'LP', 'LS'], lambda bez, data, u: (CF.CurveFit.estimateBi(bez, data, u), bez)[1], 'seg4'),
    K('CurveFit_chordLengthParameterize', ['LP2'], lambda pts: CF.CurveFit.chordLengthParameterize(pts), 'LS'),
]
NEW_KERNELS = SHAPE_KERNELS + BOUNDS_KERNELS + SEGMENT_KERNELS + FIT_KERNELS
# utils/samplemixin.py (Gen/Sample.v): the definitions with `while` loops take the fuel first (FUEL iterations per loop
# invocation; the generators keep every loop far below it, and an `option` result None -- out of fuel -- never agrees)
FUEL = 5000
def fuelled(name): return lambda ops, cargs: f'{name} {ops} {FUEL} {cargs}'
def sample_kernels(kd):
    c = CLS[kd]
    return [K(f'{c}_sample', ['s' + kd, 'nsamp'], lambda s, n: s.sample(n), 'OLP', term=fuelled(f'{c}_sample')),
            K(f'{c}_regularSampleTValue', ['s' + kd, 'nsamp'], catching(lambda s, n: s.regularSampleTValue(n)), 'OXLS', term=fuelled(f'{c}_regularSampleTValue')),
            K(f'{c}_regularSample', ['s' + kd, 'nsamp'], catching(lambda s, n: s.regularSample(n)), 'OXLP', term=fuelled(f'{c}_regularSample'))]
SAMPLE_KERNELS = sample_kernels('seg2') + sample_kernels('seg3') + sample_kernels('seg4')
# path/__init__.py BezierPath.length / pointAtTime / lengthAtTime over `list (segment T)`
PATH_KERNELS = [
    K('Path_length', ['PATH'], lambda p: p.length, 'S'),
    K('Path_pointAtTime', ['PATH', 'pt'], catching(lambda p, t: p.pointAtTime(t), floor=True), 'XP'),
    K('Path_lengthAtTime', ['PATH', 'pt'], catching(lambda p, t: p.lengthAtTime(t), floor=True), 'XS'),
    # SampleMixin on a path: pointAtTime / lengthAtTime can raise inside the loops
    K('Path_sample', ['SPATH', 'nsamp'], catching(lambda p, n: p.sample(n), floor=True), 'OXLP', term=fuelled('Path_sample')),
    K('Path_regularSampleTValue', ['SPATH', 'nsamp'], catching(lambda p, n: p.regularSampleTValue(n), floor=True), 'OXLS', term=fuelled('Path_regularSampleTValue')),
    K('Path_regularSample', ['SPATH', 'nsamp'], catching(lambda p, n: p.regularSample(n), floor=True), 'OXLP', term=fuelled('Path_regularSample')),
    # the flatteners: lists of Lines compared WITH their _orig attribute (gedge_feq of PREAMBLE)
    K('Line_flatten', ['EDGE', 'degree'], lambda l, d: l.flatten(d), 'LE'),
    K('Quad_flatten', ['sseg3', 'degree'], lambda s, d: s.flatten(d), 'OLE', term=fuelled('Quad_flatten')),
    K('Cubic_flatten', ['sseg4', 'degree'], catching(lambda s, d: s.flatten(d)), 'OXLE', term=fuelled('Cubic_flatten')),
]
NEW_KERNELS2 = SAMPLE_KERNELS + PATH_KERNELS
# round 3 -- path/representations (Gen/Nodelist.v): IndexError of segments[0] / nodelist[firstOncurve], ValueError("Unknown segment type")
def _SR():
    from beziers.path.representations.Segment import SegmentRepresentation
    return SegmentRepresentation
NODELIST_KERNELS = [
    K('SegRep_toNodelist', ['SREP'], catching(lambda r: r.toNodelist()), 'XLNODE'),
    K('SegRep_appendSegment', ['SREP', 'LXY'], catching(lambda r, seg: (r.appendSegment(seg), r)[1], floor=True), 'XSREP'),
    K('SegRep_fromNodelist', ['PCLOSED', 'LNODE'], catching(lambda p, nl: _SR().fromNodelist(p, nl), floor=True), 'XSREP'),
]
# round 3 -- utils/linesweep.py (Gen/Sweep.v)
def _dequefilter(deck, cond):
    from collections import deque
    from beziers.utils.linesweep import dequefilter
    d = deque(deck)
    dequefilter(d, cond.py)
    return list(d)
def _bbox_intersections(sa, sb):
    from beziers.utils.linesweep import bbox_intersections
    return bbox_intersections(sa, sb)
SWEEP_KERNELS = [
    K('linesweep_dequefilter', ['DECK', 'COND'], catching(_dequefilter), 'XDECK'),
    K('linesweep_bbox_intersections', ['SHAPES', 'SHAPES'], catching(_bbox_intersections), 'XLSS'),
]
# round 3 -- path/__init__.py splitAtPoints / addExtremes (Gen/Split.v); ZeroDivisionError of mapx (a split at exactly 1.0 followed by
# another one) is not modelled: those cases are dropped by cross_check, as every ZeroDivisionError is
SPLIT_KERNELS = [
    K('Path_splitAtPoints', ['SPLITPATH', 'SPLITLIST'], lambda p, sl: (p.splitAtPoints(sl), p)[1], 'OLSEG', term=fuelled('Path_splitAtPoints')),
    K('Path_addExtremes', ['SPLITPATH'], lambda p: p.addExtremes(), 'OLSEG', term=fuelled('Path_addExtremes')),
]
NEW_KERNELS3 = NODELIST_KERNELS + SWEEP_KERNELS + SPLIT_KERNELS
# round 4 -- utils/intersectionsmixin.py (Gen/CurveCurve.v): the recursion runs on FUEL4 nested calls (Python needs far fewer: the boxes
# shrink below the area threshold, or the ranges collapse and `assert lo < hi` fails, long before); the abstract format parameter
# is instantiated with the exact binary64 key of Hand/CurveCurve.v ("%.2f" % x as (class, hundredths), compared by keyF_eqb)
FUEL4 = 200
def keyed(name): return lambda ops, cargs: f'{name} {ops} key2F keyF_eqb {FUEL4} {cargs}'
def _asserting(f):
    def g(*a):
        try: return f(*a)
        except AssertionError: return PyRaised('PyAssertionError')
    return g
class Dispatched:
    """the result of Segment.intersections, and whether the generated definition for this pair of classes carries the effects"""
    def __init__(self, value, fuelled): self.value, self.fuelled = value, fuelled
    def __repr__(self): return repr(self.value)
def _intersections(a, b, limited):
    r = _asserting(lambda: a.intersections(b, limited=limited))()
    return Dispatched(r, len(a.points) > 2 and len(b.points) > 2)
CURVECURVE_KERNELS = []
for _a in ('seg3', 'seg4'):
    for _b in ('seg3', 'seg4'):
        _n = f'{CLS[_a]}__curve_curve_intersections_t_{CLS[_b]}'
        CURVECURVE_KERNELS.append(K(_n, ['RNG' + _a[3], 'RNG' + _b[3]], _asserting(lambda a, b: [tuple(t) for t in a._curve_curve_intersections_t(b)]), 'OXLTT', term=keyed(_n)))
        _n = f'{CLS[_a]}__curve_curve_intersections_{CLS[_b]}'
        CURVECURVE_KERNELS.append(K(_n, ['curve' + _a[3], 'curve' + _b[3]], _asserting(lambda a, b: a._curve_curve_intersections(b)), 'OXLIX', term=keyed(_n)))
for _a in ('seg2', 'seg3', 'seg4'):
    for _b in ('seg2', 'seg3', 'seg4'):
        _n = f'{CLS[_a]}_intersections_{CLS[_b]}'
        _ka = _a if _a == 'seg2' else 'curve' + _a[3]
        _kb = _b if _b == 'seg2' else 'curve' + _b[3]
        CURVECURVE_KERNELS.append(K(_n, [_ka, _kb, 'B'], _intersections, 'LIX4', libm=True, term=keyed(_n) if 'seg2' not in (_a, _b) else None))
# round 4 -- utils/curvedistance.py (Gen/MinDist.v).  The recursion runs on FUEL_MD nested calls.
#   curvedistance_minDist: the generated control flow, for the nine pairs of classes: len(bez1), len(bez2) from the pair; S from the
#     table of the S(u, v) values the real run computed (bit-exact keys; a missing key is a NaN: a model that left the real run's path
#     cannot agree by accident -- `**` inside S is libm pow, which the generated powi does not reproduce bit for bit); D the GENERATED
#     table (exact arithmetic only).  Compared: (distance, t1, t2) of c.minDist() and the final c.bestAlpha / c.iterations.
#   curvedistance_curveDistance_X_Y: the wrappers, with the GENERATED S as well; on the Python side `**` in basis_function (libm pow) is
#     replaced by the repeated multiplication the generated S performs (_curve_distance): then every operation is exact and the
#     comparison is bit for bit.
FUEL_MD = 100
class Finder:
    def __init__(self, value, best, iterations, s_table): self.value, self.best, self.iterations, self.s_table = value, best, iterations, s_table
    def __repr__(self): return f'{self.value} best={self.best} iterations={self.iterations}'
def _min_dist(a, b):
    from props import C20
    with C20.Recorder() as rec:
        from beziers.utils.curvedistance import MinimumCurveDistanceFinder
        c = MinimumCurveDistanceFinder(a, b)
        try: val = C20.limited(lambda: c.minDist(), 2.0)
        except C20.Timeout: raise ValueError('timeout')          # (dropped: the unpruned recursion is exponential for some touching operands)
    if c.iterations > 1500 or rec.maxdepth + 1 > FUEL_MD: raise ValueError('too deep')
    return Finder(tuple(float(x) for x in val), c.bestAlpha, c.iterations, rec.s_table())
def _powi(x, k):
    """Base/Ops.v powi: x ** k by repeated multiplication from the left"""
    if k == 0: return 1
    r = x
    for _ in range(k - 1): r = r * x
    return r
def _curve_distance(a, b):
    """the real curveDistance, with the one operation the generated S cannot reproduce bit for bit -- `**` in basis_function, libm pow --
    replaced by what Gen/CurveDist.v computes instead (powi); everything else (minDist, the caches, S, D, C_rk, ..) is the library's own code"""
    from props import C20
    from beziers.utils import curvedistance as CD
    orig = CD.basis_function
    CD.basis_function = lambda n, i, u: CD.C(i, n) * _powi(1 - u, n - i) * _powi(u, i)
    try:
        with C20.Recorder() as rec:
            try: val = C20.limited(lambda: CD.curveDistance(a, b), 2.0)
            except C20.Timeout: raise ValueError('timeout')
    finally:
        CD.basis_function = orig
    if rec.finder.iterations > 1500 or rec.maxdepth + 1 > FUEL_MD: raise ValueError('too deep')
    return tuple(float(x) for x in val)
def g_mdseg(order):
    def g(rng): return gen.KINDS[order](*[Point(rng.uniform(-300, 300), rng.uniform(-300, 300)) for _ in range(order)])
    return g
for _o in (2, 3, 4): GEN[f'md{_o}'] = g_mdseg(_o); KIND[f'md{_o}'] = f'seg{_o}'
MINDIST_KERNELS = []
for _a in (2, 3, 4):
    for _b in (2, 3, 4):
        MINDIST_KERNELS.append(K('curvedistance_minDist', [f'md{_a}', f'md{_b}'], _min_dist, 'MINDIST', name=f'curvedistance_minDist@{_a}x{_b}',
            termv=(lambda a_, b_: lambda ops, cargs, val: f'curvedistance_minDist {ops} {a_} {b_} (s_lookup4 {val.s_table}) (table_get (curvedistance_D_{a_}_{b_} {ops} {cargs})) {FUEL_MD} (None, 0%Z) (0%float, 1%float) (0%float, 1%float) 0x1.0624dd2f1a9fcp-10%float')(_a, _b)))
        _n = f'curvedistance_curveDistance_{CLS["seg%d" % _a]}_{CLS["seg%d" % _b]}'
        MINDIST_KERNELS.append(K(_n, [f'md{_a}', f'md{_b}'], _curve_distance, 'OXSSS',
                                 term=(lambda nm: lambda ops, cargs: f'{nm} {ops} {FUEL_MD} {cargs}')(_n)))
# round 4 -- path/__init__.py (Gen/Winding.v): closed paths and query points of tools/props/C11.py (random / star-shaped / bowtie / near-vertical /
# far from the origin; queries inside, outside, level with nodes and crossings), sometimes an empty path (addMargin adds a Point to None)
def _none_raising(f):
    def g(*a):
        import io, contextlib
        try:
            with contextlib.redirect_stdout(io.StringIO()): return f(*a)
        except (TypeError, AttributeError): return PyRaised('PyNoneError')
    return g
def g_wpath(rng):
    from props import C11
    from beziers.path import BezierPath
    r = rng.random()
    if r < 0.04: cps = []
    elif r < 0.80: cps = C11.gen_path(rng)[1]
    elif r < 0.88: cps = C11.gen_bowtie(rng)[1]
    elif r < 0.92: cps = C11.gen_near_vertical(rng)[1]
    elif r < 0.96: cps = C11.gen_far_offset(rng)[1]
    else: cps = C11.gen_huge(rng)[1]
    path = BezierPath.fromSegments(C11.to_segments(cps)) if cps else BezierPath.fromSegments([])
    path._cps = cps
    return path
GEN['WPATH'] = g_wpath; KIND['WPATH'] = 'PATH'
WINDING_KERNELS = [
    K('Path_bounds', ['WPATH'], _none_raising(lambda p: p.bounds()), 'XOBB'),
    K('Path_windingNumberOfPoint', ['WPATH', 'P'], _none_raising(lambda p, q: p.windingNumberOfPoint(q)), 'XZ', libm=True),
    K('Path_pointIsInside', ['WPATH', 'P'], _none_raising(lambda p, q: p.pointIsInside(q)), 'XB', libm=True),
]
NEW_KERNELS4 = CURVECURVE_KERNELS + MINDIST_KERNELS + WINDING_KERNELS
# round 5 -- the path-level drivers (Gen/PathOps.v)
#   Path_flatten / signed_area / area / direction: a path as (segments with their `_orig`, closed); the loops run on FUEL iterations;
#     IndexError of rSamples[-1] (a cubic with a NaN coordinate) is `Raises PyIndexError`
#   Path_getSelfIntersections: the Intersections with BOTH their segments; the format parameter instantiated as in round 4; FUEL4 nested calls;
#     AssertionError (coordinates ~1e30) is `Raises PyAssertionError`
#   Path_distanceToPath: one fuel for the sampling loops and the recursion of minDist (FUEL_MD); `**` of basis_function replaced by powi on the
#     Python side as for curvedistance_curveDistance_X_Y; an empty path is UnboundLocalError = `Raises PyUnboundLocalError`
def g_tpath(rng):
    """paths for BezierPath.flatten: the families of tools/props/C17.py (shapes, open / closed chains, staircases, paths that were flattened
    before -- their lines carry an _orig --, teardrops), the sampling-loop paths of round 2 (sometimes empty, with a NaN / zero-length segment), a
    random `closed` flag, sometimes a Line tagged by hand"""
    from props import C17
    from beziers.path import BezierPath
    r = rng.random()
    if r < 0.55:
        p = C17.gen_path(rng)[1]
        if p.length > 1500: p = g_spath(rng)
    else: p = g_spath(rng)
    if rng.random() < 0.5: p.closed = rng.random() < 0.5
    if rng.random() < 0.08:
        # a cubic with a NaN coordinate somewhere in the path: regularSampleTValue ends in rSamples[-1] of an empty list (IndexError)
        segs = list(p.asSegments())
        c = gen.segment(rng, order=4)[0]
        q = c.points[rng.randrange(4)]
        if rng.random() < 0.5: q.x = math.nan
        else: q.y = math.nan
        segs.insert(rng.randrange(len(segs) + 1), c)
        cl = p.closed
        p = BezierPath.fromSegments(segs); p.closed = cl
    for x in p.asSegments():
        if len(x.points) == 2 and not hasattr(x, '_orig') and rng.random() < 0.25: x._orig = gen.segment(rng)[0]
    return p
def g_sipath(rng):
    """paths for getSelfIntersections: the closed chains of tools/props/C06.py (1..6 mixed segments, looping cubics), sometimes empty, rarely
    with coordinates ~1e30 (AssertionError in the curve-curve recursion)"""
    from props import C06
    from beziers.path import BezierPath
    r = rng.random()
    if r < 0.04: segs = []
    elif r < 0.10:
        k = rng.choice([3, 4])
        a = gen.KINDS[k](*[Point(rng.uniform(-1e30, 1e30), rng.uniform(-1e30, 1e30)) for _ in range(k)])
        segs = [a, crossing_partner(rng, a, rng.choice([3, 4]))]
        if rng.random() < 0.5: segs.insert(0, Line(Point(0.0, 0.0), Point(10.0, 5.0)))
    else: segs = [C20fl(x) for x in C06.gen_path_segments(rng)]
    return BezierPath.fromSegments(segs)
def C20fl(x):
    from props import C20
    return C20.fl(x)
def g_dpath(rng):
    """(placeholder: the pair of paths for distanceToPath is made in special_args)"""
    from beziers.path import BezierPath
    return BezierPath.fromSegments([])
def g_dsamp(rng): return rng.choice([10, 10, 10.0, 5, 4.0, 3, 2, 1, 7.5, 16])
GEN['TPATH'] = g_tpath; GEN['SIPATH'] = g_sipath; KIND['SIPATH'] = 'PATH'; GEN['DPATH'] = g_dpath; KIND['DPATH'] = 'PATH'; GEN['dsamp'] = g_dsamp; KIND['dsamp'] = 'S'
def _distance_to_path(p, q, samples):
    from props import C20
    from beziers.utils import curvedistance as CD
    orig = CD.basis_function
    CD.basis_function = lambda n, i, u: CD.C(i, n) * _powi(1 - u, n - i) * _powi(u, i)
    try:
        with C20.Recorder() as rec:
            try: val = C20.limited(lambda: p.distanceToPath(q, samples), 3.0)
            except C20.Timeout: raise ValueError('timeout')
            except UnboundLocalError: return PyRaised('PyUnboundLocalError')
    finally:
        CD.basis_function = orig
    if rec.finder is not None and (rec.finder.iterations > 1500 or rec.maxdepth + 1 > FUEL_MD): raise ValueError('too deep')
    return (float(val[0]), float(val[1]), float(val[2]), val[3], val[4])
PATHOPS_KERNELS = [
    K('Path_flatten', ['TPATH', 'degree'], catching(lambda p, d: p.flatten(d)), 'OXFLAT', term=fuelled('Path_flatten')),
    K('Path_getSelfIntersections', ['SIPATH'], _asserting(lambda p: p.getSelfIntersections()), 'OXLIXSS', libm=True, term=keyed('Path_getSelfIntersections')),
    K('Path_distanceToPath', ['DPATH', 'DPATH', 'dsamp'], _distance_to_path, 'OXDIST',
      term=lambda ops, cargs: f'Path_distanceToPath {ops} {FUEL_MD} {cargs}'),
    K('Path_signed_area', ['TPATH'], catching(lambda p: p.signed_area), 'OXS', term=fuelled('Path_signed_area')),
    K('Path_area', ['TPATH'], catching(lambda p: p.area), 'OXS', term=fuelled('Path_area')),
    K('Path_direction', ['TPATH'], catching(lambda p: float(p.direction)), 'OXS', term=fuelled('Path_direction')),
]
NEW_KERNELS5 = PATHOPS_KERNELS
# round 6 -- the curve fitter (Gen/Fit.v): every definition written with checked arithmetic; the loops run on FUEL6 iterations, the recursion of
# _fitCurve on DEPTH6 nested calls (Python's RecursionError -- the corner re-entry that never ends -- is the model's None).  Strokes: the
# families of tools/props/C14.py cut to at most 16 points (smooth, noisy, polylines, zigzags, repeats, closed, hash pairs, ..), also NOT
# deduplicated, coincident, of length 0 / 1 / 2; error also negative (ValueError of math.sqrt) and cornerTolerance 0 / negative
# (ZeroDivisionError of computeHook); budgets from 0.
FUEL6, DEPTH6 = 200, 80
def _r6(f, recursion=False):
    def g(*a):
        try: return f(*a)
        except IndexError: return PyRaised('PyIndexError')
        except ZeroDivisionError: return PyRaised('PyZeroDivisionError')
        except ValueError: return PyRaised('PyValueError')
        except TypeError: return PyRaised('PyTypeError')
        except RecursionError:
            if not recursion: raise
            return PyRaised('OutOfFuel')
    return g
def fuel6(name): return lambda ops, cargs: f'{name} {ops} {FUEL6} {cargs}'
def depth6(name): return lambda ops, cargs: f'{name} {ops} {FUEL6} {DEPTH6} {cargs}'
def g_stroke(rng):
    """point sequences for the fitter: the families of tools/props/C14.py, at most 16 points; sometimes coincident / very short / empty"""
    from props import C14
    fam, pts = C14.points_family(rng, n=rng.choice([2, 3, 3, 4, 5, 6, 8, 10, 13, 16]))
    pts = pts[:16]
    r = rng.random()
    if r < 0.06: pts = [pts[0]] * rng.randint(1, 4)
    elif r < 0.09: pts = []
    elif r < 0.14: pts = pts[:rng.randint(1, 3)]
    return [Point(x, y) for x, y in pts]
def g_tangent(rng):
    a = rng.uniform(0, 6.283)
    return rng.choice([None, None, Point(0.0, 0.0), Point(math.cos(a), math.sin(a)), Point(1.0, 0.0)])
def g_fiterror(rng): return rng.choice([0.01, 1.0, 50.0, 1e4, 10 ** rng.uniform(-2, 4), 10 ** rng.uniform(-2, 4), 0.0, -1e-9, -1.0 if rng.random() < 0.3 else 5.0])
def g_fitct(rng): return rng.choice([0.1, 1.0, 20.0, 100.0, 10 ** rng.uniform(-1, 2), 10 ** rng.uniform(-1, 2), 0.0, -1.0 if rng.random() < 0.3 else 2.0])
def g_budget(rng): return rng.choice([0, 1, 2, 3, 5, 8, 20, 20, 40, rng.randint(1, 30)])
def g_center(rng): return rng.choice([0, 1, 1, 2, 2, 3, 4, 5, 7, -1, -2, 16, rng.randint(-3, 17)])
def g_unit(rng):
    a = rng.uniform(0, 6.283)
    return rng.choice([Point(math.cos(a), math.sin(a)), Point(1.0, 0.0), Point(0.0, 0.0), Point(0.0, -1.0)])
GEN.update({'STROKE': g_stroke, 'TANGENT': g_tangent, 'fiterror': g_fiterror, 'fitct': g_fitct, 'BUDGET': g_budget, 'CENTER': g_center, 'UNIT': g_unit})
KIND.update({'STROKE': 'LP', 'TANGENT': 'OP', 'fiterror': 'S', 'fitct': 'S', 'BUDGET': 'Z', 'CENTER': 'Z', 'UNIT': 'P'})
_CFc = CF.CurveFit
def _params_after(f):
    """a CurveFit method that updates a list argument in place: the list afterwards"""
    def g(*a):
        f(*a); return a[-1]
    return g
FIT6_KERNELS = [
    K('Point___matmul__', ['P', 'P'], lambda a, b: a @ b, 'S'),
    K('CurveFit_computeHook_zd', ['P', 'P', 't', 'seg4', 'S'], _r6(lambda a, b, t, bez, c: float(_CFc.computeHook(a, b, t, bez, c))), ('R6', 'X', 'S')),
    K('CurveFit_chordLengthParameterize_zd', ['STROKE'], _r6(lambda pts: _CFc.chordLengthParameterize(pts)), ('R6', 'X', 'LS')),
    K('CurveFit_fitLine', ['STROKE', 'TANGENT', 'TANGENT'], _r6(lambda d, a, b: _CFc.fitLine(d, a, b)), ('R6', 'X', 'seg4')),
    K('CurveFit__leftTangent', ['STROKE'], _r6(lambda d: _CFc._leftTangent(d)), ('R6', 'X', 'P')),
    K('CurveFit__rightTangent', ['STROKE'], _r6(lambda d: _CFc._rightTangent(d)), ('R6', 'X', 'P')),
    K('CurveFit_centerTangent', ['STROKE', 'CENTER'], _r6(lambda d, c: _CFc.centerTangent(d, c)), ('R6', 'X', 'P'), libm=True),
    K('CurveFit_leftTangent', ['STROKE', 'fiterror'], _r6(lambda d, t: _CFc.leftTangent(d, t)), ('R6', 'OX', 'P'), term=fuel6('CurveFit_leftTangent')),
    K('CurveFit_rightTangent', ['STROKE', 'fiterror'], _r6(lambda d, t: _CFc.rightTangent(d, t)), ('R6', 'OX', 'P'), term=fuel6('CurveFit_rightTangent')),
    K('CurveFit_estimateLengths', ['STROKE', 'LS', 'UNIT', 'UNIT'], _r6(lambda d, u, a, b: _CFc.estimateLengths(d, u, a, b)), ('R6', 'X', 'seg4')),
    K('CurveFit_generateBezier', ['STROKE', 'LS', 'TANGENT', 'TANGENT', 'fiterror'], _r6(lambda d, u, a, b, e: _CFc.generateBezier(d, u, a, b, e)), ('R6', 'OX', 'seg4'),
      term=fuel6('CurveFit_generateBezier')),
    K('CurveFit_newtonRaphsonFind', ['seg4', 'P', 't'], _r6(lambda bez, p, u: float(_CFc.newtonRaphsonFind(bez, p, u))), ('R6', 'O', 'S'), term=fuel6('CurveFit_newtonRaphsonFind')),
    K('CurveFit_reparameterize', ['seg4', 'STROKE', 'LS'], _r6(_params_after(lambda bez, pts, u: _CFc.reparameterize(bez, pts, u))), ('R6', 'OX', 'LS'),
      term=fuel6('CurveFit_reparameterize')),
    K('CurveFit_computeMaxError', ['seg4', 'STROKE', 'LS', 'S', 'fitct'], _r6(lambda bez, pts, u, tol, ct: _CFc.computeMaxError(bez, pts, u, tol, ct)), ('R6', 'X', 'SZ')),
    K('CurveFit__fitCurve', ['STROKE', 'TANGENT', 'TANGENT', 'fiterror', 'fitct', 'BUDGET'],
      _r6(lambda pts, a, b, e, ct, B: _CFc._fitCurve(pts, a, b, e, ct, B), recursion=True), ('R6', 'OX', 'OLseg4'), libm=True, term=depth6('CurveFit__fitCurve')),
    K('CurveFit_fitCurve', ['STROKE', 'fiterror', 'fitct', 'BUDGET'],
      _r6(lambda pts, e, ct, B: _CFc.fitCurve(pts, e, ct, B), recursion=True), ('R6', 'OX', 'OLseg4'), libm=True, term=depth6('CurveFit_fitCurve')),
    K('Path_fromPoints', ['STROKE', 'fiterror', 'fitct', 'BUDGET'],
      _r6(lambda pts, e, ct, B: _BP().fromPoints(pts, e, ct, B), recursion=True), ('R6', 'OX', 'PATHC4'), libm=True, term=depth6('Path_fromPoints')),
]
def _BP():
    from beziers.path import BezierPath
    return BezierPath
# round 6 -- the Boolean-operation glue (Gen/Clip.v): clip / union / intersection / difference run on the real implementation with the recorder of
# tools/props/clipglue.py around pyclipper (no repo edits).  The abstract parameters of the generated definitions are instantiated with
#   toZ     := g_F_toZ (int() of a binary64, None outside Clipper's range / for nan, inf; PREAMBLE)
#   clipper := the table of the recorded Execute call (cliptype, subject paths, clip paths as Clipper received them -> its answer); a call that
#              was not recorded answers [[]] (an empty polygon: the model then raises IndexError, it never agrees by accident); when Python
#              raised ClipperException (AddPath refused a path) the parameter is the constant None
#   fmt_2f / keq := key2F / keyF_eqb as in rounds 4 and 5; FUEL for the loops and the curve-curve recursion.
# Compared: the list of result paths (segments class by class, control points bit for bit, order, closed flag) or the exception.
class ClipRun:
    def __init__(self, value, ctbl, clipper_raised): self.value, self.ctbl, self.clipper_raised = value, ctbl, clipper_raised
    def __repr__(self): return repr(self.value) if isinstance(self.value, PyRaised) else 'paths ' + repr([len(p.asSegments()) for p in self.value])
CT6 = {0: 'Ct_intersection', 1: 'Ct_union', 2: 'Ct_difference', 3: 'Ct_xor'}
def _clip_run(op):
    def g(a, b, *rest):
        from props import clipglue as cg
        import pyclipper
        if op == 'clip':
            ct, flat = rest
            real = cg.BezierPath.clip
            run = cg.record_clip(a, b, 'union', flat) if False else None
            # record_clip calls getattr(a, op)(b, flat=flat): route `clip` through a temporary method that fixes the clip type
            name = '_clip_ct_%d' % ct
            setattr(cg.BezierPath, name, lambda self, other, flat=False: self.clip(other, ct, flat))
            try: run = cg.record_clip(a, b, name, flat)
            finally: delattr(cg.BezierPath, name)
        else:
            (flat,) = rest
            run = cg.record_clip(a, b, op, flat)
        rec = run['rec']
        if run['raised'] in ('ZeroDivisionError', 'RecursionError'): raise ZeroDivisionError(run['raised'])      # not modelled in Gen (mapx of splitAtPoints): dropped
        exc = {'IndexError': 'PyIndexError', 'ClipperException': 'PyClipperError', 'ValueError': 'PyConvertError', 'OverflowError': 'PyConvertError',
               'AssertionError': 'PyAssertionError'}
        if run['raised'] is not None and run['raised'] not in exc: raise TypeError(run['raised'])
        ctbl = '[]'
        if rec.execute and rec.execute[0]['result'] is not None:
            subj = [[(int(x), int(y)) for x, y in ap['path']] for ap in rec.addpath if ap['poly_type'] == pyclipper.PT_SUBJECT]
            clp = [[(int(x), int(y)) for x, y in ap['path']] for ap in rec.addpath if ap['poly_type'] == pyclipper.PT_CLIP]
            e = rec.execute[0]
            ctbl = f"[({CT6[e['clip_type']]}, {cg.czpolys(subj)}, {cg.czpolys(clp)}, Some {cg.czpolys(e['result'])})]"
        val = PyRaised(exc[run['raised']]) if run['raised'] is not None else run['result']
        return ClipRun(val, ctbl, run['raised'] == 'ClipperException')
    return g
def clip_term(name):
    def t(ops, cargs, val):
        clipper = '(fun _ _ _ => None)' if val.clipper_raised else f'(g_clipper_tbl {val.ctbl})'
        return f'{name} {ops} key2F keyF_eqb g_F_toZ {clipper} {FUEL} {cargs}'
    return t
def g_clippath(rng):
    """(placeholder: the pair of paths is made in special_args)"""
    from beziers.path import BezierPath
    return BezierPath.fromSegments([])
def g_cliptype(rng): return rng.choice([0, 1, 2, 3])
GEN.update({'CLIPPATH': g_clippath, 'CLIPTYPE': g_cliptype}); KIND.update({'CLIPPATH': 'PATH', 'CLIPTYPE': 'CT'})
CLIP6_KERNELS = [
    K('Path_clip', ['CLIPPATH', 'CLIPPATH', 'CLIPTYPE', 'B'], _clip_run('clip'), ('R6', 'OX', 'LPATHC'), libm=True, termv=clip_term('Path_clip')),
    K('Path_union', ['CLIPPATH', 'CLIPPATH', 'B'], _clip_run('union'), ('R6', 'OX', 'LPATHC'), libm=True, termv=clip_term('Path_union')),
    K('Path_intersection', ['CLIPPATH', 'CLIPPATH', 'B'], _clip_run('intersection'), ('R6', 'OX', 'LPATHC'), libm=True, termv=clip_term('Path_intersection')),
    K('Path_difference', ['CLIPPATH', 'CLIPPATH', 'B'], _clip_run('difference'), ('R6', 'OX', 'LPATHC'), libm=True, termv=clip_term('Path_difference')),
]
SEGEQ6_KERNELS = [K(f'{CLS[a]}___eq___{CLS[b]}', [a, b], (lambda x, y: x == y), 'B') for a in ('seg2', 'seg3', 'seg4') for b in ('seg2', 'seg3', 'seg4')]
NEW_KERNELS6 = FIT6_KERNELS + SEGEQ6_KERNELS + CLIP6_KERNELS
# round 7 -- cubicbezier.py CubicBezier.tOfPoint (Gen/Lookup.v): the sampled lookup; IndexError of regularSampleTValue's rSamples[-1] (a NaN length)
# is `Raises PyIndexError`.  Cubics of length about 5 .. 600 (short ones, straight ones, rarely of length 0 or with a NaN): the sampling loops run
# about `length` iterations, far below FUEL; the refinement loop runs 11 times.
def g_lcubic(rng):
    fam = rng.choice(['random', 'random', 'random', 'short', 'short', 'straight', 'straight', 'axis', 'gentle', 'gentle', 'int'] + (['zero', 'nan'] if rng.random() < 0.25 else []))
    for _ in range(200):
        if fam in ('random', 'int', 'nan'):
            sc = rng.choice([3, 10, 30, 60, 100, 150])
            pts = [Point(float(rng.randint(-sc, sc)), float(rng.randint(-sc, sc))) if fam == 'int' else Point(rng.uniform(-sc, sc), rng.uniform(-sc, sc)) for _ in range(4)]
        elif fam == 'short':
            o = Point(rng.uniform(-100, 100), rng.uniform(-100, 100))
            pts = [o + Point(rng.uniform(-4, 4), rng.uniform(-4, 4)) for _ in range(4)]
        elif fam in ('straight', 'axis'):
            L = rng.choice([5.0, 8.0, 16.0, 50.0, 64.0, 100.0, 300.0, 512.0, rng.uniform(5, 600), float(rng.randint(5, 600))])
            o = Point(float(rng.randint(-50, 50)), float(rng.randint(-50, 50))) if rng.random() < 0.5 else Point(rng.uniform(-50, 50), rng.uniform(-50, 50))
            a = rng.uniform(0, 2 * math.pi)
            d = rng.choice([(1.0, 0.0), (0.0, 1.0), (-1.0, 0.0), (0.0, -1.0), (0.6, 0.8), (-0.8, 0.6)]) if fam == 'axis' else (math.cos(a), math.sin(a))
            ts = rng.choice([[0.0, 1 / 3, 2 / 3, 1.0], [0.0, 0.25, 0.75, 1.0], [0.0, rng.random(), rng.random(), 1.0], [0.0, 0.0, 1.0, 1.0], [0.0, 0.9, 0.1, 1.0]])
            pts = [Point(o.x + d[0] * L * t, o.y + d[1] * L * t) for t in ts]
        elif fam == 'gentle':
            L = rng.uniform(5, 600); a = rng.uniform(0, 2 * math.pi); b = rng.uniform(-0.6, 0.6)
            o = Point(rng.uniform(-50, 50), rng.uniform(-50, 50))
            e = Point(L * math.cos(a), L * math.sin(a)); nrm = Point(-math.sin(a), math.cos(a))
            pts = [o, o + e * (1 / 3) + nrm * (b * L * rng.uniform(0.2, 0.5)), o + e * (2 / 3) + nrm * (b * L * rng.uniform(0.2, 0.5)), o + e]
        else:      # zero
            q = (float(rng.randint(-50, 50)), float(rng.randint(-50, 50)))
            pts = [Point(*q) for _ in range(4)]
        c = CubicBezier(*pts)
        if fam == 'nan':
            q = c.points[rng.randrange(4)]
            if rng.random() < 0.5: q.x = math.nan
            else: q.y = math.nan
            return c
        if fam == 'zero' or (5.0 <= c.length <= 600.0 and (fam != 'short' or c.length <= 25.0)): return c
    return c
GEN['lcubic'] = g_lcubic
KIND['lcubic'] = 'seg4'
NEW_KERNELS7 = [K('Cubic_tOfPoint', ['lcubic', 'P'], catching(lambda s, q: s.tOfPoint(q)), 'OXS', term=fuelled('Cubic_tOfPoint'))]

KERNELS = {k.name: k for k in (
    [K('Point___add__', ['P', 'P'], lambda a, b: a + b, 'P'), K('Point___sub__', ['P', 'P'], lambda a, b: a - b, 'P'),
     K('Point___mul__', ['P', 'S'], lambda a, k: a * k, 'P'), K('Point_dot', ['P', 'P'], lambda a, b: a.dot(b), 'S'),
     K('Point_lerp', ['P', 'P', 't'], lambda a, b, t: a.lerp(b, t), 'P'),
     K('Point___eq__', ['P', 'P'], lambda a, b: a == b, 'B'),
     K('Point_squareMagnitude', ['P'], lambda a: a.squareMagnitude, 'S'), K('Point_magnitude', ['P'], lambda a: a.magnitude, 'S'),
     K('Point_toUnitVector', ['P'], lambda a: a.toUnitVector(), 'P'),
     K('Point_angle', ['P'], lambda a: a.angle, 'S', libm=True),
     K('Point_fromAngle', ['angle'], lambda a: Point.fromAngle(a), 'P', libm=True),
     K('Point_rotated', ['P', 'P', 'angle'], lambda p, c, a: p.rotated(c, a), 'P', libm=True),
     K('Point_squareDistanceFrom', ['P', 'P'], lambda a, b: a.squareDistanceFrom(b), 'S'),
     K('Point_distanceFrom', ['P', 'P'], lambda a, b: a.distanceFrom(b), 'S'),
     K('Point_transformed', ['P', 'M'], lambda p, m: p.transformed(m), 'P'),
     K('Point_rounded', ['P'], lambda p: p.rounded(), 'P'),
     K('utils_quadraticRoots', ['S', 'S', 'S'], lambda a, b, c: quadraticRoots(a, b, c), 'LS'),
     K('Affine_apply', ['M', 'M'], lambda a, b: (a.apply(b), a)[1], 'M'),
     K('Affine_apply_backwards', ['M', 'M'], lambda a, b: (a.apply_backwards(b), a)[1], 'M'),
     K('Affine_translation', ['P'], lambda v: AffineTransformation.translation(v), 'M'),
     K('Affine_translate', ['M', 'P'], lambda m, v: (m.translate(v), m)[1], 'M'),
     K('Affine_scaling', ['S', 'OS'], lambda a, b: AffineTransformation.scaling(a, b), 'M'),
     K('Affine_scale', ['M', 'S', 'OS'], lambda m, a, b: (m.scale(a, b), m)[1], 'M'),
     K('Affine_reflect', ['M'], lambda m: (m.reflect(), m)[1], 'M'),
     K('Affine_rotation', ['angle'], lambda a: AffineTransformation.rotation(a), 'M', libm=True),
     K('Affine_rotate', ['M', 'angle'], lambda m, a: (m.rotate(a), m)[1], 'M', libm=True),
     K('Affine_invert', ['M'], lambda m: (m.invert(), m)[1], 'M'),
     K('BBox_includes', ['BB', 'P'], lambda b, p: b.includes(p), 'B'),
     K('BBox_overlaps', ['BB', 'BB'], lambda a, b: a.overlaps(b), 'B'),
     K('BBox_area', ['BB'], lambda b: b.area, 'S'),
     K('Line_tOfPoint', ['seg2', 'P', 'B'], lambda s, p, b: s.tOfPoint(p, b), 'S'),
     K('Line_slope', ['seg2'], lambda s: s.slope, 'S'), K('Line_intercept', ['seg2'], lambda s: s.intercept, 'S'),
     K('Line__line_line_intersections', ['seg2', 'seg2'], lambda a, b: a._line_line_intersections(b), 'LIX'),
     K('Quad_tOfPoint', ['seg3', 'P'], lambda s, p: s.tOfPoint(p), 'S'),
     K('Quad_findExtremes', ['seg3'], lambda s: s.findExtremes(), 'LS'),
     K('Quad_toCubicBezier', ['seg3'], lambda s: s.toCubicBezier(), 'seg4'),
     K('Cubic_findExtremes_False', ['seg4'], lambda s: s.findExtremes(), 'LS'),
     K('Cubic_hasLoop', ['seg4'], lambda s: s.hasLoop, 'OSS'),
     ] + seg_kernels('seg2') + seg_kernels('seg3') + seg_kernels('seg4') + NEW_KERNELS + NEW_KERNELS2 + NEW_KERNELS3 + NEW_KERNELS4 + NEW_KERNELS5 + NEW_KERNELS6 + NEW_KERNELS7)}

# comparison of flattened edges: the line and its _orig (None, or the curve it was cut from, class included)
PREAMBLE = '''From Coq Require FloatOps SpecFloat.
Definition gsegment_feq (a b : segment float) : bool :=
  match a, b with SLine x, SLine y => seg2_feq x y | SQuad x, SQuad y => seg3_feq x y | SCubic x, SCubic y => seg4_feq x y | _, _ => false end.
Definition gedge_feq (a b : seg2 float * option (segment float)) : bool :=
  seg2_feq (fst a) (fst b) && match snd a, snd b with None, None => true | Some x, Some y => gsegment_feq x y | _, _ => false end.
Definition gnode_feq (a b : gnode float) : bool := pt_feq (n_point a) (n_point b) && nodetype_eqb (n_type a) (n_type b).
Definition gbox_feq (a b : bbox float) : bool := pt_feq (bl a) (bl b) && pt_feq (tr a) (tr b).
Definition gshape_feq (a b : shape float) : bool := Nat.eqb (fst a) (fst b) && gbox_feq (snd a) (snd b).
Definition gitem_feq (a b : shape float * bbox float) : bool := gshape_feq (fst a) (fst b) && gbox_feq (snd a) (snd b).
Definition gpair_feq (a b : shape float * shape float) : bool := gshape_feq (fst a) (fst b) && gshape_feq (snd a) (snd b).
Definition gixss_feq (a b : segment float * segment float * (float * pt float * float)) : bool :=
  gsegment_feq (fst (fst a)) (fst (fst b)) && gsegment_feq (snd (fst a)) (snd (fst b)) && ix_feq (snd a) (snd b).
(* round 6: int() of a binary64 as pyclipper applies it (None: nan, inf, outside +-(2^62 - 1)); the recorded Execute call *)
Definition g_F_truncZ (x : float) : option Z :=
  match FloatOps.Prim2SF x with
  | SpecFloat.S754_zero _ => Some 0%Z
  | SpecFloat.S754_finite s m e =>
      let a := if (0 <=? e)%Z then (Zpos m * 2 ^ e)%Z else (Zpos m / 2 ^ (- e))%Z in
      Some (if s then (- a)%Z else a)
  | _ => None
  end.
Definition g_F_toZ (x : float) : option Z :=
  match g_F_truncZ x with Some z => if (Z.abs z <? 4611686018427387904)%Z then Some z else None | None => None end.
Definition g_zpt_eqb (a b : Z * Z) : bool := (fst a =? fst b)%Z && (snd a =? snd b)%Z.
Definition g_ct_eqb (a b : clip_type) : bool :=
  match a, b with Ct_intersection, Ct_intersection | Ct_union, Ct_union | Ct_difference, Ct_difference | Ct_xor, Ct_xor => true | _, _ => false end.
Fixpoint g_clipper_tbl (tbl : list (clip_type * list (list (Z * Z)) * list (list (Z * Z)) * option (list (list (Z * Z))))) (ct : clip_type) (s c : list (list (Z * Z)))
  : option (list (list (Z * Z))) :=
  match tbl with
  | [] => Some [[]]
  | (ct', s', c', r) :: rest =>
      if g_ct_eqb ct ct' && list_eqb (list_eqb g_zpt_eqb) s s' && list_eqb (list_eqb g_zpt_eqb) c c' then r else g_clipper_tbl rest ct s c
  end.
Fixpoint s_lookup4 (tbl : list (float * float * float)) (u v : float) : float :=
  match tbl with [] => PrimFloat.nan | (u', v', r) :: rest => if fbits_eq u u' && fbits_eq v v' then r else s_lookup4 rest u v end.
'''
IMPORTS = ['Gen.Utils', 'Gen.Point', 'Gen.Affine', 'Gen.BBox', 'Gen.Line', 'Gen.Quad', 'Gen.Cubic', 'Gen.CurveDist', 'Gen.Shapes', 'Gen.Fit', 'Gen.Sample',
           'Gen.Nodelist', 'Gen.Sweep', 'Gen.Split', 'Gen.CurveCurve', 'Gen.MinDist', 'Gen.Winding', 'Gen.PathOps', 'Gen.Clip', 'Gen.Lookup', 'Hand.CurveCurve']      # (Hand.CurveCurve: key2F / keyF_eqb)


def clone_arg(kind, v):
    if kind in ('seg2', 'seg3', 'seg4'): return v.clone()
    if kind in ('RNG3', 'RNG4'):
        c = v.clone(); c._range = list(v._range)
        return c
    if kind == 'M': return AffineTransformation([list(r) for r in v.matrix])
    if kind in ('P', 'OP') and v is not None: return v.clone()
    if kind == 'LP': return [x.clone() for x in v]
    if kind == 'LS': return list(v)
    if kind == 'PATH':
        from beziers.path import BezierPath
        return BezierPath.fromSegments([x.clone() for x in v.asSegments()])
    if kind == 'TPATH':
        from beziers.path import BezierPath
        segs = []
        for x in v.asSegments():
            c = x.clone()
            if hasattr(x, '_orig'): c._orig = x._orig
            segs.append(c)
        q = BezierPath.fromSegments(segs); q.closed = v.closed
        return q
    if kind == 'EDGE':
        l = v.clone()
        if hasattr(v, '_orig'): l._orig = v._orig
        return l
    if kind == 'SREP':
        from beziers.path import BezierPath
        from beziers.path.representations.Segment import SegmentRepresentation
        p = BezierPath(); p.closed = v.path.closed
        return SegmentRepresentation(p, [x.clone() for x in v.segments])
    if kind == 'LXY': return list(v)
    if kind == 'LNODE':
        from beziers.path.representations.Nodelist import Node
        return [Node(n.x, n.y, n.type) for n in v]
    if kind in ('BB', 'OBB'):
        b = BoundingBox()
        if v.bl is not None: b.bl, b.tr = v.bl.clone(), v.tr.clone()
        return b
    return v


def special_args(k, rng, args):
    """make some inputs land on the interesting sets: points on the segment for tOfPoint, lines crossing curves"""
    name = k.coq
    if name == 'Cubic_tOfPoint':
        # round 7: query points ON the curve at a random t (ends and sample-grid values included), near it, or anywhere
        s = args[0]; r = rng.random()
        if any(x != x for q in s.points for x in (q.x, q.y)): return args
        if r < 0.7: args[1] = s.pointAtTime(rng.choice([rng.random(), rng.random(), rng.random(), gen.tvalue(rng), rng.randint(0, 50) / 50.0]))
        elif r < 0.88:
            w = rng.choice([1e-9, 0.01, 1.0, 10.0])
            args[1] = s.pointAtTime(rng.random()) + Point(rng.uniform(-w, w), rng.uniform(-w, w))
        return args
    if name.endswith('_tOfPoint') and rng.random() < 0.7:
        s = args[0]; t = gen.tvalue(rng)
        args[1] = s.pointAtTime(t)
    if name.endswith('_line_intersections') or name.endswith('_line_intersections_t'):
        if rng.random() < 0.8:
            s = args[0]
            a = s.pointAtTime(rng.random()); b = s.pointAtTime(rng.random())
            d = Point(rng.uniform(-50, 50), rng.uniform(-50, 50))
            args[1] = Line(a + d, a + d * -1.0)
    if name == 'CurveFit_computeHook':
        a, b, t, bez, c = args
        d = bez.pointAtTime(t).distanceFrom(a.lerp(b, 0.5))   # both sides of `dist < cornerTolerance`, and the boundary
        args[4] = rng.choice([d, d * 2 + 1.0, d / 2, abs(c), 0.0, -a.distanceFrom(b)])
    if name == 'CurveFit_estimateBi':
        bez, data, u = args
        if rng.random() < 0.7:   # usually as many parameters as points, as _fitCurve calls it
            u = sorted(rng.random() for _ in data)
            if u: u[0] = 0.0
            if len(u) > 1 and rng.random() < 0.7: u[-1] = 1.0
            args[2] = u
        if data and rng.random() < 0.5:   # data near the curve
            args[1] = [bez.pointAtTime(rng.random()) + Point(rng.uniform(-2, 2), rng.uniform(-2, 2)) for _ in data]
    if name in ('CurveFit_estimateLengths', 'CurveFit_generateBezier', 'CurveFit_reparameterize', 'CurveFit_computeMaxError'):
        # round 6: parameters and curve as _fitCurve makes them (chord-length parameters of the stroke, the fitted cubic), sometimes arbitrary
        i_pts = {'CurveFit_estimateLengths': 0, 'CurveFit_generateBezier': 0, 'CurveFit_reparameterize': 1, 'CurveFit_computeMaxError': 1}[name]
        i_u = i_pts + 1
        pts = args[i_pts]
        if rng.random() < 0.85:
            try: u = CF.CurveFit.chordLengthParameterize(pts)
            except ZeroDivisionError: u = [0.0] * len(pts)
            if rng.random() < 0.3: u = [min(1.0, max(0.0, x + rng.uniform(-0.02, 0.02))) for x in u]
            args[i_u] = u
        elif rng.random() < 0.5: args[i_u] = args[i_u][:len(pts)]
        if i_pts == 1 and rng.random() < 0.8 and len(pts) >= 2:
            try: args[0] = CF.CurveFit.generateBezier(pts, CF.CurveFit.chordLengthParameterize(pts), None, None, 1.0)
            except Exception: pass
        if name == 'CurveFit_computeMaxError': args[3] = rng.choice([math.sqrt(abs(g_fiterror(rng)) + 1e-9), 1.0, 0.1, 0.0 if rng.random() < 0.3 else 7.0])
    if name == 'CurveFit_newtonRaphsonFind' and rng.random() < 0.7:
        bez, pnt, u = args
        args[1] = bez.pointAtTime(min(1.0, max(0.0, u + rng.uniform(-0.2, 0.2)))) + Point(rng.uniform(-3, 3), rng.uniform(-3, 3))
    if name == 'CurveFit_computeHook_zd':
        a, b, t, bez, c = args
        d = bez.pointAtTime(t).distanceFrom(a.lerp(b, 0.5))
        args[4] = rng.choice([d, d * 2 + 1.0, d / 2, abs(c), 0.0, -a.distanceFrom(b), -a.distanceFrom(b)])
        if rng.random() < 0.15: args[1] = args[0].clone(); args[4] = 0.0      # allowed = 0: ZeroDivisionError
    if '___eq___' in name and len(args[0].points) == len(args[1].points) and rng.random() < 0.7:
        # round 6: Segment.__eq__ is Point.__eq__ (isclose, 1e-9 relative) point by point: equal, nearly equal, one point off
        b = args[0].clone()
        r = rng.random()
        if r < 0.4:
            q = b.points[rng.randrange(len(b.points))]
            q.x = q.x * (1 + rng.choice([1e-10, -5e-10, 2e-9, 1e-8])) if q.x else rng.choice([0.0, -0.0, 1e-300])
        elif r < 0.6:
            q = b.points[rng.randrange(len(b.points))]; q.y = q.y + rng.choice([1.0, -1e-3, 1e-12])
        args[1] = b
    if name in ('Path_clip', 'Path_union', 'Path_intersection', 'Path_difference'):
        # round 6: the pairs of shapes of tools/props/clipglue.py (crossing, nested, disjoint, touching; lines, quadratics, cubics), sometimes a
        # path too short for Clipper (ClipperException) or an empty one
        from props import clipglue as cg
        from beziers.path import BezierPath
        A, B, _m = cg.gen_pair(rng, big=False if rng.random() < 0.9 else None)
        r = rng.random()
        if r < 0.06: B = BezierPath.fromSegments(list(B.asSegments())[:rng.choice([0, 1, 2])])
        elif r < 0.12: A = BezierPath.fromSegments(list(A.asSegments())[:rng.choice([0, 1, 2])])
        args[0], args[1] = A, B
    if name == 'Path_splitAtPoints': args[1] = g_splitlist_for(rng, args[0])
    if name in ('Path_windingNumberOfPoint', 'Path_pointIsInside') and getattr(args[0], '_cps', None):
        from props import C11
        q = C11.gen_queries(rng, C11.Geo(args[0]._cps), 1)[0][1]
        args[1] = Point(*q)
    if name == 'Path_distanceToPath':
        # round 5: the pairs of paths of tools/props/C20.py (disjoint, touching, crossing, identical, degenerate, near), sometimes an empty path
        from props import C20
        from beziers.path import BezierPath
        s1, s2 = C20.path_pair(rng, rng.random() < 0.4, rng.choice(['identical', 'touch', 'cross', 'degenerate', 'near', 'other', 'other']))
        r = rng.random()
        if r < 0.05: s1 = []
        elif r < 0.10: s2 = []
        elif r < 0.12: s1, s2 = [], []
        args[0], args[1] = BezierPath.fromSegments([C20.fl(x) for x in s1]), BezierPath.fromSegments([C20.fl(x) for x in s2])
    if name.startswith('curvedistance_minDist') or name.startswith('curvedistance_curveDistance'):
        # round 4: the operand families of tools/props/C20.py (disjoint, touching, crossing, identical, overlapping, degenerate, near, far-gap)
        from props import C20
        a, b = C20.seg_pair(rng, len(args[0].points), len(args[1].points), False, rng.choice(C20.MODES))
        if len(a.points) == len(args[0].points) and len(b.points) == len(args[1].points): args[0], args[1] = C20.fl(a), C20.fl(b)
    if '_curve_curve_intersections' in name or '_intersections_' in name:
        # round 4: usually the second operand crosses the first; rarely coordinates ~1e30 (the boxes never get small: AssertionError);
        # for the recursion itself sometimes pieces with hand-set ranges
        a, b = args[0], args[1]
        r = rng.random()
        if r < 0.04 and len(a.points) > 2 and len(b.points) > 2:
            a = gen.KINDS[len(a.points)](*[Point(rng.uniform(-1e30, 1e30), rng.uniform(-1e30, 1e30)) for _ in a.points])
            b = crossing_partner(rng, a, len(b.points))
        elif r < 0.75:
            if len(a.points) == 2 and len(b.points) > 2:
                m = b.pointAtTime(rng.uniform(0.1, 0.9)); d = Point(rng.uniform(-300, 300), rng.uniform(-300, 300)); u = rng.uniform(0.2, 0.8)
                a = Line(m + d * -u, m + d * (1 - u))
            else: b = crossing_partner(rng, a, len(b.points))
        if name.split('_')[2:5] == ['curve', 'curve', 'intersections'] and name.split('_')[5:6] == ['t'] and rng.random() < 0.2:
            for c in (a, b):
                lo = rng.choice([0.0, 0.25, 0.5, rng.random() * 0.9]); c._range = [lo, lo + rng.choice([0.5, 0.25, 0.1, 2.0 ** -20, 2.0 ** -51]) * (1 - lo)]
        args[0], args[1] = a, b
    if name == 'BBox_extend_Point' and args[0].bl is not None and rng.random() < 0.6:
        b = args[0]   # points on the edges / at the corners / just inside and outside
        xs = [b.bl.x, b.tr.x, (b.bl.x + b.tr.x) / 2, b.bl.x - 1.0, b.tr.x + 0.5, rng.uniform(b.bl.x - 3, b.tr.x + 3)]
        ys = [b.bl.y, b.tr.y, (b.bl.y + b.tr.y) / 2, b.bl.y - 0.5, b.tr.y + 1.0, rng.uniform(b.bl.y - 3, b.tr.y + 3)]
        args[1] = Point(rng.choice(xs), rng.choice(ys))
    if name == 'Line__line_line_intersections' and rng.random() < 0.3:
        s = args[0]
        x = rng.choice([s[0].x, rng.uniform(-100, 100)])
        args[1] = Line(Point(x, rng.uniform(-500, 500)), Point(x, rng.uniform(-500, 500)))
    return args


def cross_check(pid, names, n_per, rng, tag='kern', per_file=400, timeout=600):
    """returns the run_case_files result extended with distribution/samples/first_disagreement"""
    px = proxy()
    cases, meta, dist = [], [], {}
    for nm in names:
        k = KERNELS[nm]
        made = raised = 0
        tries = 0
        while made < n_per and tries < n_per * 3:
            tries += 1
            args = [GEN[a](rng) for a in k.args]
            args = special_args(k, rng, args)
            kinds = [KIND.get(a, a) for a in k.args]
            cargs = ' '.join(carg(kd, v) for kd, v in zip(kinds, args))
            px.take()
            try:
                val = k.py(*[clone_arg(kd, v) for kd, v in zip(kinds, args)])
            except (ZeroDivisionError, ValueError, OverflowError, RecursionError) as e:
                raised += 1
                continue
            tbl = px.take()
            ops = f'(FOpsT {vlib.clibm(tbl)})' if k.libm else 'FOps'
            try:
                got = k.termv(ops, cargs, val) if k.termv else (k.term(ops, cargs) if k.term else f'{k.coq} {ops} {cargs}')
                cases.append(cmp_expr(k.ret, got, val, k.tol))
            except TypeError:
                raised += 1; continue
            meta.append({'kernel': nm, 'args': [repr(a) if not hasattr(a, 'matrix') else a.matrix for a in args], 'python': repr(val)[:200]})
            made += 1
        dist[nm] = {'cases': made, 'python_raised': raised}
    res = vlib.run_case_files(pid, tag, IMPORTS, PREAMBLE, cases, per_file=per_file, timeout=timeout)
    res['python_outcomes'] = {}
    for m in meta:
        o = m['python'] if m['python'].startswith('raised ') else 'returned'
        res['python_outcomes'].setdefault(m['kernel'], {}).setdefault(o, 0)
        res['python_outcomes'][m['kernel']][o] += 1
    res['distribution'] = dist
    res['kinds'] = {'kernels': len(names)}
    res['samples'] = meta[:2]
    if res['failing']:
        res['first_disagreement'] = [meta[i] for i in res['failing'][:3]]
        fk = {}
        for i in res['failing']: fk[meta[i]['kernel']] = fk.get(meta[i]['kernel'], 0) + 1
        res['failing_kernels'] = fk
    return res


def merge_cross_check(res, pid, names, n_per, rng, label='regenerated-kernels', per_file=50, timeout=1500):
    """run the kernel cross-check for `names` and fold its counts into the correspondence result `res` of a property module
    (small case files: the kernels of the later rounds -- subdivision, fitter, clip glue -- take seconds per case inside Coq; the files run in parallel)"""
    k = cross_check(pid, names, n_per, rng, tag='kern_' + ''.join(ch for ch in label if ch.isalnum())[-12:], per_file=per_file, timeout=timeout)
    res['n'] += k['n']; res['agree'] += k['agree']
    res['errors'] = list(res.get('errors') or []) + list(k.get('errors') or [])
    res.setdefault('distribution', {})[label] = {d: v['cases'] for d, v in k['distribution'].items()}
    res.setdefault('kinds', {})['kernels'] = res.get('kinds', {}).get('kernels', 0) + len(names)
    if k['failing'] and not res.get('first_disagreement'):
        res['first_disagreement'] = k.get('first_disagreement')
    if k['failing']:
        res['failing'] = list(res.get('failing') or []) + [-1 - i for i in k['failing'][:5]]     # negative: kernel cases, not the module's own list
    return res
