#!/usr/bin/env python3
"""Kernel cross-check of the definitions added to the translator in the third round:

  Gen/Nodelist.v   SegmentRepresentation.toNodelist / appendSegment / fromNodelist (path/representations/Segment.py) over the
                   records `gnode` / `segrep` -- node types "line" / "curve" / "offcurve" as the three-constructor `nodetype`,
                   IndexError (self.segments[0], nodelist[firstOncurve] on an empty list) and ValueError("Unknown segment
                   type") as `Raises`;
  Gen/Sweep.v      dequefilter / bbox_intersections (utils/linesweep.py): shapes as (identity tag, bounds), the instruction tuples
                   with `verb` / `activelist` as bools, the closures expanded, `sorted(key=)` as the stable insertion sort;
  Gen/Split.v      BezierPath.splitAtPoints / addExtremes (path/__init__.py): the dict keyed by segment value as an association
                   list, the `while` loop with fuel kernels.FUEL (None -- out of fuel -- never agrees); inputs on which Python
                   raises ZeroDivisionError (a split at exactly 1.0 followed by another) are dropped, as in every kernel.

Every definition is executed on floats inside Coq (vm_compute) and compared with the Python function it was generated from,
structure for structure and bit for bit, on N random inputs each (default 120).

    cd <verif> && PYTHONPATH=/repo/src PYTHONHASHSEED=0 /venv/bin/python tools/bridge_check3.py [N] [seed] [name-substring]

Exit status 0 iff every case of every kernel agrees (and every kernel produced at least N cases)."""
import sys, os, json, random
sys.path.insert(0, os.path.dirname(os.path.abspath(__file__)))
import vlib, kernels


def main():
    n = int(sys.argv[1]) if len(sys.argv) > 1 else 120
    seed = int(sys.argv[2]) if len(sys.argv) > 2 else 20260930
    sub = sys.argv[3] if len(sys.argv) > 3 else ''
    names = [k.name for k in kernels.NEW_KERNELS3 if sub in k.name]
    res = kernels.cross_check('BRIDGE3', names, n, random.Random(seed), tag='bridge3')
    short = {d: v['cases'] for d, v in res['distribution'].items() if v['cases'] < n}
    ok = res['n'] == res['agree'] and not res['failing'] and not res['errors'] and not short
    print(json.dumps({'kernels': len(names), 'cases': res['n'], 'agree': res['agree'], 'failing': res['failing'][:10],
                      'failing_kernels': res.get('failing_kernels'), 'first_disagreement': res.get('first_disagreement'),
                      'errors': [e[-800:] for e in res['errors']], 'short_of_cases': short,
                      'python_outcomes': res.get('python_outcomes')}))
    print('BRIDGE3 CROSS-CHECK', 'PASS' if ok else 'FAIL')
    return 0 if ok else 1


if __name__ == '__main__':
    sys.exit(main())
