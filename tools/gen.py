"""Structured input generators shared by the correspondence and search stages (one PRNG: ctx.rng)."""
import math
from beziers.point import Point
from beziers.line import Line
from beziers.quadraticbezier import QuadraticBezier
from beziers.cubicbezier import CubicBezier

KINDS = {2: Line, 3: QuadraticBezier, 4: CubicBezier}
FAMILIES = ['int', 'float', 'grid', 'collinear', 'coincident', 'big', 'tiny', 'near', 'smallint']


def coords(rng, fam, n):
    """n points of a family"""
    if fam == 'int':
        return [(float(rng.randint(-500, 500)), float(rng.randint(-500, 500))) for _ in range(n)]
    if fam == 'float':
        return [(rng.uniform(-1000, 1000), rng.uniform(-1000, 1000)) for _ in range(n)]
    if fam == 'grid':
        xs = [float(rng.randint(-5, 5) * 100) for _ in range(2)]
        ys = [float(rng.randint(-5, 5) * 100) for _ in range(2)]
        return [(rng.choice(xs), rng.choice(ys)) for _ in range(n)]
    if fam == 'collinear':
        a = (rng.uniform(-500, 500), rng.uniform(-500, 500)); d = (rng.uniform(-100, 100), rng.uniform(-100, 100))
        return [(a[0] + d[0] * k, a[1] + d[1] * k) for k in (rng.uniform(-2, 2) for _ in range(n))]
    if fam == 'coincident':
        base = [(float(rng.randint(-200, 200)), float(rng.randint(-200, 200))) for _ in range(2)]
        return [rng.choice(base) for _ in range(n)]
    if fam == 'big':
        return [(rng.uniform(-1e6, 1e6), rng.uniform(-1e6, 1e6)) for _ in range(n)]
    if fam == 'near':
        # distinct points that the library's tolerance equality (1e-9 relative) still calls equal, mixed with ordinary ones
        base = [(float(rng.randint(-900000, 900000)), float(rng.randint(-900, 900))) for _ in range(2)]
        out = []
        for _ in range(n):
            b = rng.choice(base)
            out.append((b[0] * (1 + rng.choice([0, 0, 4e-10, -3e-10])), b[1] * (1 + rng.choice([0, 0, 5e-10]))))
        return out
    if fam == 'smallint':
        # CPython: hash(-1.0) == hash(-2.0); tiny integer grids exercise hash/equality based shortcuts
        return [(float(rng.randint(-2, 2)), float(rng.randint(-2, 2))) for _ in range(n)]
    if fam == 'tiny':
        return [(rng.uniform(-1e-3, 1e-3), rng.uniform(-1e-3, 1e-3)) for _ in range(n)]
    raise ValueError(fam)


def segment(rng, order=None, fam=None):
    order = order or rng.choice([2, 3, 4])
    fam = fam or rng.choice(FAMILIES)
    pts = [Point(x, y) for x, y in coords(rng, fam, order)]
    return KINDS[order](*pts), fam


def tvalue(rng):
    r = rng.random()
    if r < 0.08: return 0.0
    if r < 0.16: return 1.0
    if r < 0.3: return rng.choice([0.5, 0.25, 0.75, 0.125, 0.2, 0.1, 1 / 3])
    if r < 0.36: return rng.choice([1 - 2.0 ** -31, 1 - 1e-10, 2.0 ** -31, 1e-12, 1 - 2.0 ** -52])    # within 1e-9 of an end, not at it
    return rng.random()


def seg_key(s):
    return tuple((p.x, p.y) for p in s.points)


def seg_json(s):
    return {'kind': type(s).__name__, 'points': [[p.x, p.y] for p in s.points]}


def seg_from_json(j):
    pts = [Point(x, y) for x, y in j['points']]
    return KINDS[len(pts)](*pts)


def nondegenerate(s):
    ks = {(p.x, p.y) for p in s.points}
    return len(ks) > 1


# ----------------------------------------------------------------------------- freshness (stale state) oracle
def fresh_copy(s):
    return KINDS[len(s.points)](*[Point(p.x, p.y) for p in s.points])


def canon(v):
    """comparable, exact image of a query result"""
    if v is None or isinstance(v, (bool, int, str)): return v
    if isinstance(v, float): return v.hex() if v == v else 'nan'
    if isinstance(v, Point): return ('P', canon(v.x), canon(v.y))
    if hasattr(v, 'points'): return (type(v).__name__,) + tuple(canon(p) for p in v.points)
    if hasattr(v, 'bl') and hasattr(v, 'tr'): return ('BB', canon(v.bl), canon(v.tr))
    if hasattr(v, 'matrix'): return ('M',) + tuple(canon(float(x)) for r in v.matrix for x in r)
    if isinstance(v, (list, tuple)): return tuple(canon(x) for x in v)
    if hasattr(v, 't1') and hasattr(v, 't2'): return ('I', canon(v.t1), canon(v.t2), canon(v.point))
    return repr(v)


def edit_in_place(rng, s):
    """one of the in-place edits the API offers on a segment (or on its mutable Point objects); returns its description"""
    k = rng.randrange(7)
    i = rng.randrange(len(s.points))
    if k == 4:
        s.points[i].x += rng.choice([1.0, -7.5, 40.25]); s.points[i].y -= rng.choice([2.0, 3.25, 60.0])
        return f'seg[{i}].x += ..; seg[{i}].y -= ..  (Point mutated in place)'
    if k == 5:
        s.points[i] += Point(rng.choice([3.0, -12.5, 80.0]), rng.choice([1.5, -40.0]))      # Point.__iadd__ mutates the Point object
        return f'seg[{i}] += <vector>  (Point.__iadd__)'
    if k == 6:
        s.points[i].rotate(Point(10.0, -5.0), 0.7)
        return f'seg[{i}].rotate(..)  (Point mutated in place)'
    if k == 0:
        s[i] = Point(s[i].x + rng.choice([1.0, -7.5, 0.25, 100.0]), s[i].y + rng.choice([2.0, -3.25, 50.0]))
        return f'seg[{i}] = <new point>'
    if k == 1:
        s.round(); return 'seg.round()'
    if k == 2:
        s.points = [Point(p.y, p.x + 1.0) for p in s.points]; return 'seg.points = <new list>'
    if len(s.points) == 4:
        try:
            s.balance(); return 'seg.balance()'
        except Exception:
            pass
    s[i] = Point(s[i].x * 0.5 + 3.0, s[i].y); return f'seg[{i}] = <new point>'


def freshness(rng, s, queries):
    """queries: {name: f(segment)}.  Ask every query (priming any cache), edit the segment in place, ask again and
    compare with the answers of a freshly constructed segment with the same control points.  Returns failure texts."""
    s = fresh_copy(s)
    for q in queries.values():
        try: q(s)
        except Exception: pass
    what = edit_in_place(rng, s)
    f = fresh_copy(s)
    out = []
    for name, q in queries.items():
        try: a = canon(q(s))
        except Exception as e: a = ('raised', type(e).__name__)
        try: b = canon(q(f))
        except Exception as e: b = ('raised', type(e).__name__)
        if a != b: out.append(f'after {what}, {name} on the edited object differs from the same query on a fresh object with the same control points: {a} vs {b}')
    return out


def path_freshness(rng, segs, queries, closed=True, disturb=None):
    """Path-level stale-state oracle.  Build a path from (fresh copies of) segs; ask every query twice -- the second answers must
    equal those of a freshly built path (asking must not change later answers), optionally after the library calls in
    `disturb` --; then edit one segment IN PLACE through the path's own segment list (path.asSegments()[i]...), ask again
    and compare with a freshly built path with the same control points.  Returns failure texts."""
    from beziers.path import BezierPath
    def build(ss):
        p = BezierPath.fromSegments([fresh_copy(x) for x in ss]); p.closed = closed; return p
    def ask(p):
        out = {}
        for name, q in queries.items():
            try: out[name] = canon(q(p))
            except Exception as e: out[name] = ('raised', type(e).__name__)
        return out
    path = build(segs)
    ask(path)
    for d in (disturb or []):
        try: d(path)
        except Exception: pass
    a, b = ask(path), ask(build(segs))
    out = [f'{n} asked again on the same (unedited) path differs from a freshly built equal path: {a[n]} vs {b[n]}' for n in queries if a[n] != b[n]]
    if out: return out
    live = path.asSegments()
    what = edit_in_place(rng, live[rng.randrange(len(live))])
    a, b = ask(path), ask(build(path.asSegments()))
    return [f'after editing a segment of the path in place ({what}), {n} differs from a freshly built path with the same control points: {a[n]} vs {b[n]}'
            for n in queries if a[n] != b[n]]


def closed_contour(rng, n=None, size=300.0, ints=False):
    """segments of a closed star-shaped contour of mixed kinds around a random centre (each segment gets its own Point objects)"""
    import math
    n = n or rng.randint(3, 6)
    cx, cy = rng.uniform(-200, 200), rng.uniform(-200, 200)
    vs = []
    for k in range(n):
        a = 2 * math.pi * k / n + rng.uniform(-0.3, 0.3) / n; r = rng.uniform(0.3, 1.0) * size
        x, y = cx + r * math.cos(a), cy + r * math.sin(a)
        vs.append((float(round(x)), float(round(y))) if ints else (x, y))
    segs = []
    for k in range(n):
        a, b = vs[k], vs[(k + 1) % n]
        kind = rng.choice([2, 3, 4])
        mids = []
        for j in range(1, kind - 1):
            u = j / (kind - 1.0)
            mx, my = a[0] + (b[0] - a[0]) * u, a[1] + (b[1] - a[1]) * u
            f = rng.uniform(-0.1, 0.25)
            mids.append((mx + (mx - cx) * f, my + (my - cy) * f))
        segs.append(KINDS[kind](*[Point(x, y) for x, y in [a] + mids + [b]]))
    return segs


def shared_node_path(rng, n=None, closed=None, ints=False):
    """a connected chain whose neighbouring segments SHARE their common node as one Point object (as after splitAtTime / addExtremes, or a
    polyline built from one list of Points); returns the list of segments"""
    from beziers.point import Point as _P
    n = n or rng.randint(2, 6); closed = rng.random() < 0.5 if closed is None else closed
    def rp(): return _P(float(rng.randint(-300, 300)), float(rng.randint(-300, 300))) if ints else _P(rng.uniform(-300, 300), rng.uniform(-300, 300))
    nodes = [rp() for _ in range(n + (0 if closed else 1))]
    segs = []
    for i in range(n):
        a, b = nodes[i], nodes[(i + 1) % len(nodes)]
        k = rng.choice([2, 3, 4])
        segs.append(KINDS[k](a, *[rp() for _ in range(k - 2)], b))
    return segs
