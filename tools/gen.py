"""Structured input generators shared by the correspondence and search stages (one PRNG: ctx.rng)."""
import math
from beziers.point import Point
from beziers.line import Line
from beziers.quadraticbezier import QuadraticBezier
from beziers.cubicbezier import CubicBezier

KINDS = {2: Line, 3: QuadraticBezier, 4: CubicBezier}
FAMILIES = ['int', 'float', 'grid', 'collinear', 'coincident', 'big', 'tiny']


def coords(rng, fam, n):
    """n points of a family"""
    if fam == 'int':
        return [(float(rng.randint(-500, 500)), float(rng.randint(-500, 500))) for _ in range(n)]
    if fam == 'float':
        return [(rng.uniform(-1000, 1000), rng.uniform(-1000, 1000)) for _ in range(n)]
    if fam == 'grid':
        xs = [float(rng.randint(-5, 5) * 100) for _ in range(2)]
        ys = [float(rng.randint(-5, 5) * 100) for _ in range(2)]
        return [(rng.choice(xs), rng.choice(ys)) for _ in range(n)]
    if fam == 'collinear':
        a = (rng.uniform(-500, 500), rng.uniform(-500, 500)); d = (rng.uniform(-100, 100), rng.uniform(-100, 100))
        return [(a[0] + d[0] * k, a[1] + d[1] * k) for k in (rng.uniform(-2, 2) for _ in range(n))]
    if fam == 'coincident':
        base = [(float(rng.randint(-200, 200)), float(rng.randint(-200, 200))) for _ in range(2)]
        return [rng.choice(base) for _ in range(n)]
    if fam == 'big':
        return [(rng.uniform(-1e6, 1e6), rng.uniform(-1e6, 1e6)) for _ in range(n)]
    if fam == 'tiny':
        return [(rng.uniform(-1e-3, 1e-3), rng.uniform(-1e-3, 1e-3)) for _ in range(n)]
    raise ValueError(fam)


def segment(rng, order=None, fam=None):
    order = order or rng.choice([2, 3, 4])
    fam = fam or rng.choice(FAMILIES)
    pts = [Point(x, y) for x, y in coords(rng, fam, order)]
    return KINDS[order](*pts), fam


def tvalue(rng):
    r = rng.random()
    if r < 0.08: return 0.0
    if r < 0.16: return 1.0
    if r < 0.3: return rng.choice([0.5, 0.25, 0.75, 0.125, 0.2, 0.1, 1 / 3])
    return rng.random()


def seg_key(s):
    return tuple((p.x, p.y) for p in s.points)


def seg_json(s):
    return {'kind': type(s).__name__, 'points': [[p.x, p.y] for p in s.points]}


def seg_from_json(j):
    pts = [Point(x, y) for x, y in j['points']]
    return KINDS[len(pts)](*pts)


def nondegenerate(s):
    ks = {(p.x, p.y) for p in s.points}
    return len(ks) > 1
