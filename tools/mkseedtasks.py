#!/usr/bin/env python3
"""mkseedtasks.py <round> [IDs...] : create a scratch worktree /tmp/wt<round>_<ID> of /repo HEAD per property and write the task file
for the helper session that seeds defects there.  The task file contains the property text only -- nothing from /verif."""
import json, subprocess, os, sys
V = os.path.dirname(os.path.dirname(os.path.abspath(__file__)))
rnd = sys.argv[1]; ids = sys.argv[2:]
props = {}
for l in open(os.path.join(V, 'properties.jsonl')):
    p = json.loads(l); props[p['id']] = p
T = '''# Task: seeded defects for property {pid}

You are helping test a verification harness by producing realistic "seeded defects" for a Python library.
Work ONLY inside this git worktree: {wt}  (a checkout of the library simoncozens/beziers.py, pure Python, source under {wt}/src/beziers).
Do NOT read or touch /verif or /repo.  Do NOT use `git stash` (the stash is shared between worktrees and other sessions are working in sibling worktrees);
to get back to the clean tree use `git checkout -- .`.  Run Python as:
    cd {wt} && PYTHONPATH={wt}/src PYTHONHASHSEED=0 /venv/bin/python ...
The test suite is run with
    cd {wt} && PYTHONPATH={wt}/src /venv/bin/python -m pytest -q -p no:cacheprovider
and on the unchanged tree gives "3 failed, 32 passed" (the 3 failures are known and pre-existing: test_curvature, test_distance2, test_cubic_cubic).

## The property to break (this is all you get)

**{pid}: {title}.**  {statement}

Quantifier: {quant}

Code the property is anchored in: {files}

## What to produce

THREE different, independent changes to the library source (each a separate small patch against the clean worktree HEAD) such that each change
 1. breaks the property above (on the real code, demonstrably);
 2. still imports/compiles and keeps the test suite at exactly the same result (32 passed, the same 3 failed);
 3. looks like a plausible edit a maintainer could make (a refactor, a tidy-up, a well-meant special case, a changed tolerance or comparison presented as robustness, an off-by-one in a rewritten loop, a swapped argument in a helper with symmetric-looking parameters, a changed evaluation order), not sabotage;
 4. needs something SPECIFIC to manifest: an unusual input (particular geometry, degenerate or boundary values, particular magnitudes, integer vs float arguments, negative zero), a multi-step sequence of calls, aliasing between objects, a particular evaluation order, or two cooperating edit sites that each look fine alone.  NOT something that ordinary use (the first obvious call with ordinary inputs) would expose at once.
Make the three changes different in mechanism and, if possible, in the file they touch.  {emphasis}

For each change k in 1..3 write into {wt}/out/k/ :
 - patch.diff : `git diff` output against the clean HEAD (must apply with `git apply` from the worktree root to a clean checkout);
 - demo.py : a small standalone program (uses only the library) that exits 0 on the unchanged library and exits 1 (printing what went wrong) with the change applied.  It must test exactly a consequence of the property statement above, nothing stricter (respect the stated tolerances and the quantifier);
 - meta.json : {{"property": "{pid}", "breaks": "<which clause>", "needs": "<what specific input/sequence is needed to manifest>", "files": [...], "description": "<what the change does and why it looks plausible>"}}.
After writing each patch restore the worktree (`git checkout -- .`) before starting the next; at the end leave the worktree clean (only the untracked out/ directory and this TASK.md).
Verify each yourself: clean tree -> demo exits 0; apply patch -> suite still 32 passed / same 3 failed and demo exits 1; revert.
The library at this commit has some known imperfections: make sure each demo passes on the unchanged tree.

Report back a short summary (one paragraph per change) and confirm the verification you ran.
'''
EMPH = {
 '4': 'AT MOST ONE of the three may be a cache / memoisation / stale-state defect; prefer logic, arithmetic, boundary-condition and control-flow defects for the others.',
 '6': 'NONE of the three should be a cache / memoisation defect, a bare change of a numeric tolerance, a rewrite of quadraticRoots, or a new Point.__bool__ / changed Point.__eq__ (earlier rounds covered those).  Prefer: (a) an edit in one PUBLIC method that only shows through a DIFFERENT public method which calls it (edit a low-level routine so that its own obvious uses still look right); (b) defects that need a HISTORY: a sequence of two or three API calls on the same object (build, query, transform, convert representation, query again), or an object produced by one operation and fed to another; (c) a rarely taken branch (an exception path, an early return, an `else` that ordinary inputs never reach) made subtly wrong; (d) an off-by-one or a swapped pair in index arithmetic over lists of segments / nodes / samples (first vs last element, closed vs open paths, a path with exactly one or exactly two segments); (e) Python-specific slips: integer vs true division, mutable default arguments, `is` vs `==`, iterating a list while modifying it, shadowed loop variables, `sorted` vs `.sort()`, generator consumed twice.',
 '5': 'NONE of the three should be a cache / memoisation / stale-state defect and none should merely change a numeric tolerance: prefer (a) defects in helpers the property depends on only INDIRECTLY (Point arithmetic and equality, the Segment base class, utils, representations), (b) interactions between two methods or two classes (one of Line / QuadraticBezier / CubicBezier treated differently from the others, a path made of a single segment or of two), (c) boundary conditions of rewritten loops and index arithmetic, (d) sign / orientation / operand-order mistakes that cancel for symmetric inputs, (e) integer-vs-float and exactly-representable-vs-rounded inputs.',
}
for pid in (ids or sorted(props)):
    wt = f'/tmp/wt{rnd}_{pid}'
    if not os.path.exists(wt): subprocess.check_call(['git', '-C', '/repo', 'worktree', 'add', '-q', wt, 'HEAD'])
    p = props[pid]
    open(wt + '/TASK.md', 'w').write(T.format(pid=pid, wt=wt, title=p['title'], statement=p['statement'], quant=p['quantifier']['text'],
                                              files=', '.join(p['anchors']['files']), emphasis=EMPH.get(rnd, EMPH['4'])))
    print(wt)
