#!/usr/bin/env python3
"""addprops.py ID Proofs/File.v:lemma1,lemma2 [...] [-- extra imports]
Append statements to an existing coq/Props/<ID>.v: statement text copied from the proof file, proof = `exact lemma`,
Print Assumptions added at the end; the proof module is added to the BZ import line.  (Lemmas declared inside a Section
with Variables/Hypotheses cannot be copied textually: give them as name=<<statement>> by hand instead.)"""
import re, sys, os
V = os.path.dirname(os.path.dirname(os.path.abspath(__file__)))
sys.path.insert(0, os.path.join(V, 'tools'))
from mkprops_lib import split_binders_stmt

pid = sys.argv[1]
rest = sys.argv[2:]
extra = []
if '--' in rest:
    k = rest.index('--'); rest, extra = rest[:k], rest[k + 1:]
p = os.path.join(V, 'coq', 'Props', pid + '.v')
s = open(p).read()
thms, mods = [], []
for spec in rest:
    f, names = spec.split(':', 1)
    mods.append(f[:-2].replace('/', '.'))
    src = open(os.path.join(V, 'coq', f)).read()
    src_nc = re.sub(r'\(\*.*?\*\)', '', src, flags=re.S)
    for nm in names.split(','):
        m = re.search(r'^\s*(?:Lemma|Theorem|Example|Corollary|Remark|Fact)\s+' + re.escape(nm) + r'\b(.*?)\.\s*\n\s*Proof', src_nc, re.S | re.M)
        if not m: raise SystemExit(f'{nm} not found in {f}')
        binders, stmt = split_binders_stmt(m.group(1))
        stmt = ' '.join(stmt.split()); binders = ' '.join(binders.split())
        full = f'forall {binders}, {stmt}' if binders else stmt
        if f'Theorem {pid}_{nm} ' in s: print('already present:', nm); continue
        thms.append((f'{pid}_{nm}', full, nm))
m = re.search(r'^From BZ Require Import (.*?)\.$', s, re.M)
have = m.group(1).split()
add = [x for x in mods + extra if x not in have]
if add: s = s[:m.start()] + 'From BZ Require Import ' + ' '.join(have + add) + '.' + s[m.end():]
i = s.index('\nPrint Assumptions ')
block = ''.join(f'Theorem {t} :\n  {full}.\nProof. exact {nm}. Qed.\n' for t, full, nm in thms)
s = s[:i].rstrip('\n') + '\n' + block + s[i:].rstrip('\n') + '\n' + ''.join(f'Print Assumptions {t}.\n' for t, _, _ in thms)
open(p, 'w').write(s)
print(pid, '+', len(thms), 'theorems')
