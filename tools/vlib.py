"""Shared machinery of the check driver: build, Coq case files, evidence, replays, known findings."""
import os, sys, re, json, time, math, subprocess, hashlib, fcntl, random, shutil
from concurrent.futures import ThreadPoolExecutor

VERIF = os.path.dirname(os.path.dirname(os.path.abspath(__file__)))
COQ = os.path.join(VERIF, 'coq')
WORK = os.path.join(VERIF, 'work')
REPO = os.environ.get('BEZIERS_REPO', '/repo')
NCPU = 16

ALLOWED_AXIOMS = {
    'ClassicalDedekindReals.sig_not_dec', 'ClassicalDedekindReals.sig_forall_dec',
    'FunctionalExtensionality.functional_extensionality_dep', 'Classical_Prop.classic',
    # Coq.Floats.FloatAxioms: the standard library's specification of the primitive binary64 operations (used, through
    # Flocq's IEEE754.PrimFloat bridge, only by the float-instance theorems: Base/FloatCmp.v, Base/FloatErr.v and their clients)
    'FloatAxioms.Prim2SF_valid', 'FloatAxioms.SF2Prim_Prim2SF', 'FloatAxioms.Prim2SF_SF2Prim',
    'FloatAxioms.opp_spec', 'FloatAxioms.abs_spec', 'FloatAxioms.eqb_spec', 'FloatAxioms.ltb_spec', 'FloatAxioms.leb_spec',
    'FloatAxioms.compare_spec', 'FloatAxioms.classify_spec', 'FloatAxioms.mul_spec', 'FloatAxioms.add_spec', 'FloatAxioms.sub_spec',
    'FloatAxioms.div_spec', 'FloatAxioms.sqrt_spec', 'FloatAxioms.of_uint63_spec', 'FloatAxioms.of_int63_spec',
    'FloatAxioms.normfr_mantissa_spec', 'FloatAxioms.frshiftexp_spec', 'FloatAxioms.ldshiftexp_spec',
    'FloatAxioms.next_up_spec', 'FloatAxioms.next_down_spec',
}
# primitive types and operations (Print Assumptions lists them; they are not axioms)
PRIMITIVES_OK = re.compile(r'^(float|int|of_uint63|of_int63|normfr_mantissa|frshiftexp|ldshiftexp|next_up|next_down|add|sub|mul|div|sqrt|abs|opp|eqb|ltb|leb|compare|classify|'
                           r'(PrimFloat|PrimInt63|Leibniz)\.[\w.\']+)$')
# Coq.Numbers.Cyclic.Int63.Uint63: the standard library's specification axioms of the primitive 63-bit integers (reached through ZtoF / of_uint63)
STDLIB_AXIOM_PREFIXES = ('Uint63.',)


# ----------------------------------------------------------------------------- floats -> Coq
def fhex(x):
    x = float(x)
    if math.isnan(x): return 'PrimFloat.nan'
    if math.isinf(x): return 'PrimFloat.infinity' if x > 0 else 'PrimFloat.neg_infinity'
    h = x.hex()
    if h.startswith('-'): return f'(PrimFloat.opp {h[1:]}%float)'
    return f'{h}%float'


def cpt(p):
    return f'(P {fhex(p.x)} {fhex(p.y)})'


def cseg(s):
    pts = ' '.join(cpt(p) for p in s.points)
    return f'({ {2: "L2", 3: "Q3", 4: "C4"}[len(s.points)]} {pts})'


def csegment(s):
    return f'({ {2: "SLine", 3: "SQuad", 4: "SCubic"}[len(s.points)]} {cseg(s)})'


def clist(items):
    return '[' + '; '.join(items) + ']'


def cbool(b):
    return 'true' if b else 'false'


def cmat(m):
    return '(M3 ' + ' '.join(fhex(m[i][j]) for i in range(3) for j in range(3)) + ')'


LIBM_ID = {'cos': 0, 'sin': 1, 'acos': 2, 'atan2': 3, 'pow': 4}


def clibm(table):
    """table: list of (name, a, b, result) recorded by MathProxy"""
    return clist([f'({LIBM_ID[n]}%nat, {fhex(a)}, {fhex(b)}, {fhex(r)})' for n, a, b, r in table])


class MathProxy:
    """stands in for the `math` module inside beziers.* so that libm calls are recorded (DESIGN 2.4)"""

    def __init__(self):
        import math as _m
        self._m = _m
        self.log = []

    def __getattr__(self, name):
        f = getattr(self._m, name)
        if name in LIBM_ID:
            def wrapped(*a):
                r = f(*a)
                self.log.append((name, float(a[0]), float(a[1]) if len(a) > 1 else 0.0, r))
                return r
            return wrapped
        return f

    def take(self):
        l, self.log = self.log, []
        # deduplicate keeping first
        seen, out = set(), []
        for e in l:
            k = (e[0], e[1].hex() if e[1] == e[1] else 'nan', e[2].hex() if e[2] == e[2] else 'nan')
            if k not in seen:
                seen.add(k); out.append(e)
        return out


def install_math_proxy():
    """monkey-patch from outside; no repo hook"""
    import importlib
    proxy = MathProxy()
    for mod in ('beziers.point', 'beziers.line', 'beziers.cubicbezier', 'beziers.affinetransformation',
                'beziers.path', 'beziers.utils.arclengthmixin', 'beziers.utils.curvefitter', 'beziers.utils.curvedistance',
                'beziers.path.geometricshapes'):
        try:
            m = importlib.import_module(mod)
        except Exception:
            continue
        if hasattr(m, 'math'): m.math = proxy
    return proxy


# ----------------------------------------------------------------------------- build
class Lock:
    def __enter__(self):
        os.makedirs(WORK, exist_ok=True)
        self.f = open(os.path.join(WORK, '.lock'), 'w')
        fcntl.flock(self.f, fcntl.LOCK_EX)
        return self

    def __exit__(self, *a):
        fcntl.flock(self.f, fcntl.LOCK_UN); self.f.close()


def sh(cmd, timeout, cwd=None, env=None):
    t0 = time.time()
    try:
        p = subprocess.run(cmd, shell=isinstance(cmd, str), cwd=cwd, env=env, capture_output=True, text=True, timeout=timeout)
        return p.returncode, p.stdout + p.stderr, time.time() - t0
    except subprocess.TimeoutExpired as e:
        out = (e.stdout or b'').decode(errors='replace') if isinstance(e.stdout, bytes) else (e.stdout or '')
        return 124, out + '\nTIMEOUT', time.time() - t0


def regenerate():
    """run the translator on /repo's working tree; returns its meta"""
    sys.path.insert(0, os.path.join(VERIF, 'tools'))
    import importlib, py2v
    importlib.reload(py2v)
    return py2v.generate(os.path.join(COQ, 'Gen'))


def ensure_makefile():
    vs = []
    for d in ('Base', 'Gen', 'Hand', 'Proofs', 'Props'):
        p = os.path.join(COQ, d)
        if os.path.isdir(p):
            vs += sorted(f'{d}/{f}' for f in os.listdir(p) if f.endswith('.v'))
    proj = open(os.path.join(COQ, '_CoqProject.in')).read() + '\n'.join(vs) + '\n'
    pp = os.path.join(COQ, '_CoqProject')
    if not os.path.exists(pp) or open(pp).read() != proj or not os.path.exists(os.path.join(COQ, 'Makefile')):
        open(pp, 'w').write(proj)
        rc, out, _ = sh('coq_makefile -f _CoqProject -o Makefile', 120, cwd=COQ)
        if rc != 0: raise RuntimeError('coq_makefile failed: ' + out)


def make(targets, timeout=1500):
    ensure_makefile()
    rc, out, dt = sh(['make', '-j%d' % NCPU, '-k'] + targets, timeout, cwd=COQ)
    return rc, out, dt


def parse_make_errors(out):
    """list of {file, line, message} from coqc error output"""
    errs = []
    for m in re.finditer(r'File "\./([^"]+)", line (\d+), characters [\d-]+:\nError:\s*(.*?)(?=\n\S|\nmake|\Z)', out, re.S):
        errs.append({'file': m.group(1), 'line': int(m.group(2)), 'message': ' '.join(m.group(3).split())[:400]})
    if not errs and 'TIMEOUT' in out: errs.append({'file': '?', 'line': 0, 'message': 'build timed out'})
    return errs


def lemma_at(file, line):
    """name of the Lemma/Theorem enclosing a line"""
    try:
        lines = open(os.path.join(COQ, file)).read().split('\n')
    except OSError:
        return None
    for i in range(min(line, len(lines)) - 1, -1, -1):
        m = re.match(r'\s*(Lemma|Theorem|Example|Definition|Fixpoint|Corollary)\s+(\w+)', lines[i])
        if m: return m.group(2)
    return None


def forbidden_scan():
    """the development must contain no Admitted/admit/Axiom/...; returns offending lines"""
    bad = []
    pat = re.compile(r'\b(Admitted|admit|Axiom|Axioms|Parameter|Parameters|Conjecture|Admit Obligations|Unset Guard Checking|Unset Positivity|Unset Universe Checking|bypass_check|type-in-type|impredicative-set)\b')
    for d in ('Base', 'Gen', 'Hand', 'Proofs', 'Props'):
        p = os.path.join(COQ, d)
        if not os.path.isdir(p): continue
        for f in sorted(os.listdir(p)):
            if not f.endswith('.v'): continue
            txt = open(os.path.join(p, f)).read()
            txt_nc = re.sub(r'\(\*.*?\*\)', lambda m: ' ' * len(m.group(0)), txt, flags=re.S)
            depth_sections = 0
            for i, ln in enumerate(txt_nc.split('\n'), 1):
                if re.match(r'\s*Section\b', ln): depth_sections += 1
                if re.match(r'\s*End\b', ln) and depth_sections: depth_sections -= 1
                if pat.search(ln): bad.append(f'{d}/{f}:{i}: {ln.strip()[:100]}')
                if depth_sections == 0 and re.match(r'\s*(Variable|Variables|Hypothesis|Hypotheses|Context)\b', ln):
                    bad.append(f'{d}/{f}:{i}: {ln.strip()[:100]} (outside a Section)')
    return bad


def compile_props(pid, timeout=900):
    """compile Props/<pid>.v on its own (dependencies already built) and parse theorems + Print Assumptions"""
    f = f'Props/{pid}.v'
    vo = os.path.join(COQ, f'Props/{pid}.vo')
    if os.path.exists(vo): os.remove(vo)
    ensure_makefile()
    args = ['coqc', '-Q', '.', 'BZ', '-w', '-notation-overridden,-deprecated-hint-without-locality,-deprecated-instance-without-locality,-ambiguous-paths', f]
    rc, out, dt = sh(args, timeout, cwd=COQ)
    src = open(os.path.join(COQ, f)).read()
    src_nc = re.sub(r'\(\*.*?\*\)', '', src, flags=re.S)
    theorems = re.findall(r'^\s*(?:Theorem|Lemma|Corollary|Example)\s+(\w+)', src_nc, re.M)
    printed = re.findall(r'^\s*Print Assumptions\s+(\w+)\s*\.', src_nc, re.M)
    # only `exact`-closed proofs are allowed in Props files
    bodies = re.findall(r'Proof\.(.*?)Qed\.', src_nc, re.S)
    nonexact = [b.strip()[:80] for b in bodies if not re.fullmatch(r'\s*exact\s+.*?\.\s*', b, re.S)]
    blocks = re.split(r'(?=^Axioms:|^Closed under the global context)', out, flags=re.M)
    assumptions = []
    for b in blocks:
        if b.startswith('Closed under the global context'): assumptions.append([])
        elif b.startswith('Axioms:'):
            names = re.findall(r'^([A-Za-z_][\w.\']*)\s*(?::|$)', b[len('Axioms:'):], re.M)
            assumptions.append([n for n in names if n not in ('Axioms',)])
    per = {}
    for i, t in enumerate(printed):
        per[t] = assumptions[i] if i < len(assumptions) else None
    return {'rc': rc, 'out': out, 'wall_s': dt, 'theorems': theorems, 'printed': printed, 'assumptions': per,
            'nonexact': nonexact, 'errors': parse_make_errors(out)}


def axiom_violations(per):
    bad = []
    for t, axs in per.items():
        if axs is None: bad.append(f'{t}: no Print Assumptions output'); continue
        for a in axs:
            if a in ALLOWED_AXIOMS or a.startswith(STDLIB_AXIOM_PREFIXES): continue
            if PRIMITIVES_OK.match(a): continue
            bad.append(f'{t}: depends on {a}')
    return bad


# ----------------------------------------------------------------------------- correspondence case files
CASE_HEADER = '''From Coq Require Import PrimFloat.
From Coq Require Import ZArith List Bool.
Import ListNotations.
From BZ Require Import Base.Ops {imports}.
{preamble}
'''


def run_case_files(pid, tag, imports, preamble, cases, per_file=400, timeout=600):
    """cases: list of Coq boolean expressions (closed terms over the float instance).
    Returns dict(n, agree, failing=[indices])."""
    wd = os.path.join(WORK, pid)
    os.makedirs(wd, exist_ok=True)
    # the case files may import modules outside the property's proof cone: make sure they are built and current
    rc, out, _ = make([i.replace('.', '/') + '.vo' for i in imports if '.' in i], timeout=900)
    if rc != 0:
        return {'n': len(cases), 'agree': 0, 'failing': list(range(len(cases))), 'errors': ['building the imports of the case files failed: ' + out[-1200:]], 'files': 0}
    for f in os.listdir(wd):
        if f.startswith(f'cases_{tag}_'): os.remove(os.path.join(wd, f))
    files = []
    for k in range(0, len(cases), per_file):
        chunk = cases[k:k + per_file]
        name = f'cases_{tag}_{k // per_file}'
        body = CASE_HEADER.format(imports=' '.join(imports), preamble=preamble)
        body += 'Definition results : list bool := [\n  ' + ';\n  '.join(chunk) + '\n].\n'
        body += 'Eval vm_compute in (summary results).\nEval vm_compute in (false_idx results 0 12).\n'
        open(os.path.join(wd, name + '.v'), 'w').write(body)
        files.append((name, k, len(chunk)))

    def one(item):
        name, base, n = item
        rc, out, dt = sh(['coqc', '-Q', COQ, 'BZ', '-w', '-all', name + '.v'], timeout, cwd=wd)
        m = re.search(r'=\s*\((\d+),\s*(\d+),\s*(\d+)\)', out)
        if rc != 0 or not m:
            return {'file': name, 'error': out[-1500:], 'n': n, 'agree': 0, 'failing': list(range(base, base + n))}
        fi = re.search(r'=\s*\[([^\]]*)\]\s*:\s*list nat', out, re.S)
        idx = [base + int(x) for x in re.findall(r'\d+', fi.group(1))] if fi else []
        return {'file': name, 'n': int(m.group(1)), 'agree': int(m.group(2)), 'failing': idx}
    with ThreadPoolExecutor(max_workers=NCPU) as ex:
        res = list(ex.map(one, files))
    out = {'n': sum(r['n'] for r in res), 'agree': sum(r['agree'] for r in res),
           'failing': [i for r in res for i in r['failing']], 'errors': [r['error'] for r in res if 'error' in r], 'files': len(files)}
    return out


# ----------------------------------------------------------------------------- known findings, replays, evidence
def known_findings():
    p = os.path.join(VERIF, 'known_findings.json')
    if not os.path.exists(p): return []
    return json.load(open(p)).get('findings', [])


def write_replay(pid, payload):
    d = os.path.join(VERIF, 'replays')
    os.makedirs(d, exist_ok=True)
    n = 1
    while os.path.exists(os.path.join(d, f'{pid}-{n}.json')): n += 1
    p = os.path.join(d, f'{pid}-{n}.json')
    json.dump(payload, open(p, 'w'), indent=1, default=str)
    return p


def write_evidence(pid, ev):
    d = os.path.join(VERIF, 'evidence')
    os.makedirs(d, exist_ok=True)
    json.dump(ev, open(os.path.join(d, f'{pid}.json'), 'w'), indent=1, default=str)


def ast_fingerprints(specs):
    """specs: list of (relative path, qualified name 'Class.method' or 'function'); sha of ast.dump"""
    import ast
    out = {}
    for path, qn in specs:
        try:
            tree = ast.parse(open(os.path.join(REPO, 'src/beziers', path)).read())
        except OSError:
            out[f'{path}:{qn}'] = 'missing'; continue
        node = None
        parts = qn.split('.')
        body = tree.body
        for part in parts:
            node = next((n for n in body if isinstance(n, (ast.FunctionDef, ast.ClassDef)) and n.name == part), None)
            if node is None: break
            body = node.body
        out[f'{path}:{qn}'] = hashlib.sha256(ast.dump(node).encode()).hexdigest()[:16] if node else 'missing'
    return out
