#!/bin/bash
# integrate.sh <agentdir> : copy an agent's deliverables into /verif (new files only + listed ones), show diffs of shared files
A=$1; B=/root/ag/basev
cd $A
echo "== new/changed files relative to basev"
diff -rq $B $A -x .git -x work -x '*.vo' -x '*.glob' -x '*.aux' -x '*.vok' -x '*.vos' -x '__pycache__' -x 'Gen' -x 'Makefile*' -x '_CoqProject' -x '.Makefile.d' -x 'evidence' -x 'replays' -x '.lia.cache' -x '.nia.cache' 2>/dev/null | grep -v "^Only in $B"
