#!/usr/bin/env python3
"""Writes MANIFEST.json from the per-property table below (single source of truth for the registered checks)."""
import json, os
V = os.path.dirname(os.path.dirname(os.path.abspath(__file__)))
TB = ('Coq 8.16.1 kernel and vm_compute (no native_compute); stdlib axioms of Reals/Coquelicot as printed per theorem in the evidence '
      '(sig_not_dec, sig_forall_dec, functional_extensionality_dep, classic); translator tools/py2v.py and the correspondence harness; '
      'Python float = IEEE binary64; libm/pyclipper/repr are oracles (DESIGN 3).')
CLAIMED = {
 'C01': ('Evaluation, end points, hodograph derivative and the two de Casteljau retrace identities are proved for all control polygons and all real t, s '
         'over a model regenerated from the source on every run; the 1e-12 float clause is measured against exact rational arithmetic, not proved.',
         'translator-regenerated Gallina model + ring/auto_derive proofs over R; bit-exact kernel cross-check; exact-rational search', '4/C01'),
}
PENDING_REASON = 'machinery for this property is not built yet in this revision (see DESIGN section 7); it is not claimed on the strength of a search alone'
ALL = ['C%02d' % i for i in range(1, 21)]
m = {
 'version': 1,
 'setup_cmd': 'cd /verif && ./setup.sh',
 'hooks': {'guard': 'BEZIERS_VERIF', 'enable': 'none needed: all instrumentation is monkey-patching from the harness (math proxy, pyclipper recorder); no guarded source hooks exist',
           'baseline_off_cmd': 'cd /repo && /venv/bin/python -m pytest -ra -q -p no:cacheprovider --timeout=900 --continue-on-collection-errors',
           'source_commits': json.load(open(os.path.join(V, 'source_commits.json'))) if os.path.exists(os.path.join(V, 'source_commits.json')) else [],
           'add_only': True},
 'engines': [{'name': 'coq-proof', 'path': 'check', 'serves_properties': sorted(CLAIMED),
              'kind_free_text': 'Coq 8.16.1 development (coq/): model regenerated from /repo by tools/py2v.py + hand-written driver models; theorems in coq/Props; correspondence by generated case files evaluated with vm_compute; Python search oracles for replays'}],
 'checks': [],
 'notes': 'Every check regenerates the model from /repo\'s working tree, rebuilds the property\'s Coq cone, runs the correspondence and the search, and writes evidence/<id>.json. See DESIGN.md.',
 'not_applicable': [{'property_id': p, 'reason': PENDING_REASON} for p in ALL if p not in CLAIMED],
}
for p in sorted(CLAIMED):
    text, tech, ref = CLAIMED[p]
    m['checks'].append({
        'property_id': p, 'quick_cmd': f'./check {p} --tier quick', 'thorough_cmd': f'./check {p} --tier thorough',
        'evidence_file': f'/verif/evidence/{p}.json', 'replay_cmd_template': f'./check {p} --replay {{path}}', 'engine': 'coq-proof',
        'level_claimed': {'category': 'proof', 'text': text, 'design_ref': 'DESIGN.md section ' + ref},
        'level_note': TB, 'technique': tech})
json.dump(m, open(os.path.join(V, 'MANIFEST.json'), 'w'), indent=1)
print('claimed', sorted(CLAIMED))
