#!/usr/bin/env python3
"""Writes MANIFEST.json from the per-property table below (single source of truth for the registered checks)."""
import json, os
V = os.path.dirname(os.path.dirname(os.path.abspath(__file__)))
TB = ('Coq 8.16.1 kernel and vm_compute (no native_compute); stdlib axioms of Reals/Coquelicot as printed per theorem in the evidence '
      '(sig_not_dec, sig_forall_dec, functional_extensionality_dep, classic; for the float-instance theorems of C01/C19 additionally Coq.Floats.FloatAxioms and Uint63 specification axioms, via Flocq 4.1); translator tools/py2v.py and the correspondence harness; '
      'Python float = IEEE binary64; libm/pyclipper/repr are oracles (DESIGN 3).')

CLAIMED = {
 'C01': ('Evaluation, end points, hodograph derivative and the two de Casteljau retrace identities are proved for all control polygons and all real t, s '
         'over a model regenerated from the source on every run; the 1e-12 floating-point clause is PROVED too (Flocq model of binary64 via the stdlib FloatAxioms): evaluation, lerp, both split pieces and the hodograph segments of the binary64 instance are within 74*2^-53*M + 22*2^-1075 <= 1e-12*M + 2^-1070 of the real instance for finite inputs |coord| <= M <= 2^1000, t in [0,1].',
         'translator-regenerated Gallina model + ring/auto_derive proofs over R; reflective rounding-error bound (Base/FloatErr.v) over the float instance of the same text; bit-exact kernel cross-check; exact-rational search', '4/C01'),
 'C04': ('Proved for all inputs over a model regenerated from the source: the quadrature table has the Gauss-Legendre shape and integrates t^k (k<=5) exactly to 1e-30, '
         'length is exactly invariant under reversal/translation/rotation and scales by |k|, chord-1e-25*polygon <= length <= (1+1e-25)*polygon, lines are Euclidean and additive. '
         'The 2% / 0.01% accuracy clause and curve additivity within tolerance are NOT proved (quadrature error analysis of |B\'|): they are measured against adaptive Gauss-Kronrod by the search.',
         'translator-regenerated model; exact rational table computation lifted to R; sqrt/field proofs; bit-exact kernel cross-check; reference-integral search', '4/C04'),
 'C09': ('Full statement over R for all segments, matrices, call lists of any length, angles, centres and t: commutation with evaluation, call-order composition, per-axis scaling incl. zero, '
         'inverse, rigid ccw rotation about a centre, alignment. Float error (1e-9) is measured, libm is an oracle.',
         'translator-regenerated model; ring/field + trigonometric lemmas over R; induction on the call list; bit-exact kernel cross-check through a recorded libm table', '4/C09'),
 'C10': ('Proved for all inputs: a segment\'s area is the integral of y dx (Coquelicot is_RInt), additive under splitting, negated by reversal, elevation-invariant; for closed polylines the shoelace value equals '
         'minus the sum of edge areas and is negated/invariant/scaled as stated; Rectangle has signed area -w*h; positivity (direction +1) is proved for star-shaped, fan, convex and ear-built ccw polygons (negativity for cw); Ellipse/Circle/Square are modelled bit-exactly and their exact Green area is -K(s)*rx*ry with K(default) in (3.1424,3.1425), control polygon clockwise. The 10*length flattening bound and positivity for EVERY simple contour (two-ears theorem) are not proved.',
         'translator-regenerated kernels + hand model of signed_area/Rectangle with correspondence; is_RInt/ring proofs, induction over edge lists; exact Green-integral search', '4/C10'),
 'C19': ('Full statement: includes/overlaps are exactly the closed-range definitions and overlap is symmetric; under the quantifier\'s tie condition the sweep output is a permutation of all overlapping (A,B) pairs, '
         'each exactly once (soundness and no-duplicates unconditionally; exact iff condition for completeness; refutation witness without the tie condition). The binary64 instance of includes/overlaps/the whole sweep is PROVED EQUAL to the real instance on finite inputs (Flocq), so all of this holds of the float code as executed.',
         'translator-regenerated predicates + hand model of the sweep (events, stable sort, deques) with exact correspondence; invariant proof over sorted event lists', '4/C19'),
 'C02': ('Proved for ALL segments and all t in [0,1] over a model regenerated from the source: the reported box enlarged by 0.06% of the control-polygon extent contains the curve (no hypothesis), '
         'and the box itself does when no derivative zero lies in the 1% end slivers; tightness of all four sides; the path box is the join of the segment boxes. Float root placement is measured.',
         'translator-regenerated kernels + hand model of BoundingBox.extend/bounds with bit-exact correspondence; real-analysis proof (maximum at critical point, Taylor sliver bound)', '4/C02'),
 'C05': ('Proved over R: line-line candidate point and parameters exact with the exact reporting window, parallel -> none, receiver symmetry in the interior; carrier <-> aligned root; quadratic roots exact; '
         'Cardano sound AND complete in all three discriminant branches above the degeneracy threshold, bounded residual below it; end-to-end curve-line characterisation. Float accuracy is measured; the near-degenerate band is a recorded known finding.',
         'translator-regenerated solvers; field/nra + trigonometric (cos 3x, acos) and Rpower cube-root proofs; kernel cross-check through a recorded libm table; exact-arithmetic root-isolation search', '4/C05'),
 'C08': ('Proved for all inputs on a hand model tied by exact correspondence: node-list round trips are the identity (open and properly closed chains, any number of trips), the closing rule adds exactly one segment, every rotation of a closed node list '
         '(start not repeated) gives a cyclic rotation of the same segments (refutation witness otherwise), SVG string shape; textual round trips relative to stated hypotheses on repr/float().',
         'hand-written executable model (incl. regex matchers) + differential correspondence; structural induction proofs; section hypotheses for the runtime', '4/C08'),
 'C15': ('Proved over R: line lookup inverts evaluation for every real t (non-degenerate extent), off-carrier points (>= 2e-7) give -1, quadratic lookup succeeds within the 2e-7 pairing window away from stationary parameters and is exact when the abscissa is unique. '
         'Cubic lookup is search-only. One recorded known finding (end-point lookup of a quadratic).',
         'translator-regenerated kernels; case analysis on isclose/ordering + field proofs; bit-exact cross-check; targeted search (steep lines, linear-in-x quadratics)', '4/C15'),
 'C18': ('Full statement over R for all segments and t with non-vanishing derivative: tangent = unit derivative (also via Derive), line tangent = unit chord, normal = tangent turned ccw for lines and curves, start/end angles = leg directions, curvature formula for cubics and quadratics with the hodograph\'s derivative, line curvature 2^-52.',
         'translator-regenerated kernels; trig (atan2/cos/sin) and Rpower lemmas; kernel cross-check through a recorded libm table', '4/C18'),
 'C03': ('Proved over R: extremes are exactly the sign-change parameters of x\' or y\' in [0.01,0.99] (quadratics; cubics with a genuine or exactly vanishing leading coefficient), none for lines; the split walk retraces the original piece by piece for ANY request list, '
         'keeps all nodes, start, end and connectivity; every piece between the cuts is monotone up to 0.06% of the original extent (exactly monotone without sliver zeros; the tolerance form needs no non-degeneracy hypothesis on the leading coefficient of the derivative). Paths containing the same segment value twice are a recorded known finding (refutation witness proved). Float placement of cuts is measured.',
         'translator-regenerated kernels + hand model of splitAtPoints/addExtremes (value-keyed dict) with bit-exact correspondence; induction over the walk, Simpson/IVT sign analysis', '4/C03'),
 'C06': ('Proved over R on a hand model tied by bit-exact correspondence (ranges are dyadic): range invariant (a visited piece IS the sub-curve of its range), every report comes from two overlapping boxes of area < 1e-3 with an explicit distance bound, no crossing is missed modulo box enclosure, dedup keeps the first report per key, hasLoop returns a genuine double point iff the discriminant is negative, self-intersection enumeration. '
         'Operand-order: the reports before de-duplication are exact swapped permutations of each other (any carrier incl. binary64), mixed-degree calls are identical, what survives de-duplication is characterised and count symmetry is refuted on the binary64 model. The quantitative 0.2% clauses are REFUTED for the model and the code (two recorded known findings: area stop rule, dedup bucket); they are watched by the search.',
         'hand model of the recursive subdivision (fuel) incl. an exact "%.2f" key; induction on depth; field proof of the loop double point; ground-truth search by subdivision + Newton', '4/C06'),
 'C16': ('Proved over R: lengthAt 0 = 0 and lengthAt 1 = length for segments and paths; path evaluation = segment floor(t*n) at the fractional parameter, continuous on connected chains, reaches the end at t = 1; sample/regular sample start exactly at 0, end exactly at 1, stay in [0,1], non-decreasing; no exception for valid t, n, length (incl. t = 1.0) given the stated fuel. '
         'Strict increase is refuted (recorded known finding); monotonicity of lengthAt and the 5% spacing rest on quadrature accuracy and are measured only.',
         'hand model of the sampling loops (fuel) with bit-exact float stepping correspondence incl. integer / power-of-two lengths; induction on fuel; Coquelicot continuity', '4/C16'),
 'C17': ('Proved over R: flatten yields a chain from the start to the end whose vertices are the curve at a non-decreasing parameter list from exactly 0 to exactly 1, every edge from a curve records its origin, short curves become their chord, lines are returned unchanged, path flatten concatenates and copies the closed flag. '
         'The edge-count clause is not proved (refuted for short cubics: two recorded known findings); purity is checked by the search.',
         'hand model of the three flatten routines over the sampler model with bit-exact correspondence; list induction', '4/C17'),
 'C11': ('Proved on a hand model tied by bit-exact correspondence: |sum of n signs| has the parity of n (so the result\'s parity is the crossing count\'s whatever the tangents); for closed polygons in explicit general position (level clear of every node by the code\'s own 2e-7 window, no isclose-but-not-exact vertical edge, ray shorter than 5e7 units, distinct crossing points) '
         'pointIsInside is the even-odd parity of the edges crossed by the leftward ray, left and right parities agree, the winding number is the absolute signed count, and it is 0 outside the bounding box; per-segment crossing lemmas for curves. '
         'The same is proved for closed paths of lines, quadratics and cubics (root-parity lemma for polynomials, even number of level crossings around a closed chain, glue through the dictionaries) under the analogous general-position bundle, with the extra hypothesis that the crossings lie inside the computed box. Each excluded case is a recorded known finding with a refutation witness (five classes).',
         'hand model of windingNumberOfPoint over the generated intersection kernels; telescoping balance argument over the closed chain; from-scratch even-odd search incl. level-with-node families', '4/C11'),
 'C14': ('Proved for ANY numeric core: segment count never exceeds the budget, a budget of n-1 suffices, accepted pieces cover the data with shared end points; for the transcribed numeric core over R: first/last points interpolated exactly, the chain is connected, every input point within sqrt(error+1e-9) of its accepted cubic at a parameter in [0,1], the three "return []" exits are dead code, '
         'adjacent-duplicate removal is exactly that; the only escape is a corner re-entry that would diverge (characterised, never observed). The float run taking the same decisions and finiteness of control points are measured (bit-exact correspondence of the whole fitter incl. its call log).',
         'two-layer hand model (recursion skeleton over an abstract core + bit-faithful numeric core) with bit-exact correspondence; induction on fuel; search over all families of the quantifier', '4/C14'),
 'C20': ('Proved over R for all control points and all fuel, about generated S/D tables and a hand model of minDist tied by exact correspondence (recorded S values, call counts): S(u,v) IS the squared distance |P(u)-Q(v)|^2 for all nine kind pairs; a returned alpha is S at some point of [0,1]^2 (and the reported parameters lie in [0,1]); hence the distance is realised, >= 0, >= the true minimum and <= the maximum; '
         'the reported segments of a path pair belong to the paths; and the recursion TERMINATES: over R it never nests deeper than 76 levels for any pair of segments, so curveDistance with fuel >= 80 always returns a realised distance (more fuel does not change it), and the same is proved for the binary64 instance for finite coordinates up to 2^400 (fuel 81). Float accuracy near distance 0 is measured.',
         'translator-regenerated S and D(r,k) (memo stripped, binomials run from source) proved equal to the squared distance by field; hand model of the branch-and-bound with threaded bestAlpha, induction on fuel; brute-force reference search', '4/C20'),
 'C12': ('Proved on a hand model of the glue around pyclipper, tied by exact correspondence on recorded AddPath/Execute traffic: the integer polygons handed to Clipper are exactly the truncated x100 start points of the flattened, pre-split outlines with subject = receiver and clip = argument and the operation as named; in polygon mode every result path is the closed chain of all n edges of its polygon at 1/100 scale; '
         'under the stated even-odd hypothesis on Clipper (a Section premise, spot-checked on every recorded run) the result\'s even-odd interior is the Boolean combination of the flattened inputs\' interiors; the inputs are not rebound. Clipper itself, the 2-unit flattening deviation and the two area identities are measured by the search (probe points, exact even-odd areas).',
         'hand model of clip() incl. splitAtPoints, LUT and reconstruction; pyclipper as a Section variable with an explicit hypothesis; recording proxy for the real pyclipper; region/area search', '4/C12'),
 'C13': ('Proved on the same hand model: in curve mode every result segment is a fresh straight edge between consecutive Clipper vertices or a LUT value, every LUT value is a pre-split piece or its reverse, every pre-split piece is a sub-curve s(a+u(b-a)) of an input segment (C01 retrace lemmas); an empty clip gives no paths; inputs not rebound. '
         'The distance clause is measured; the connectivity/region sentence for crossing curved outlines is violated by the code (recorded known finding) and watched by the search.',
         'same model; provenance by induction over the reconstruction loop and the split walk; search of provenance, distance, purity and the region sentence', '4/C13'),
 'C07': ('Proved on a heap model (list objects, segment objects with _orig, paths with representation and closed flag; 17 operations transcribing which Python objects are rebound, mutated in place, shared or allocated) tied by exact correspondence on random histories incl. the aliasing graph: for histories of ANY length, every operation keeps a connected chain connected with exact joins, never changes a closed flag, '
         'maps the end points as stated (identity / swap / translate / rotate / scale / truncate / first-last rule); writes happen only in the receiver\'s objects; clone and flatten do not write pre-existing objects; after clone the reachable object sets are disjoint, so no later sequence of operations on either path changes the other. '
         'Four clauses fail on the code and are recorded known findings with refutation witnesses (append joins by tolerance equality; aliasing through Line.flatten/append; p.append(p); append to a closed receiver).',
         'heap model + frame/invariant proofs by induction over operation lists; history correspondence with shrinking; stateful search of connectivity, closedness, end points, purity and clone independence', '4/C07'),
}
PENDING_REASON = 'machinery for this property is not built yet in this revision (see DESIGN section 7); it is not claimed on the strength of a search alone'
ALL = ['C%02d' % i for i in range(1, 21)]
m = {
 'version': 1,
 'setup_cmd': 'cd /verif && ./setup.sh',
 'hooks': {'guard': 'BEZIERS_VERIF', 'enable': 'none needed: all instrumentation is monkey-patching from the harness (math proxy, pyclipper recorder); no guarded source hooks exist',
           'baseline_off_cmd': 'cd /repo && /venv/bin/python -m pytest -ra -q -p no:cacheprovider --timeout=900 --continue-on-collection-errors',
           'source_commits': json.load(open(os.path.join(V, 'source_commits.json'))) if os.path.exists(os.path.join(V, 'source_commits.json')) else [],
           'add_only': True},
 'engines': [{'name': 'coq-proof', 'path': 'check', 'serves_properties': sorted(CLAIMED),
              'kind_free_text': 'Coq 8.16.1 development (coq/): model regenerated from /repo by tools/py2v.py + hand-written driver models; theorems in coq/Props; correspondence by generated case files evaluated with vm_compute; Python search oracles for replays'}],
 'checks': [],
 'notes': 'Every check regenerates the model from /repo\'s working tree, rebuilds the property\'s Coq cone, runs the correspondence and the search, and writes evidence/<id>.json. See DESIGN.md.',
 'not_applicable': [{'property_id': p, 'reason': PENDING_REASON} for p in ALL if p not in CLAIMED],
}
for p in sorted(CLAIMED):
    text, tech, ref = CLAIMED[p]
    m['checks'].append({
        'property_id': p, 'quick_cmd': f'./check {p} --tier quick', 'thorough_cmd': f'./check {p} --tier thorough',
        'evidence_file': f'/verif/evidence/{p}.json', 'replay_cmd_template': f'./check {p} --replay {{path}}', 'engine': 'coq-proof',
        'level_claimed': {'category': 'proof', 'text': text, 'design_ref': 'DESIGN.md section ' + ref},
        'level_note': TB, 'technique': tech})
json.dump(m, open(os.path.join(V, 'MANIFEST.json'), 'w'), indent=1)
print('claimed', sorted(CLAIMED))
