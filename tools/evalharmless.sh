#!/bin/bash
# evalharmless.sh <patch.diff> [ids...] : apply a behaviour-preserving rewrite in a scratch worktree and run the checks; any alarm is a false alarm
set -u
DIFF=$(readlink -f "$1"); shift
IDS=${@:-$(python3 -c "import json; print(' '.join(c['property_id'] for c in json.load(open('/verif/MANIFEST.json'))['checks']))")}
WT=/tmp/harmrepo_$$; VC=/tmp/harmverif_$$
git -C /repo worktree add -q "$WT" HEAD || exit 9
rsync -a --exclude .git --exclude work --exclude replays /verif/ "$VC"/ && mkdir -p "$VC/replays"
trap 'git -C /repo worktree remove --force "$WT" >/dev/null 2>&1; rm -rf "$VC"' EXIT
cd "$WT" && git apply "$DIFF" || exit 8
echo -n "suite: "; PYTHONPATH=$WT/src /venv/bin/python -m pytest -q -p no:cacheprovider 2>&1 | tail -1
cd "$VC"
for p in $IDS; do BEZIERS_REPO=$WT ./check $p 2>&1 | grep -v "^!" | grep -E "tier=|VIOLATION|broken:" | cut -c1-220; done
