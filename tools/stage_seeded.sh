#!/bin/bash
# stage_seeded.sh <round> <ID>... : copy out/{1,2,3} of the sub-agent worktrees /tmp/wt<round>_<ID> to seeded/<ID>-r<round>-k and remove the worktrees
R=$1; shift
cd "$(dirname "$(readlink -f "$0")")/.."
for p in "$@"; do
  for k in 1 2 3; do
    src=/tmp/wt${R}_$p/out/$k; [ -d "$src" ] || continue
    d=seeded/$p-r$R-$k; mkdir -p $d; cp $src/patch.diff $src/demo.py $d/
    python3 - "$p" "$k" "$R" "$src" <<'PY'
import json,sys
p,k,r,src=sys.argv[1:5]
m=json.load(open(f'{src}/meta.json'))
m['confirmed']=f"tools/evalmut.sh {p} seeded/{p}-r{r}-{k}/patch.diff seeded/{p}-r{r}-{k}/demo.py (scratch worktree of /repo HEAD: demo exits 0 before / 1 after the patch, suite unchanged at 32 passed / 3 known failures, then ./check {p} with BEZIERS_REPO=<worktree>)"
m['detected_by']=f'./check {p}'; m['history']='pending'
json.dump(m,open(f'seeded/{p}-r{r}-{k}/meta.json','w'),indent=1)
PY
  done
  git -C /repo worktree remove --force /tmp/wt${R}_$p 2>/dev/null
done
ls seeded | wc -l
