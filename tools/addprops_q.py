#!/usr/bin/env python3
"""addprops_q.py ID Mod.lemma1,Mod.lemma2,... [-- BZ modules to Require (not Import)]
Append statements to coq/Props/<ID>.v for lemmas that live inside Sections (their statements cannot be copied textually):
the statement is what Coq itself prints for `Check @Mod.lemma` in the context of the Props file (same imports, so every
name resolves the same way when the statement is read back), the proof is `exact @Mod.lemma`, and Print Assumptions is added."""
import re, sys, os, subprocess, tempfile
V = os.path.dirname(os.path.dirname(os.path.abspath(__file__)))
pid = sys.argv[1]
rest = sys.argv[2:]
req = []
if '--' in rest:
    k = rest.index('--'); rest, req = rest[:k], rest[k + 1:]
names = [n for a in rest for n in a.split(',') if n]
p = os.path.join(V, 'coq', 'Props', pid + '.v')
s = open(p).read()
# 1. the Require line (qualified names only: nothing is shadowed in the existing statements)
have = set()
for m in re.finditer(r'^From BZ Require (?!Import)(.*?)\.$', s, re.M): have |= set(m.group(1).split())
add = [x for x in req if x not in have]
if add:
    m = re.search(r'^Import ListNotations\.\n', s, re.M)
    s = s[:m.end()] + 'From BZ Require ' + ' '.join(add) + '.\n' + s[m.end():]
# 2. ask Coq for the statements in that context
head = s[:s.index('\nTheorem ')] if '\nTheorem ' in s else s
hdr_end = [m.end() for m in re.finditer(r'^(From .*?|Import .*?|Require .*?)\.\n', s, re.M)][-1]
ctx = s[:hdr_end]
ctx = re.sub(r'\(\*.*?\*\)', '', ctx, flags=re.S)
ctx = '\n'.join(l for l in ctx.split('\n') if re.match(r'^(From|Import|Require|Set|Open|Local Open)\b', l))
probe = ctx + '\nSet Printing Width 1000000.\nSet Printing Depth 1000000.\n' + ''.join(f'Check @{n}.\n' for n in names)
with tempfile.NamedTemporaryFile('w', suffix='.v', dir='/root', delete=False, prefix='probe_') as f: f.write(probe); fn = f.name
out = subprocess.run(['coqc', '-Q', '.', 'BZ', '-w', 'none', fn], cwd=os.path.join(V, 'coq'), capture_output=True, text=True)
for ext in ('.v', '.vo', '.glob', '.vok', '.vos'):
    try: os.remove(fn[:-2] + ext)
    except OSError: pass
try: os.remove(os.path.join(os.path.dirname(fn), '.' + os.path.basename(fn)[:-2] + '.aux'))
except OSError: pass
if out.returncode != 0: raise SystemExit(out.stdout + out.stderr)
stm = {}
for m in re.finditer(r'^@?([\w.\']+)\n\s+: (.*?)(?=^@?[\w.\']+\n\s+: |\Z)', out.stdout, re.S | re.M):
    stm[m.group(1)] = ' '.join(m.group(2).split())
thms = []
for n in names:
    if n not in stm: raise SystemExit(f'no statement printed for {n}:\n{out.stdout[:2000]}')
    short = n.split('.')[-1]
    if f'Theorem {pid}_{short} ' in s: print('already present:', n); continue
    thms.append((f'{pid}_{short}', stm[n], n))
i = s.index('\nPrint Assumptions ')
block = ''.join(f'Theorem {t} :\n  {full}.\nProof. exact @{n}. Qed.\n' for t, full, n in thms)
s = s[:i].rstrip('\n') + '\n' + block + s[i:].rstrip('\n') + '\n' + ''.join(f'Print Assumptions {t}.\n' for t, _, _ in thms)
open(p, 'w').write(s)
print(pid, '+', len(thms), 'theorems')
