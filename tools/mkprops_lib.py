"""shared by mkprops.py / addprops.py"""


def split_binders_stmt(sig):
    """sig = text between the lemma name and the final '.', i.e. 'binders : statement' ; split at the top-level ':'"""
    depth = 0
    i = 0
    while i < len(sig):
        ch = sig[i]
        if ch in '([{': depth += 1
        elif ch in ')]}': depth -= 1
        elif ch == ':' and depth == 0 and sig[i + 1:i + 2] != '=' :
            return sig[:i].strip(), sig[i + 1:].strip()
        i += 1
    raise ValueError('no colon in ' + sig[:80])
