"""C05: line-line and curve-line intersections are sound and complete."""
import math
import vlib, gen, ref, kernels
from beziers.point import Point
from beziers.line import Line
from beziers.quadraticbezier import QuadraticBezier
from beziers.cubicbezier import CubicBezier

RULE = ('(line|quad|cubic) x line pairs in families: random int/float, vertical and horizontal lines, symmetric arches, degree-elevated '
        'quadratics, straight-line cubics, curves linear in one coordinate; only pairs in general position (every carrier crossing >= 1e-4 from '
        'all segment ends in parameter or clearly outside, not tangential, not parallel); non-trivial = at least one true crossing')
NOT_PROVED = ['floating-point accuracy of the reported parameters/points (1e-6 of coordinate magnitude), in particular when the leading coefficient '
              'is tiny but non-zero: measured by the search against exact-arithmetic root isolation, not proved',
              'completeness of the trigonometric (three-root) Cardano branch beyond soundness is stated separately']
ASSUMPTIONS = ['libm acos/cos/pow results are oracle values in the correspondence; over R they are the standard functions']
HAND_FINGERPRINTS = [('utils/intersectionsmixin.py', 'IntersectionsMixin.intersections')]
P = Point


def rp(rng, fam):
    if fam == 'int': return P(rng.randint(-300, 300), rng.randint(-300, 300))
    return P(rng.uniform(-300, 300), rng.uniform(-300, 300))


def gen_pair(rng):
    fam = rng.choice(['ll', 'll-vert', 'll-horiz', 'll-stem-bar', 'quad', 'quad-linear-x', 'cubic', 'cubic-elevated', 'cubic-straight', 'cubic-arch', 'cubic-vline', 'cubic-hline', 'cubic-near-elevated', 'cubic-near-straight', 'quad-near-linear', 'cubic-flat-end', 'end-hook', 'quad-flat-start', 'll-axis', 'curve-axis', 'cubic-exact-double-root'])
    cf = rng.choice(['int', 'float'])
    def rline():
        return Line(rp(rng, cf), rp(rng, cf))
    if fam.startswith('ll') and fam != 'll-axis':
        a = rline()
        if fam == 'll-stem-bar':
            x = float(rng.randint(-200, 200)); y = float(rng.randint(-200, 200))
            a = Line(P(x, y - rng.uniform(10, 300)), P(x, y + rng.uniform(10, 300)))
            b = Line(P(x - rng.uniform(10, 300), y), P(x + rng.uniform(10, 300), y))
            if rng.random() < 0.5: a = Line(a[1], a[0])
            if rng.random() < 0.5: b = Line(b[1], b[0])
        elif fam == 'll-vert':
            x = float(rng.randint(-200, 200)) if cf == 'int' else rng.uniform(-200, 200)
            b = Line(P(x, rng.uniform(-400, 400)), P(x, rng.uniform(-400, 400)))
        elif fam == 'll-horiz':
            y = float(rng.randint(-200, 200)) if cf == 'int' else rng.uniform(-200, 200)
            b = Line(P(rng.uniform(-400, 400), y), P(rng.uniform(-400, 400), y))
        else: b = rline()
        if rng.random() < 0.5: a, b = b, a
        return fam, a, b
    if fam == 'cubic-exact-double-root':
        # along the line's normal the cubic is k (t - r)(t - s)^2 with a simple root r inside (0,1) and a DOUBLE root s outside [0,1], all in exactly
        # representable numbers and with an exact alignment (horizontal line pointing in +x): Cardano's discriminant is then exactly 0.0 although
        # the pair is in general position (one transversal crossing, no tangency on the segment)
        r = rng.choice([0.25, 0.5, 0.75, 0.375, 0.625]); s_ = r + rng.choice([-1, 1]) * 1.5 * rng.choice([1.0, 2.0, 0.5])
        if 0 <= s_ <= 1: s_ = r + 3.0
        k = rng.choice([-1, 1]) * float(rng.choice([8, 16, 32, 64]))
        pf = lambda t: k * (t - r) * (t - s_) ** 2
        dpf = lambda t: k * ((t - s_) ** 2 + 2 * (t - r) * (t - s_))
        ys = [pf(0.0), pf(0.0) + dpf(0.0) / 3.0, pf(1.0) - dpf(1.0) / 3.0, pf(1.0)]
        y0 = float(rng.randint(-100, 100))
        xs = sorted(float(rng.randint(-300, 300)) for _ in range(4))
        if xs[3] - xs[0] < 30: xs[3] += 80.0
        c = CubicBezier(*[P(x, y0 + y) for x, y in zip(xs, ys)])
        l = Line(P(-400.0, y0), P(400.0, y0))
        if rng.random() < 0.25:
            c = CubicBezier(*[P(q.y, -q.x) for q in c.points]); l = Line(P(l[0].y, -l[0].x), P(l[1].y, -l[1].x))
        return fam, c, l
    if fam == 'll-axis':
        # the crossing lies ON a coordinate axis (one coordinate of the crossing point is exactly or nearly 0, the other is not): an
        # axis-parallel line through the origin's row/column, crossed by a vertical / horizontal / general line
        lo, hi = sorted([-rng.uniform(10, 300), rng.uniform(10, 300)])
        xc = float(rng.randint(-200, 200)) if cf == 'int' else rng.uniform(-200, 200)
        a = Line(P(lo + xc, 0.0), P(hi + xc, 0.0))
        r = rng.random()
        U = (lambda l, h: float(rng.randint(int(l), int(h)))) if cf == 'int' else rng.uniform
        if cf == 'int': a = Line(P(xc - U(10, 300), 0.0), P(xc + U(10, 300), 0.0))
        if r < 0.5: b = Line(P(xc, -U(5, 300)), P(xc, U(5, 300)))
        elif cf == 'int':
            # integer ends on both sides of the axis, the crossing at an integer abscissa: (xc - k*dx, -k*dy) .. (xc + m*dx, m*dy)
            dx, dy, k, m = rng.randint(-6, 6), rng.randint(1, 9), rng.randint(1, 9), rng.randint(1, 9)
            b = Line(P(xc - k * dx, -float(k * dy)), P(xc + m * dx, float(m * dy)))
        else:
            q = P(xc + rng.uniform(lo, hi) * 0.8, 0.0); d = P(rng.uniform(-1, 1), rng.choice([-1, 1]) * rng.uniform(0.2, 1))
            b = Line(q + d * rng.uniform(10, 200), q + d * -rng.uniform(10, 200))
        if rng.random() < 0.5: a = Line(a[1], a[0])
        if rng.random() < 0.5: b = Line(b[1], b[0])
        if rng.random() < 0.5: a, b = Line(P(a[0].y, a[0].x), P(a[1].y, a[1].x)), Line(P(b[0].y, b[0].x), P(b[1].y, b[1].x))
        if rng.random() < 0.5: a, b = b, a
        return 'll-axis', a, b
    if fam == 'quad-flat-start':
        # the first handle runs parallel to the line: along the line's normal the quadratic is a*t^2 + c (linear coefficient exactly 0 when
        # the line is horizontal or vertical and left-to-right, nearly 0 after a rotation), crossed once in the interior
        y0 = float(rng.randint(-200, 200)); Y = y0 + rng.choice([-1, 1]) * float(rng.randint(5, 150)); k = rng.uniform(1.3, 6)
        xs = sorted(float(rng.randint(-300, 300)) for _ in range(3))
        if xs[2] - xs[0] < 20: xs[2] += 60.0
        c = QuadraticBezier(P(xs[0], y0), P(xs[1], y0), P(xs[2], y0 + (Y - y0) * k))
        if rng.random() < 0.3: c = QuadraticBezier(c[2], c[1], c[0])
        if rng.random() < 0.3: c = c.toCubicBezier()
        l = Line(P(-400.0, Y), P(400.0, Y))
        r = rng.random()
        if r < 0.25: l = Line(l[1], l[0])
        elif r < 0.5:
            c = type(c)(*[P(q.y, q.x) for q in c.points]); l = Line(P(Y, -400.0), P(Y, 400.0))
        elif r < 0.7:
            ang = rng.uniform(0, 6.283); o = P(float(rng.randint(-50, 50)), float(rng.randint(-50, 50)))
            c = c.rotated(o, ang); l = l.rotated(o, ang)
        return fam, c, l
    if fam == 'end-hook':
        # a small hook in the first (or last) percent of the curve that sticks out of the box of everything else, crossed twice by a line
        a = rng.uniform(500, 2000); ts = rng.uniform(0.002, 0.008); b = rng.uniform(1e4, 5e4)
        c = QuadraticBezier(P(0.0, 0.0), P(-a, b), P(a * (1 - 2 * ts) / ts, rng.uniform(2e4, 6e4)))       # x(t) has its minimum -a*ts at t = ts
        if rng.random() < 0.4: c = c.toCubicBezier()
        x = -a * ts * rng.uniform(0.4, 0.8)
        l = Line(P(x, -1000.0), P(x, 2 * b * 0.05))
        if rng.random() < 0.5: c = type(c)(*[P(p.x, p.y) for p in reversed(c.points)])
        if rng.random() < 0.5:
            o = P(float(rng.randint(-50, 50)), float(rng.randint(-50, 50))); ang = rng.uniform(0, 6.283)
            c = c.rotated(o, ang); l = l.rotated(o, ang)
        return fam, c, l
    if fam == 'cubic-flat-end':
        # three consecutive control points at the same signed distance from the line, the fourth on the other side: the depressed
        # cubic along the line's normal has p = 0 (one real root; Cardano's two cube roots degenerate), exactly or nearly
        y0 = float(rng.randint(-200, 200)); cdist = float(rng.randint(5, 150)); D = float(rng.randint(5, 200))
        xs = sorted(float(rng.randint(-300, 300)) for _ in range(4))
        if xs[3] - xs[0] < 10: xs[3] += 50.0
        ys = [y0 - D, y0 + cdist, y0 + cdist, y0 + cdist]
        if rng.random() < 0.5: ys.reverse()
        if rng.random() < 0.5: ys = [2 * y0 - v for v in ys]
        if rng.random() < 0.4: ys[rng.choice([1, 2])] += rng.choice([-1, 1]) * 10.0 ** -rng.randint(2, 7) * (cdist + D)
        c = CubicBezier(*[P(x, y) for x, y in zip(xs, ys)])
        l = Line(P(-400.0, y0), P(400.0, y0))
        if rng.random() < 0.5:
            ang = rng.uniform(0, 6.283); o = P(float(rng.randint(-50, 50)), float(rng.randint(-50, 50)))
            c = c.rotated(o, ang); l = l.rotated(o, ang)
        if rng.random() < 0.3: l = Line(l[1], l[0])
        return fam, c, l
    if fam == 'quad': c = QuadraticBezier(rp(rng, cf), rp(rng, cf), rp(rng, cf))
    elif fam == 'quad-linear-x':
        a, b = rp(rng, cf), rp(rng, cf)
        c = QuadraticBezier(a, P((a.x + b.x) / 2, rng.uniform(-300, 300)), b)
    elif fam == 'cubic' or fam in ('cubic-vline', 'cubic-hline', 'curve-axis'): c = CubicBezier(rp(rng, cf), rp(rng, cf), rp(rng, cf), rp(rng, cf))
    elif fam in ('cubic-near-elevated', 'cubic-near-straight', 'quad-near-linear'):
        eps = 10.0 ** -rng.randint(3, 13)
        if fam == 'cubic-near-elevated': c = QuadraticBezier(rp(rng, cf), rp(rng, cf), rp(rng, cf)).toCubicBezier()
        elif fam == 'cubic-near-straight':
            a, b = rp(rng, cf), rp(rng, cf)
            c = CubicBezier(a, a.lerp(b, 1 / 3.0), a.lerp(b, 2 / 3.0), b)
        else:
            a, b = rp(rng, cf), rp(rng, cf)
            c = QuadraticBezier(a, a.lerp(b, 0.5), b)
        k = rng.randrange(len(c.points))
        c.points[k] = c.points[k] + P(rng.uniform(-1, 1) * eps * 300, rng.uniform(-1, 1) * eps * 300)
    elif fam == 'cubic-elevated': c = QuadraticBezier(rp(rng, cf), rp(rng, cf), rp(rng, cf)).toCubicBezier()
    elif fam == 'cubic-straight':
        a, b = rp(rng, cf), rp(rng, cf)
        c = CubicBezier(a, a.lerp(b, 1 / 3.0), a.lerp(b, 2 / 3.0), b)
    else:   # symmetric arch
        x0, x1 = sorted([rng.randint(-300, 300), rng.randint(-300, 300)]); y0 = rng.randint(-300, 300); h = rng.randint(10, 300)
        c = CubicBezier(P(x0, y0), P(x0, y0 + h), P(x1, y0 + h), P(x1, y0))
    if fam == 'curve-axis':
        # a curve crossed by a piece of a coordinate axis: one coordinate of every crossing point is (nearly) 0
        if rng.random() < 0.4: c = QuadraticBezier(c[0], c[1], c[3])
        if rng.random() < 0.5: l = Line(P(rng.uniform(-500, -310), 0.0), P(rng.uniform(310, 500), 0.0))
        else: l = Line(P(0.0, rng.uniform(-500, -310)), P(0.0, rng.uniform(310, 500)))
        if rng.random() < 0.5: l = Line(l[1], l[0])
    elif fam == 'cubic-vline':
        x = rng.uniform(-250, 250); l = Line(P(x, rng.uniform(-500, -100)), P(x, rng.uniform(100, 500)))
    elif fam == 'cubic-hline' or (fam == 'cubic-arch' and rng.random() < 0.6):
        y = rng.uniform(-250, 250) if fam != 'cubic-arch' else c[0].y + rng.uniform(0.05, 0.7) * (c[1].y - c[0].y)
        l = Line(P(rng.uniform(-500, -310), y), P(rng.uniform(310, 500), y))
    else:
        # a line that really crosses the curve most of the time
        p = c.pointAtTime(rng.uniform(0.05, 0.95)); d = P(rng.uniform(-1, 1), rng.uniform(-1, 1))
        l = Line(p + d * rng.uniform(20, 300), p + d * -rng.uniform(20, 300))
        if rng.random() < 0.3: l = rline()
    return fam, c, l


def pts_of(s): return [(p.x, p.y) for p in s.points]


def truth(c, l, tangent_eps=1e-3):
    """(list of true crossings (t on c, u on l), in_general_position)"""
    a, b = (l[0].x, l[0].y), (l[1].x, l[1].y)
    if math.hypot(b[0] - a[0], b[1] - a[1]) < 1.0: return [], False
    cps = pts_of(c)
    if len(cps) == 2:
        # parallel?
        d1 = (cps[1][0] - cps[0][0], cps[1][1] - cps[0][1]); d2 = (b[0] - a[0], b[1] - a[1])
        n1, n2 = math.hypot(*d1), math.hypot(*d2)
        if n1 < 1.0: return [], False
        if abs(d1[0] * d2[1] - d1[1] * d2[0]) < 1e-3 * n1 * n2: return [], False
    elif ref.near_tangent(cps, a, b, tangent_eps): return [], False
    xs = ref.curve_carrier_crossings(cps, a, b)
    ok, res = True, []
    for x in xs:
        t, u = x['t'], x['u']
        if x['slope'] < 1e-3: ok = False
        inside_t = 1e-4 <= t <= 1 - 1e-4; inside_u = 1e-4 <= u <= 1 - 1e-4
        clear_t = t < -1e-4 or t > 1 + 1e-4; clear_u = u < -1e-4 or u > 1 + 1e-4
        if inside_t and inside_u: res.append((t, u, x['point']))
        elif (inside_t or clear_t) and (inside_u or clear_u): pass
        else: ok = False
    return res, ok


def check_pair(c, l, tangent_eps=1e-3):
    """property C05 on the real implementation for one pair; returns (failures, n_true)"""
    tr, ok = truth(c, l, tangent_eps)
    if not ok: return None, 0
    fails = []
    scale = max(1.0, max(abs(v) for p in pts_of(c) + pts_of(l) for v in p))
    for recv, other, swap in ((c, l, False), (l, c, True)):
        try:
            got = recv.intersections(other)
        except Exception as e:
            fails.append(f'{"line" if swap else "curve"}.intersections raised {type(e).__name__}: {e}'); continue
        if len(got) != len(tr):
            fails.append(f'receiver={"line" if swap else "curve"}: reported {len(got)} intersections, true crossings strictly inside both: {len(tr)} at t={[round(t, 6) for t, _, _ in tr]}')
            continue
        for g in got:
            # degree ordering: the implementation makes the higher-order segment seg1
            if not (0 < g.t1 <= 1 and 0 < g.t2 <= 1): fails.append(f'parameters not in (0,1]: t1={g.t1} t2={g.t2}')
            d = min(math.hypot(g.point.x - p[0], g.point.y - p[1]) for _, _, p in tr)
            if d > 1e-6 * scale: fails.append(f'reported point {g.point} is {d:.3g} from the nearest true crossing (tol {1e-6 * scale:.3g})')
            s1, s2 = g.seg1, g.seg2
            p1, p2 = s1.pointAtTime(g.t1), s2.pointAtTime(g.t2)
            if math.hypot(p1.x - p2.x, p1.y - p2.y) > 2e-6 * scale: fails.append(f'seg1(t1) and seg2(t2) differ by {math.hypot(p1.x - p2.x, p1.y - p2.y):.3g}')
    return fails, len(tr)


def classify(c, l):
    """known-finding class: cubic whose leading coefficient along the line's normal is tiny but above the solver's
    1e-9 threshold (Cardano then divides by it and loses the roots to cancellation)"""
    if len(c.points) == 4:
        try:
            c1 = c.transformed(l.alignmentTransformation())
            pa, pb, pc, pd = [p.y for p in c1.points]
            a = 3 * pa - 6 * pb + 3 * pc; b = -3 * pa + 3 * pb; cc = pa; d = -pa + 3 * pb - 3 * pc + pd
            m = max(abs(a), abs(b), abs(cc))
            if m > 0 and 1e-9 < abs(d) / m <= 1e-4: return 'C05-near-degenerate-cubic'
        except Exception:
            pass
    return 'C05-general'


def search(ctx):
    rng = ctx.rng
    n = ctx.n(800, 20000)
    fails, dist, samples, nontrivial, evals = [], {}, [], set(), 0
    failfam = {}
    for _ in range(n):
        fam, c, l = gen_pair(rng)
        # a hook in the first/last percent is small against the whole curve by construction: its two crossings are still transversal (slope test), so the
        # tangency screen is taken relative to the hook, not to the curve
        f, ntrue = check_pair(c, l, 1e-7 if fam == 'end-hook' else 1e-3)
        if f is None:
            dist[fam + '/skipped-not-general-position'] = dist.get(fam + '/skipped-not-general-position', 0) + 1; continue
        evals += 1
        dist[fam] = dist.get(fam, 0) + 1
        if ntrue: nontrivial.add((gen.seg_key(c), gen.seg_key(l)))
        if len(samples) < 3: samples.append({'family': fam, 'a': gen.seg_json(c), 'b': gen.seg_json(l), 'true_crossings': ntrue})
        if f:
            failfam[fam] = failfam.get(fam, 0) + 1
            fails.append({'class': classify(c, l), 'what': f[0], 'input': {'family': fam, 'a': gen.seg_json(c), 'b': gen.seg_json(l)}, 'observed': f,
                          'expected': 'exactly the transversal crossings strictly inside both segments, parameters in (0,1], points within 1e-6*magnitude'})
    # stale state on either operand: intersect, edit the LINE (or the curve) in place, intersect again
    for _ in range(ctx.n(60, 1000)):
        fam, c, l = gen_pair(rng)
        if len(l.points) != 2: continue
        edit_line = rng.random() < 0.6
        tgt, other = (l, c) if edit_line else (c, l)
        qs = {'intersections (as argument)': lambda x: [(i.t1, i.t2) for i in gen.fresh_copy(other).intersections(x)],
              'intersections (as receiver)': lambda x: [(i.t1, i.t2) for i in x.intersections(gen.fresh_copy(other))]}
        ff = gen.freshness(rng, tgt, qs)
        evals += 1; dist['stale-state'] = dist.get('stale-state', 0) + 1
        if ff: fails.append({'class': 'C05-stale-state', 'what': ff[0], 'input': {'family': fam, 'a': gen.seg_json(c), 'b': gen.seg_json(l), 'stale': True}, 'observed': ff[:3], 'expected': 'the answer for freshly constructed segments with the same control points'})
    return {'evaluations': evals, 'distinct_nontrivial': len(nontrivial), 'failures': fails, 'distribution': dist, 'samples': samples,
            'measured': {'failures_by_family': failfam}}


def replay(ctx, payload):
    i = payload['input']
    f, _ = check_pair(gen.seg_from_json(i['a']), gen.seg_from_json(i['b']), 1e-7 if i.get('family') == 'end-hook' else 1e-3)
    return {'fails': bool(f), 'observed': f}


def check_known(ctx, finding):
    return replay(ctx, {'input': finding['input']})['fails']


def correspond(ctx):
    names = ['Line__line_line_intersections', 'Quad__curve_line_intersections', 'Cubic__curve_line_intersections',
             'Quad__curve_line_intersections_t', 'Cubic__curve_line_intersections_t', 'Line_tOfPoint',
             'Line__findRoots_y', 'Quad__findRoots_y', 'Cubic__findRoots_y', 'utils_quadraticRoots',
             'Line_alignmentTransformation', 'Quad_transformed', 'Cubic_transformed']
    return kernels.cross_check('C05', names, ctx.n(40, 600), ctx.rng)
