"""C06: curve-curve and self intersections: no phantoms, no missed crossings."""
import math, sys
import vlib, gen, ref, kernels
from beziers.point import Point
from beziers.line import Line
from beziers.quadraticbezier import QuadraticBezier
from beziers.cubicbezier import CubicBezier
from beziers.path import BezierPath

RULE = ('(quadratic|cubic) x (quadratic|cubic) pairs in families: random (float/int), second curve built through a point of the first, '
        'the same at scales 1e-3..30 units (tiny/small), axis-parallel and nearly axis-parallel straight cubics (thin boxes), straight cubics in '
        'general direction, looping cubics, overlapping-but-not-crossing arcs.  Ground truth: all crossings by control-box subdivision to 2^-12 in '
        'parameter + Newton polishing, independent of the implementation.  A pair is inside the quantifier iff every crossing in [0,1]^2 is '
        'transversal (angle >= 5 degrees), the crossings are pairwise >= 0.02 apart in parameter on each curve and every crossing is >= 1% away '
        'from the segment ends; other pairs are skipped and counted.  extent = diagonal of the joint bounding box of the two curves, '
        'tolerance = 0.2% of it; checked: every crossing has a reported point within tolerance; no report whose two parameter points are farther '
        'apart than the tolerance; reported point sets of a.intersections(b) and b.intersections(a) within tolerance of each other (Hausdorff).  '
        'Closed paths of 1..6 mixed segments: the same two clauses for getSelfIntersections over all segment pairs (misses only for non-adjacent '
        'pairs); cubics with and without a loop: the double point is computed independently (linear system for s+t, st) and compared.  '
        'non-trivial = pair/path with at least one true crossing, or cubic with an interior loop')
NOT_PROVED = ['the quantitative clause "within 0.2% of the combined extent" (both for missed crossings and for phantoms): the stop rule of '
              '_curve_curve_intersections_t bounds the AREA of the two boxes by 1e-3, not their diameter, so no distance bound follows; what is proved '
              'is the bound |B1(t1)-B2(t2)| <= widths/heights of the two final boxes (+0.06% sliver slack), and that a common point is never pruned '
              'as long as boxes enclose their pieces',
              'operand-order independence up to the tolerance: proved exactly for the reports BEFORE de-duplication (swapped permutation, any carrier incl. binary64; same exception kind over R; mixed-degree operands run the identical computation), and what survives de-duplication is characterised (C06_cc_dedup_sym); count equality / swapped membership after de-duplication is REFUTED on the binary64 model (C06_dedup_count_symmetry_refuted: 1 report one way, 2 the other; same on the real code) -- this is the recorded finding C06-dedup-bucket',
              'no-miss is proved for the reports BEFORE the per-level de-duplication and under the hypothesis that every visited piece is enclosed by '
              'its reported box (C02: true unless a derivative zero falls in the 1% end slivers of a piece); after de-duplication only "a report '
              'with the same 2-decimal key of t1 survives" is proved',
              'floating-point rounding of the split points and boxes (ranges are dyadic and exact; control points are not)']
ASSUMPTIONS = ['Python float = IEEE binary64; "%.2f" % x is the correctly rounded (round-half-even on the exact binary value) 2-decimal string',
               'recursion depth/stack limits of CPython are not modelled (fuel 80 in the correspondence; Python raised no RecursionError on any case)',
               'libm acos/cos/sin/atan2/pow results (curve-line and line-line pairs inside paths) are oracle values in the correspondence']
HAND_FINGERPRINTS = [('utils/intersectionsmixin.py', 'IntersectionsMixin._curve_curve_intersections_t'),
                     ('utils/intersectionsmixin.py', 'IntersectionsMixin._curve_curve_intersections'),
                     ('utils/intersectionsmixin.py', 'IntersectionsMixin.intersections'),
                     ('utils/intersectionsmixin.py', 'Intersection.__init__'),
                     ('utils/booleanoperationsmixin.py', 'BooleanOperationsMixin.getSelfIntersections'),
                     ('segment.py', 'Segment.hasLoop'), ('segment.py', 'Segment.bounds'),
                     ('cubicbezier.py', 'CubicBezier.__init__'), ('quadraticbezier.py', 'QuadraticBezier.__init__')]
GOLDEN_FINGERPRINTS = {'utils/intersectionsmixin.py:IntersectionsMixin._curve_curve_intersections_t': 'b35fdccff8287d89',
                       'utils/intersectionsmixin.py:IntersectionsMixin._curve_curve_intersections': 'ca4d9ca177147ac2',
                       'utils/intersectionsmixin.py:IntersectionsMixin.intersections': '841defb07c671aad',
                       'utils/intersectionsmixin.py:Intersection.__init__': '8c560b4a2a2f078f',
                       'utils/booleanoperationsmixin.py:BooleanOperationsMixin.getSelfIntersections': '50901197e679cf24',
                       'segment.py:Segment.hasLoop': '23de9c09f1377589', 'segment.py:Segment.bounds': 'e660fceb40a64792',
                       'cubicbezier.py:CubicBezier.__init__': 'c14398b5892103c2', 'quadraticbezier.py:QuadraticBezier.__init__': 'c15667bf26e33b3d'}
P = Point
FUEL = 80
KNOWN_CLASSES = ('C06-area-stop', 'C06-dedup-bucket')
IMPORTS = ['Gen.Point', 'Gen.BBox', 'Gen.Line', 'Gen.Quad', 'Gen.Cubic', 'Hand.Bounds', 'Hand.CurveCurve']


# ----------------------------------------------------------------------------- generators
def rpt(rng, scale=300.0, integer=False):
    if integer: return P(float(rng.randint(-int(scale), int(scale))), float(rng.randint(-int(scale), int(scale))))
    return P(rng.uniform(-scale, scale), rng.uniform(-scale, scale))


def rcurve(rng, order=None, scale=300.0, integer=False):
    order = order or rng.choice([3, 4])
    return gen.KINDS[order](*[rpt(rng, scale, integer) for _ in range(order)])


def through(rng, a, scale=300.0):
    """a random curve translated so that one of its interior points coincides with an interior point of a"""
    b = rcurve(rng, scale=scale)
    s, t = rng.uniform(0.05, 0.95), rng.uniform(0.05, 0.95)
    d = a.pointAtTime(s) - b.pointAtTime(t)
    return type(b)(*[p + d for p in b.points])


def straight(rng, a, b, order=4):
    if order == 3: return QuadraticBezier(a, a.lerp(b, rng.choice([0.5, rng.uniform(0.2, 0.8)])), b)
    u, v = (1 / 3.0, 2 / 3.0) if rng.random() < 0.5 else sorted([rng.uniform(0.1, 0.9), rng.uniform(0.1, 0.9)])
    return CubicBezier(a, a.lerp(b, u), a.lerp(b, v), b)


def looping_cubic(rng, scale=300.0):
    """control polygon that crosses itself widely: the curve really loops (checked by the reference, not assumed)"""
    o = rpt(rng, scale); w = rng.uniform(0.3, 1.0) * scale; h = rng.uniform(0.3, 1.0) * scale
    k = rng.uniform(1.2, 3.0)
    c = CubicBezier(o, o + P(k * w, h), o + P(w - k * w, h), o + P(w, rng.uniform(-0.2, 0.2) * h))
    if rng.random() < 0.5: c = CubicBezier(*[P(p.y, p.x) for p in c.points])
    return c


PAIR_FAMILIES = ['symmetric', 'random', 'random-int', 'through', 'through', 'tiny', 'small', 'thin-axis', 'thin-near-axis', 'straight', 'loop', 'overlap-no-cross', 'split-piece', 'arch', 'origin-corner']


def piece_of(parent_json, t, k):
    a = gen.seg_from_json(parent_json).splitAtTime(t)[k]
    a._verif_origin = {'parent': parent_json, 't': t, 'piece': k}
    return a


def pair_json(fam, a, b):
    j = {'family': fam, 'a': gen.seg_json(a), 'b': gen.seg_json(b)}
    if getattr(a, '_verif_origin', None): j['a_is_piece_of'] = a._verif_origin
    return j


def gen_pair(rng, fam=None):
    fam = fam or rng.choice(PAIR_FAMILIES)
    if fam == 'symmetric':
        # two point-symmetric cubics through a common centre, both at t = 1/2: the four half-boxes touch only in that point
        c = P(float(rng.randint(-200, 200)), float(rng.randint(-200, 200)))
        def sym():
            u = P(float(rng.randint(100, 500)), float(rng.randint(-500, 500))); v = P(float(rng.randint(20, 300)), float(rng.randint(-300, 300)))
            return CubicBezier(c + u * -1.0, c + v * -1.0, c + v, c + u)
        a, b = sym(), sym()
        if rng.random() < 0.5: b = CubicBezier(*[P(c.x - (p.y - c.y), c.y + (p.x - c.x)) for p in b.points])
        return fam, a, b
    if fam == 'split-piece':
        # an operand that is itself the product of a user-level splitAtTime (it must behave like a freshly built curve)
        parent = rcurve(rng); t = rng.choice([0.4, 0.5, 0.25, rng.uniform(0.1, 0.9)]); k = rng.randrange(2)
        a = piece_of(gen.seg_json(parent), t, k)
        return fam, a, through(rng, a)
    if fam == 'arch':
        # a symmetric arch (one coordinate exactly linear in t) crossed in the part that sticks out of the box of its end points
        x0, x1 = sorted([float(rng.randint(-300, 300)), float(rng.randint(-300, 300))])
        if x1 - x0 < 40: x1 = x0 + 100.0
        y0 = float(rng.randint(-200, 200)); hgt = float(rng.randint(40, 300)) * rng.choice([1, -1])
        a = QuadraticBezier(P(x0, y0), P((x0 + x1) / 2, y0 + hgt), P(x1, y0 + rng.choice([0.0, 0.0, float(rng.randint(-20, 20))])))
        if rng.random() < 0.3: a = QuadraticBezier(*[P(q.y, q.x) for q in a.points])          # linear in y instead
        # the partner stays on the apex side of the chord: it crosses the arch between 15% and 85% of the apex height
        t1, t2 = rng.uniform(0.15, 0.45), rng.uniform(0.55, 0.85)
        p1, p2 = a.pointAtTime(t1), a.pointAtTime(t2)
        apex = a.pointAtTime(0.5); base = a[0].lerp(a[2], 0.5); out = (apex - base)
        b = QuadraticBezier(p1 + (p1 - p2) * 0.5 + out * rng.uniform(0.0, 0.3), p1.lerp(p2, 0.5) + out * rng.uniform(-0.25, -0.05), p2 + (p2 - p1) * 0.5 + out * rng.uniform(0.0, 0.3))
        return fam, a, b
    if fam == 'origin-corner':
        # a curve that starts (or ends) EXACTLY at the origin and stays in one quadrant: its box, and the box of the first piece at every level
        # of the subdivision, has a corner at exactly (0.0, 0.0)
        sx, sy = rng.choice([-1, 1]), rng.choice([-1, 1]); k = rng.choice([3, 4])
        ps = [P(0.0, 0.0)] + [P(sx * rng.uniform(20, 400), sy * rng.uniform(20, 400)) for _ in range(k - 1)]
        if rng.random() < 0.3: ps = [P(float(round(q.x)), float(round(q.y))) for q in ps]
        if rng.random() < 0.5: ps.reverse()
        a = gen.KINDS[k](*ps)
        b = through(rng, a)
        if rng.random() < 0.5: a, b = b, a
        return fam, a, b
    if fam == 'random': return fam, rcurve(rng), rcurve(rng)
    if fam == 'random-int': return fam, rcurve(rng, integer=True), rcurve(rng, integer=True)
    if fam == 'through':
        a = rcurve(rng); return fam, a, through(rng, a)
    if fam in ('tiny', 'small'):
        sc = 10.0 ** rng.uniform(-3, 0) if fam == 'tiny' else rng.uniform(1, 30)
        a = rcurve(rng, scale=sc); return fam, a, through(rng, a, scale=sc)
    if fam in ('thin-axis', 'thin-near-axis'):
        L = rng.uniform(50, 400); o = rpt(rng, 200)
        eps = 0.0 if fam == 'thin-axis' else rng.choice([1e-6, 1e-5, 1e-4, 1e-3, 1e-2]) * rng.uniform(0.5, 2) * rng.choice([-1, 1])
        d = P(L, L * eps)
        if rng.random() < 0.5: d = P(d.y, d.x)
        a = straight(rng, o, o + d, rng.choice([3, 4]))
        k = rng.random()
        if k < 0.4:   # a genuinely curved transversal partner through a point of a
            b = through(rng, a)
        elif k < 0.8:  # the perpendicular axis-parallel straight curve
            m = a.pointAtTime(rng.uniform(0.1, 0.9)); n = P(-d.y, d.x) * (rng.uniform(0.3, 1.5) / 1.0)
            u = rng.uniform(0.2, 0.8)
            b = straight(rng, m + n * -u, m + n * (1 - u), rng.choice([3, 4]))
        else: b = rcurve(rng)
        if rng.random() < 0.5: a, b = b, a
        return fam, a, b
    if fam == 'straight':
        a = straight(rng, rpt(rng), rpt(rng), rng.choice([3, 4]))
        m = a.pointAtTime(rng.uniform(0.1, 0.9)); n = P(rng.uniform(-300, 300), rng.uniform(-300, 300)); u = rng.uniform(0.2, 0.8)
        b = straight(rng, m + n * -u, m + n * (1 - u), rng.choice([3, 4])) if rng.random() < 0.7 else through(rng, a)
        return fam, a, b
    if fam == 'loop':
        a = looping_cubic(rng); b = through(rng, a) if rng.random() < 0.8 else rcurve(rng)
        if rng.random() < 0.5: a, b = b, a
        return fam, a, b
    if fam == 'overlap-no-cross':
        # two nested arcs: boxes overlap, curves stay apart
        o = rpt(rng, 200); w = rng.uniform(50, 300); h = rng.uniform(50, 300); g = rng.uniform(0.02, 0.3) * h
        a = CubicBezier(o, o + P(0, h), o + P(w, h), o + P(w, 0))
        b = CubicBezier(o + P(0, -g), o + P(0, h - g), o + P(w, h - g), o + P(w, -g)) if rng.random() < 0.5 else \
            QuadraticBezier(o + P(w * 0.1, 0), o + P(w / 2, h * rng.uniform(0.5, 1.2)), o + P(w * 0.9, 0))
        return fam, a, b
    raise ValueError(fam)


def gen_path_segments(rng):
    """closed chain of 1..6 mixed segments (random nodes: usually self-crossing)"""
    n = rng.randint(1, 6)
    integer = rng.random() < 0.3
    nodes = [rpt(rng, 300, integer) for _ in range(n)]
    if n == 1:
        c = looping_cubic(rng) if rng.random() < 0.7 else rcurve(rng, 4)
        return [c]
    segs = []
    for i in range(n):
        a, b = nodes[i], nodes[(i + 1) % n]
        k = rng.choice([2, 2, 3, 4, 4])
        if n == 2 and k == 2 and i == 1 and len(segs[0].points) == 2: k = 4
        if k == 2: segs.append(Line(a, b))
        elif k == 3: segs.append(QuadraticBezier(a, rpt(rng, 300, integer), b))
        else: segs.append(looping_cubic(rng) if rng.random() < 0.1 else CubicBezier(a, rpt(rng, 300, integer), rpt(rng, 300, integer), b))
    # looping_cubic breaks the chain: re-anchor its ends (connectedness is not what C06 is about, but keep a real closed path)
    for i in range(n):
        s = segs[i]; a, b = nodes[i], nodes[(i + 1) % n]
        if len(s.points) == 4 and (s[0] is not a):
            segs[i] = CubicBezier(a, s[1], s[2], b)
    return segs


# ----------------------------------------------------------------------------- correspondence
def ccurve(s):
    return f'({ {3: "CQuad", 4: "CCubic"}[len(s.points)]} {vlib.cseg(s)})'


def cpiece(s):
    return f'(Piece {ccurve(s)} {vlib.fhex(s._range[0])} {vlib.fhex(s._range[1])})'


def key_of_string(s):
    """the Python string "%.2f" % x -> the model's key (class, hundredths)"""
    if s == 'nan' or s == '-nan': return (4, 0)
    if s == 'inf': return (2, 0)
    if s == '-inf': return (3, 0)
    neg = s.startswith('-')
    body = s[1:] if neg else s
    ip, fp = body.split('.')
    assert len(fp) == 2
    return (1 if neg else 0, int(ip + fp))


def ckey(k): return f'({k[0]}%Z, {k[1]}%Z)'


PRE = ('Definition cc := cc_t FOps key2F keyF_eqb %d%%nat.\n'
       'Definition tt_eq (a b : float * float) : bool := feq (fst a) (fst b) && feq (snd a) (snd b).\n'
       'Definition sx_eq (a b : nat * nat * (float * pt float * float)) : bool := Nat.eqb (fst (fst a)) (fst (fst b)) && Nat.eqb (snd (fst a)) (snd (fst b)) && ix_feq (snd a) (snd b).\n'
       'Definition err_eqb (a b : cc_error) : bool := match a, b with OutOfFuel, OutOfFuel | RangeAssert, RangeAssert | NoBounds, NoBounds | DispatchError, DispatchError => true | _, _ => false end.\n'
       'Definition res_eq {A} (e : A -> A -> bool) (r : result (list A)) (x : result (list A)) : bool := match r, x with Ok l, Ok m => list_eqb e l m | Err a, Err b => err_eqb a b | _, _ => false end.\n'
       'Definition keys_ok (l : list (float * (Z * Z))) : bool := forallb (fun p => keyF_eqb (key2F (fst p)) (snd p)) l.\n') % FUEL


def py_result(f):
    """run f; map the exceptions the model represents to its error constructors"""
    try:
        return 'ok', f()
    except AssertionError:
        return 'err', 'RangeAssert'
    except RecursionError:
        return 'err', 'OutOfFuel'


def c_ttlist(kind, val):
    if kind == 'err': return f'(Err {val})'
    return '(Ok ' + vlib.clist([f'({vlib.fhex(a)}, {vlib.fhex(b)})' for a, b in val]) + ')'


def c_ixlist(kind, val):
    if kind == 'err': return f'(Err {val})'
    return '(Ok ' + vlib.clist([f'({vlib.fhex(i.t1)}, {vlib.cpt(i.point)}, {vlib.fhex(i.t2)})' for i in val]) + ')'


def huge_pair(rng):
    """coordinates ~1e30: boxes never get small before the parameter ranges collapse -> AssertionError in Python"""
    a = rcurve(rng, scale=1e30); return a, through(rng, a, scale=1e30)


def correspond(ctx):
    rng = ctx.rng
    px = kernels.proxy()
    names = ['Cubic_hasLoop', 'BBox_overlaps', 'BBox_area', 'Quad_findExtremes', 'Cubic_findExtremes_False', 'Quad_pointAtTime', 'Cubic_pointAtTime']
    res = kernels.cross_check('C06', names, ctx.n(30, 500), rng)
    cases, meta, dist = [], [], {}
    def add(kind, case, m):
        cases.append(case); meta.append(dict(m, kind=kind)); dist[kind] = dist.get(kind, 0) + 1
    # (1) the key "%.2f" % x: every k/2^d, d <= 12, and specials / random floats / negative values
    xs = [k / 4096.0 for k in range(4097)]
    xs += [0.0, -0.0, 0.005, 0.015, 0.125, 0.375, 0.994999, 0.995, 1.0, 1.005, -0.001, -0.004999, -0.005, -0.125, 2.675, 1e22, 1e-320, 5e-324, float('inf'), float('-inf'), float('nan'), 123456.785]
    xs += [rng.random() for _ in range(ctx.n(300, 3000))] + [rng.uniform(-3, 3) for _ in range(100)] + [(2 * k + 1) / 2.0 ** rng.randint(13, 60) for k in range(100)]
    xs += [k / 2.0 ** 30 for k in (rng.randrange(2 ** 30) for _ in range(200))]
    seen_t1 = []
    # (2) _curve_curve_intersections_t on whole curves and on pieces with hand-set ranges
    for _ in range(ctx.n(120, 2500)):
        fam, a, b = gen_pair(rng)
        if rng.random() < 0.15:
            lo = rng.choice([0.0, 0.25, 0.5, rng.random() * 0.9]); a._range = [lo, lo + rng.choice([0.5, 0.25, 0.1, 2.0 ** -20]) * (1 - lo)]
            lo = rng.choice([0.0, 0.25, 0.5, rng.random() * 0.9]); b._range = [lo, lo + rng.choice([0.5, 0.25, 0.1, 2.0 ** -20]) * (1 - lo)]
        kind, val = py_result(lambda: [tuple(t) for t in a._curve_curve_intersections_t(b)])
        if kind == 'ok': seen_t1 += [t[0] for t in val]
        add('cc_t/' + fam, f'res_eq tt_eq (cc {cpiece(a)} {cpiece(b)}) {c_ttlist(kind, val)}',
            {'a': gen.seg_json(a), 'b': gen.seg_json(b), 'ranges': [list(a._range), list(b._range)], 'python': val if kind == 'err' else [list(t) for t in val][:6]})
    # the recorded minimal inputs of the known findings and the Coq refutation witness: model and code must agree on the failure
    for f in vlib.known_findings():
        if f.get('property') == 'C06' and 'pair' in (f.get('input') or {}):
            for a, b in ((gen.seg_from_json(f['input']['pair']['a']), gen.seg_from_json(f['input']['pair']['b'])),
                         (gen.seg_from_json(f['input']['pair']['b']), gen.seg_from_json(f['input']['pair']['a']))):
                kind, val = py_result(lambda: [tuple(t) for t in a._curve_curve_intersections_t(b)])
                add('cc_t/known-finding-input', f'res_eq tt_eq (cc {cpiece(a)} {cpiece(b)}) {c_ttlist(kind, val)}',
                    {'a': gen.seg_json(a), 'b': gen.seg_json(b), 'python': val if kind == 'err' else [list(t) for t in val]})
    for _ in range(ctx.n(4, 40)):
        a, b = huge_pair(rng)
        kind, val = py_result(lambda: [tuple(t) for t in a._curve_curve_intersections_t(b)])
        add('cc_t/huge-' + ('assert' if kind == 'err' else 'ok'), f'res_eq tt_eq (cc {cpiece(a)} {cpiece(b)}) {c_ttlist(kind, val)}',
            {'a': gen.seg_json(a), 'b': gen.seg_json(b), 'python': val if kind == 'err' else len(val)})
    xs += seen_t1
    for k in range(0, len(xs), 64):
        chunk = xs[k:k + 64]
        add('key2', 'keys_ok ' + vlib.clist([f'({vlib.fhex(x)}, {ckey(key_of_string("%.2f" % x))})' for x in chunk]), {'values': chunk[:4]})
    # (3) Segment.intersections over all kind combinations (lines included), limited True/False
    for _ in range(ctx.n(120, 2500)):
        r = rng.random()
        if r < 0.6: fam, a, b = gen_pair(rng)
        else:
            fam = 'with-line'; a = rcurve(rng, rng.choice([3, 4])) if rng.random() < 0.8 else Line(rpt(rng), rpt(rng))
            m = a.pointAtTime(rng.uniform(0.1, 0.9)); n = P(rng.uniform(-300, 300), rng.uniform(-300, 300)); u = rng.uniform(0.2, 0.8)
            b = Line(m + n * -u, m + n * (1 - u))
            if rng.random() < 0.5: a, b = b, a
        limited = rng.random() < 0.7
        px.take()
        try:
            kind, val = py_result(lambda: a.intersections(b, limited=limited))
        except (ZeroDivisionError, ValueError, OverflowError):
            dist['intersections/python-raised'] = dist.get('intersections/python-raised', 0) + 1; continue
        tbl = px.take()
        add(f'intersections/{len(a.points)}x{len(b.points)}',
            f'res_eq ix_feq (intersections (FOpsT {vlib.clibm(tbl)}) key2F keyF_eqb {FUEL}%nat {vlib.csegment(a)} {vlib.csegment(b)} {vlib.cbool(limited)}) {c_ixlist(kind, val)}',
            {'a': gen.seg_json(a), 'b': gen.seg_json(b), 'limited': limited, 'python': val if kind == 'err' else [[i.t1, i.t2] for i in val][:6]})
    # (4) getSelfIntersections on closed paths of 1..6 segments
    for _ in range(ctx.n(60, 1200)):
        segs = gen_path_segments(rng)
        path = BezierPath.fromSegments(segs)
        px.take()
        try:
            kind, val = py_result(lambda: path.getSelfIntersections())
        except (ZeroDivisionError, ValueError, OverflowError):
            dist['self/python-raised'] = dist.get('self/python-raised', 0) + 1; continue
        tbl = px.take()
        if kind == 'ok':
            idx = {id(s): i for i, s in enumerate(path.asSegments())}
            exp = '(Ok ' + vlib.clist([f'({idx[id(i.seg1)]}%nat, {idx[id(i.seg2)]}%nat, ({vlib.fhex(i.t1)}, {vlib.cpt(i.point)}, {vlib.fhex(i.t2)}))' for i in val]) + ')'
        else: exp = f'(Err {val})'
        add(f'self/{len(segs)}-segments',
            f'res_eq sx_eq (self_intersections (FOpsT {vlib.clibm(tbl)}) key2F keyF_eqb {FUEL}%nat {vlib.clist([vlib.csegment(s) for s in path.asSegments()])}) {exp}',
            {'path': [gen.seg_json(s) for s in segs], 'python': val if kind == 'err' else [[i.t1, i.t2] for i in val][:6]})
    r2 = vlib.run_case_files('C06', 'hand', IMPORTS, PRE, cases, per_file=40)
    out = {'n': res['n'] + r2['n'], 'agree': res['agree'] + r2['agree'], 'failing': res['failing'] + r2['failing'], 'errors': res['errors'] + r2['errors'],
           'distribution': dict(res['distribution'], **dist), 'samples': res['samples'] + [m for m in meta if m['kind'].startswith('cc_t')][:1],
           'kinds': {'kernels': len(names), 'hand_models': 4}}
    if r2['failing']: out['first_disagreement'] = [meta[i] for i in r2['failing'][:3]]
    elif res['failing']: out['first_disagreement'] = res.get('first_disagreement')
    # the subdivision itself as REGENERATED from utils/intersectionsmixin.py (Gen/CurveCurve.v: a Fixpoint on fuel for each pair of curve
    # classes, `assert` / unset boxes as exceptions, the lazy filter as a fold over the dict), equal to the hand model by Proofs/Bridge4.v
    kernels.merge_cross_check(out, 'C06', ['Quad__curve_curve_intersections_t_Quad', 'Quad__curve_curve_intersections_t_Cubic', 'Cubic__curve_curve_intersections_t_Quad',
        'Cubic__curve_curve_intersections_t_Cubic', 'Quad__curve_curve_intersections_Quad', 'Cubic__curve_curve_intersections_Cubic', 'Line_intersections_Line',
        'Line_intersections_Quad', 'Line_intersections_Cubic', 'Quad_intersections_Line', 'Quad_intersections_Quad', 'Quad_intersections_Cubic', 'Cubic_intersections_Line',
        'Cubic_intersections_Quad', 'Cubic_intersections_Cubic'], ctx.n(10, 150), rng)
    # getSelfIntersections as regenerated from utils/booleanoperationsmixin.py (Gen/PathOps.v; related to the hand model's index form by Proofs/Bridge5.v)
    kernels.merge_cross_check(out, 'C06', ['Path_getSelfIntersections'], ctx.n(30, 300), rng, label='regenerated-kernels-round5')
    return out


# ----------------------------------------------------------------------------- reference: all crossings of two Bezier segments
def cps(s): return [(p.x, p.y) for p in s.points]


def _split_half(pts):
    left, right = [pts[0]], [pts[-1]]
    p = pts
    while len(p) > 1:
        p = [((a[0] + b[0]) / 2, (a[1] + b[1]) / 2) for a, b in zip(p, p[1:])]
        left.append(p[0]); right.append(p[-1])
    return left, right[::-1]


def _cbox(pts):
    xs = [p[0] for p in pts]; ys = [p[1] for p in pts]
    return min(xs), min(ys), max(xs), max(ys)


def _ov(a, b):
    return a[0] <= b[2] and b[0] <= a[2] and a[1] <= b[3] and b[1] <= a[3]


DEPTH = 12
CELL = 2.0 ** -DEPTH


def candidate_cells(A, B, cap=700):
    """parameter cells (lo corners) of width 2^-12 whose control boxes still overlap; None when too many (overlapping curves)"""
    out = []
    stack = [(A, 0.0, B, 0.0, 0)]
    while stack:
        a, alo, b, blo, d = stack.pop()
        if not _ov(_cbox(a), _cbox(b)): continue
        if d == DEPTH:
            out.append((alo, blo))
            if len(out) > cap: return None
            continue
        w = 2.0 ** -(d + 1)
        a1, a2 = _split_half(a); b1, b2 = _split_half(b)
        for x, xlo in ((a1, alo), (a2, alo + w)):
            for y, ylo in ((b1, blo), (b2, blo + w)):
                stack.append((x, xlo, y, ylo, d + 1))
    return out


def clusters(cells):
    """connected components under 'within 2 cells in both parameters'"""
    cells = sorted(cells)
    parent = list(range(len(cells)))
    def find(i):
        while parent[i] != i:
            parent[i] = parent[parent[i]]; i = parent[i]
        return i
    for i in range(len(cells)):
        for j in range(i + 1, len(cells)):
            if cells[j][0] - cells[i][0] > 2.5 * CELL: break
            if abs(cells[j][1] - cells[i][1]) <= 2.5 * CELL: parent[find(i)] = find(j)
    groups = {}
    for i, c in enumerate(cells): groups.setdefault(find(i), []).append(c)
    return list(groups.values())


def newton(A, B, s, t, scale):
    """Newton on F(s,t) = A(s) - B(t); returns (s, t, residual, converged)"""
    for _ in range(40):
        pa, pb = ref.bern(A, s), ref.bern(B, t)
        fx, fy = pa[0] - pb[0], pa[1] - pb[1]
        da, db = ref.dbern(A, s), ref.dbern(B, t)
        det = -da[0] * db[1] + db[0] * da[1]     # | da.x  -db.x ; da.y  -db.y |
        if det == 0 or det != det: return s, t, math.hypot(fx, fy), False
        ds = (-fx * db[1] + db[0] * fy) / det
        dt = (da[0] * fy - da[1] * fx) / det
        s -= ds; t -= dt
        if not (-0.5 < s < 1.5 and -0.5 < t < 1.5): return s, t, float('inf'), False
        if abs(ds) < 1e-15 and abs(dt) < 1e-15: break
    pa, pb = ref.bern(A, s), ref.bern(B, t)
    r = math.hypot(pa[0] - pb[0], pa[1] - pb[1])
    return s, t, r, r <= 1e-9 * scale


def local_min_dist(A, B, cl):
    """smallest distance between the curves over the cluster's cells (dense local sampling + refinement)"""
    s0 = min(c[0] for c in cl); s1 = max(c[0] for c in cl) + CELL
    t0 = min(c[1] for c in cl); t1 = max(c[1] for c in cl) + CELL
    best = float('inf')
    for _ in range(6):
        n = 12
        cand = []
        for i in range(n + 1):
            s = s0 + (s1 - s0) * i / n; pa = ref.bern(A, s)
            for j in range(n + 1):
                t = t0 + (t1 - t0) * j / n; pb = ref.bern(B, t)
                cand.append((math.hypot(pa[0] - pb[0], pa[1] - pb[1]), s, t))
        d, s, t = min(cand)
        best = min(best, d)
        ws, wt = (s1 - s0) / n, (t1 - t0) / n
        s0, s1, t0, t1 = max(0.0, s - ws), min(1.0, s + ws), max(0.0, t - wt), min(1.0, t + wt)
    return best


def cross_angle_deg(A, B, s, t):
    da, db = ref.dbern(A, s), ref.dbern(B, t)
    na, nb = math.hypot(*da), math.hypot(*db)
    if na == 0 or nb == 0: return 0.0
    return math.degrees(math.asin(min(1.0, abs(da[0] * db[1] - da[1] * db[0]) / (na * nb))))


def crossings(A, B):
    """(list of {s,t,point,angle} with 0<=s,t<=1, status); status 'ok' | 'overlapping' | 'tangent-contact'"""
    allp = A + B
    scale = max(1e-300, math.hypot(max(p[0] for p in allp) - min(p[0] for p in allp), max(p[1] for p in allp) - min(p[1] for p in allp)))
    cells = candidate_cells(A, B)
    if cells is None: return [], 'overlapping'
    roots = []
    status = 'ok'
    for cl in clusters(cells):
        if len(cl) > 200: return [], 'overlapping'
        s0 = min(c[0] for c in cl); s1 = max(c[0] for c in cl) + CELL
        t0 = min(c[1] for c in cl); t1 = max(c[1] for c in cl) + CELL
        starts = [((s0 + s1) / 2, (t0 + t1) / 2), (s0, t0), (s1, t1), (s0, t1), (s1, t0)] + [(c[0] + CELL / 2, c[1] + CELL / 2) for c in cl[:: max(1, len(cl) // 6)]]
        found = []
        for s, t in starts:
            s, t, r, ok = newton(A, B, s, t, scale)
            if not ok: continue
            if not (s0 - 3 * CELL <= s <= s1 + 3 * CELL and t0 - 3 * CELL <= t <= t1 + 3 * CELL): continue
            if any(abs(s - x[0]) < 1e-8 and abs(t - x[1]) < 1e-8 for x in found): continue
            found.append((s, t))
        if not found:
            if local_min_dist(A, B, cl) <= 1e-7 * scale: status = 'tangent-contact'
            continue
        for s, t in found:
            if -1e-12 <= s <= 1 + 1e-12 and -1e-12 <= t <= 1 + 1e-12:
                s, t = min(1.0, max(0.0, s)), min(1.0, max(0.0, t))
                if any(abs(s - x['s']) < 1e-8 and abs(t - x['t']) < 1e-8 for x in roots): continue
                roots.append({'s': s, 't': t, 'point': ref.bern(A, s), 'angle': cross_angle_deg(A, B, s, t)})
    return roots, status


def curve_box(pts):
    """tight bounding box of a Bezier segment (degree <= 3): ends and interior derivative zeros"""
    ts = [0.0, 1.0]
    n = len(pts) - 1
    for k in (0, 1):
        w = [n * (b[k] - a[k]) for a, b in zip(pts, pts[1:])]
        if len(w) == 2:
            den = w[0] - w[1]
            if den != 0: ts.append(w[0] / den)
        elif len(w) == 3:
            a = w[0] - 2 * w[1] + w[2]; b = 2 * (w[1] - w[0]); c = w[0]
            if a == 0:
                if b != 0: ts.append(-c / b)
            else:
                disc = b * b - 4 * a * c
                if disc >= 0:
                    q = math.sqrt(disc); ts += [(-b + q) / (2 * a), (-b - q) / (2 * a)]
    ps = [ref.bern(pts, t) for t in ts if 0 <= t <= 1]
    return min(p[0] for p in ps), min(p[1] for p in ps), max(p[0] for p in ps), max(p[1] for p in ps)


def combined_extent(A, B):
    a, b = curve_box(A), curve_box(B)
    return math.hypot(max(a[2], b[2]) - min(a[0], b[0]), max(a[3], b[3]) - min(a[1], b[1]))


def in_quantifier(roots, status, ignore=None):
    """the quantifier of C06 for one pair: transversal >= 5 degrees, >= 0.02 apart on each curve, >= 1% from the ends"""
    if status != 'ok': return status
    rs = [r for r in roots if not (ignore and ignore(r))]
    for r in rs:
        if r['angle'] < 5.0: return 'non-transversal'
        if not (0.01 <= r['s'] <= 0.99 and 0.01 <= r['t'] <= 0.99): return 'crossing-near-end'
    for i in range(len(rs)):
        for j in range(i + 1, len(rs)):
            if abs(rs[i]['s'] - rs[j]['s']) < 0.02 or abs(rs[i]['t'] - rs[j]['t']) < 0.02: return 'crossings-too-close'
    return None


def dist(p, q): return math.hypot(p[0] - q[0], p[1] - q[1])


# ----------------------------------------------------------------------------- classification of failures (computed from the input)
def ref_raw(X, Y, cap=60000):
    """independent re-run of the subdivision of _curve_curve_intersections_t WITHOUT the duplicate filter: halve both control polygons
    (de Casteljau), prune on box overlap, stop when both TIGHT boxes have area < 1e-3; returns the list of (mid1, mid2) or None (too many)"""
    out = []
    stack = [(X, 0.0, 1.0, Y, 0.0, 1.0)]
    n = 0
    while stack:
        a, alo, ahi, b, blo, bhi = stack.pop()
        n += 1
        if n > cap: return None
        ba, bb = curve_box(a), curve_box(b)
        if not _ov(ba, bb): continue
        if (ba[2] - ba[0]) * (ba[3] - ba[1]) < 1e-3 and (bb[2] - bb[0]) * (bb[3] - bb[1]) < 1e-3:
            out.append((0.5 * (alo + ahi), 0.5 * (blo + bhi))); continue
        a1, a2 = _split_half(a); b1, b2 = _split_half(b)
        am, bm = alo + (ahi - alo) * 0.5, blo + (bhi - blo) * 0.5
        for x, xl, xh in ((a2, am, ahi), (a1, alo, am)):
            for y, yl, yh in ((b2, bm, bhi), (b1, blo, bm)):
                stack.append((x, xl, xh, y, yl, yh))
    return out


def classify(A, B, roots, tol, missed=None, lib_t1=(), receiver_is_b=False):
    """class of a failure of the pair with control polygons A, B (roots: crossings with s on A, t on B), computed from the input alone:
       'C06-area-stop'    the un-deduplicated subdivision already violates the property: some pair of final boxes (area < 1e-3 each)
                          has mid-points farther apart than the tolerance, or no final pair lies within tolerance of a crossing
                          -- the stop rule bounds box area, not diameter;
       'C06-dedup-bucket' the un-deduplicated subdivision satisfies the property, and (for a missed crossing) a raw report within
                          tolerance of it shares its "%.2f" key of t1 with a report that was kept: the 0.01-wide key bucket is coarser
                          than the tolerance, the filter kept a farther report of the same bucket;
       'C06-general'      anything else (an unexplained failure)"""
    # seg1 of the call: the receiver, unless the argument has the higher degree
    if receiver_is_b: sw = not (len(A) > len(B))
    else: sw = len(B) > len(A)
    X, Y = (B, A) if sw else (A, B)
    raw = ref_raw(X, Y)
    if raw is None: return 'C06-general'
    for u, v in raw:
        if dist(ref.bern(X, u), ref.bern(Y, v)) > tol: return 'C06-area-stop'
    for r in roots:
        if min([dist(ref.bern(X, u), r['point']) for u, v in raw], default=float('inf')) > tol: return 'C06-area-stop'
    if missed is None: return 'C06-dedup-bucket' if len(lib_t1) < len(raw) else 'C06-general'
    kept = {'%.2f' % t for t in lib_t1}
    near = [u for u, v in raw if dist(ref.bern(X, u), missed) <= tol]
    if any(('%.2f' % u) in kept for u in near): return 'C06-dedup-bucket'
    return 'C06-general'


# ----------------------------------------------------------------------------- the property on the real implementation
def check_pair(a, b):
    """C06 for one (quadratic|cubic) pair; returns (failures [(class, text)], n_true_crossings, skip_reason)"""
    A, B = cps(a), cps(b)
    roots, status = crossings(A, B)
    why = in_quantifier(roots, status)
    if why: return None, 0, why
    tol = 0.002 * combined_extent(A, B)
    fails = []
    reports = {}
    for tag, x, y, rb_ in (('a.intersections(b)', a, b, False), ('b.intersections(a)', b, a, True)):
        try:
            got = x.intersections(y)
        except Exception as e:
            fails.append(('C06-exception', f'{tag} raised {type(e).__name__}: {e}')); reports[tag] = None; continue
        pts = []
        t1s = [i.t1 for i in got]
        for i in got:
            S1, S2 = cps(i.seg1), cps(i.seg2)
            p1, p2 = ref.bern(S1, i.t1), ref.bern(S2, i.t2)
            pts.append((i.point.x, i.point.y))
            if dist(p1, p2) > tol:
                fails.append((classify(A, B, roots, tol, receiver_is_b=rb_), f'{tag}: phantom: reported t1={i.t1!r} t2={i.t2!r} whose points are {dist(p1, p2):.4g} apart (tolerance {tol:.4g})'))
        for r in roots:
            d = min([dist(p, r['point']) for p in pts], default=float('inf'))
            if d > tol:
                fails.append((classify(A, B, roots, tol, missed=r['point'], lib_t1=t1s, receiver_is_b=rb_), f'{tag}: missed crossing at s={r["s"]:.6f} t={r["t"]:.6f} point=({r["point"][0]:.6g},{r["point"][1]:.6g}), angle {r["angle"]:.1f} deg: nearest reported point is {d:.4g} away (tolerance {tol:.4g}; {len(pts)} reports)'))
        reports[tag] = (pts, t1s)
    ra, rb = reports.get('a.intersections(b)'), reports.get('b.intersections(a)')
    if ra is not None and rb is not None:
        pa, pb = ra[0], rb[0]
        h = 0.0
        for u, v in ((pa, pb), (pb, pa)):
            for p in u: h = max(h, min([dist(p, q) for q in v], default=float('inf')))
        if h > tol:
            fails.append((classify(A, B, roots, tol, lib_t1=min(ra[1], rb[1], key=len), receiver_is_b=len(rb[1]) < len(ra[1])), f'operand order: reported point sets differ by {h:.4g} (tolerance {tol:.4g}): {len(pa)} vs {len(pb)} reports'))
    return fails, len(roots), None


def loop_params(c):
    """independent double point of a cubic: B(s) = B(t), s != t  <=>  A(m) + B(sigma) + C = 0 with sigma = s+t, m = sigma^2 - st;
    returns (s, t) real and distinct, or None, or 'degenerate' """
    (x0, y0), (x1, y1), (x2, y2), (x3, y3) = c
    Ax, Bx, Cx = -x0 + 3 * x1 - 3 * x2 + x3, 3 * x0 - 6 * x1 + 3 * x2, -3 * x0 + 3 * x1
    Ay, By, Cy = -y0 + 3 * y1 - 3 * y2 + y3, 3 * y0 - 6 * y1 + 3 * y2, -3 * y0 + 3 * y1
    det = Ax * By - Ay * Bx
    sc = max(abs(v) for v in (Ax, Bx, Cx, Ay, By, Cy)) or 1.0
    if abs(det) <= 1e-9 * sc * sc: return 'degenerate'
    m = (-Cx * By + Cy * Bx) / det
    sg = (-Ax * Cy + Ay * Cx) / det
    pi = sg * sg - m
    disc = sg * sg - 4 * pi
    if abs(disc) < 1e-9: return 'degenerate'
    if disc < 0: return None
    q = math.sqrt(disc)
    return tuple(sorted(((sg - q) / 2, (sg + q) / 2)))


def check_cubic_loop(c):
    """returns (failures, has_interior_loop, skip_reason)"""
    C = cps(c)
    lp = loop_params(C)
    if lp == 'degenerate': return None, False, 'degenerate-cubic'
    interior = lp is not None and 0 < lp[0] < 1 and 0 < lp[1] < 1
    if lp is not None and not interior and any(abs(v) < 1e-6 or abs(v - 1) < 1e-6 for v in lp): return None, False, 'loop-at-end'
    if lp is not None and interior and any(v < 1e-6 or v > 1 - 1e-6 for v in lp): return None, False, 'loop-at-end'
    ext = max(1e-300, math.hypot(*(lambda b: (b[2] - b[0], b[3] - b[1]))(curve_box(C))))
    fails = []
    try:
        rep = [i for i in BezierPath.fromSegments([c]).getSelfIntersections()]
        hl = c.hasLoop
    except Exception as e:
        return [('C06-exception', f'{type(e).__name__}: {e}')], interior, None
    if interior:
        if len(rep) != 1: fails.append(('C06-loop', f'looping cubic (double point at {lp}): getSelfIntersections reports {len(rep)} intersections'))
        if not hl: fails.append(('C06-loop', f'looping cubic (double point at {lp}): hasLoop is {hl!r}'))
        for i in rep:
            t1, t2 = sorted([i.t1, i.t2])
            if not (0 < t1 < 1 and 0 < t2 < 1) or t1 == t2: fails.append(('C06-loop', f'reported loop parameters {i.t1!r}, {i.t2!r} are not two distinct interior values'))
            p1, p2 = ref.bern(C, i.t1), ref.bern(C, i.t2)
            if dist(p1, p2) > 1e-6 * ext: fails.append(('C06-loop', f'reported loop parameters evaluate to points {dist(p1, p2):.3g} apart'))
            if abs(t1 - lp[0]) > 1e-6 or abs(t2 - lp[1]) > 1e-6: fails.append(('C06-loop', f'reported loop parameters {t1!r}, {t2!r} differ from the double point {lp}'))
    else:
        if rep: fails.append(('C06-loop', f'cubic without an interior loop (double point: {lp}): getSelfIntersections reports {[(i.t1, i.t2) for i in rep]}'))
    return fails, interior, None


def check_path(segs):
    """C06 for the self-intersection query of a closed path; returns (failures, n_true, skip_reason)"""
    n = len(segs)
    S = [cps(s) for s in segs]
    truth = {}
    for i in range(n):
        for j in range(i + 1, n):
            roots, status = crossings(S[i], S[j])
            adj_fwd = (j == i + 1)                 # end of i = start of j
            adj_back = (i == 0 and j == n - 1)     # end of j = start of i
            def shared(r, adj_fwd=adj_fwd, adj_back=adj_back):
                return (adj_fwd and r['s'] > 1 - 1e-6 and r['t'] < 1e-6) or (adj_back and r['s'] < 1e-6 and r['t'] > 1 - 1e-6)
            why = in_quantifier(roots, status, ignore=shared if (adj_fwd or adj_back) else None)
            if why: return None, 0, why
            truth[(i, j)] = ([r for r in roots if not shared(r)], adj_fwd or adj_back)
    for s in segs:
        if len(s.points) == 4:
            lp = loop_params(cps(s))
            if lp == 'degenerate': return None, 0, 'degenerate-cubic'
            if lp is not None and any(abs(v) < 1e-6 or abs(v - 1) < 1e-6 for v in lp): return None, 0, 'loop-at-end'
    path = BezierPath.fromSegments(segs)
    try:
        got = path.getSelfIntersections()
    except Exception as e:
        return [('C06-exception', f'getSelfIntersections raised {type(e).__name__}: {e}')], 0, None
    idx = {id(s): k for k, s in enumerate(path.asSegments())}
    fails = []
    ntrue = 0
    by_pair = {}
    for i in got:
        k1, k2 = idx[id(i.seg1)], idx[id(i.seg2)]
        if k1 == k2: continue          # loop reports are checked by check_cubic_loop
        by_pair.setdefault((min(k1, k2), max(k1, k2)), []).append(i)
    for (i, j), (roots, adjacent) in truth.items():
        tol = 0.002 * combined_extent(S[i], S[j])
        reps = by_pair.get((i, j), [])
        for rp in reps:
            p1, p2 = ref.bern(cps(rp.seg1), rp.t1), ref.bern(cps(rp.seg2), rp.t2)
            if dist(p1, p2) > tol:
                curved = len(S[i]) > 2 and len(S[j]) > 2
                fails.append((classify(S[i], S[j], roots, tol) if curved else 'C06-path-line', f'segments {i},{j}: phantom: t1={rp.t1!r} t2={rp.t2!r}, points {dist(p1, p2):.4g} apart (tolerance {tol:.4g})'))
        if adjacent: continue
        ntrue += len(roots)
        for r in roots:
            d = min([dist((rp.point.x, rp.point.y), r['point']) for rp in reps], default=float('inf'))
            if d > tol:
                curved = len(S[i]) > 2 and len(S[j]) > 2
                fails.append((classify(S[i], S[j], roots, tol, missed=r['point'], lib_t1=[rp.t1 for rp in reps]) if curved else 'C06-path-line', f'segments {i},{j} (non-adjacent): missed crossing at s={r["s"]:.6f} t={r["t"]:.6f}, angle {r["angle"]:.1f} deg: nearest report {d:.4g} away (tolerance {tol:.4g}; {len(reps)} reports for this pair)'))
    return fails, ntrue, None


def search(ctx):
    rng = ctx.rng
    fails, dist_, samples, nontrivial, evals = [], {}, [], set(), 0
    byclass = {}
    def record(cls_text, inp, expected):
        cls_text = sorted(cls_text, key=lambda ct: ct[0] in KNOWN_CLASSES)      # unexplained classes first: never hidden behind a known one
        for cls, text in cls_text[:1]:
            byclass[cls] = byclass.get(cls, 0) + 1
            fails.append({'class': cls, 'what': text, 'input': inp, 'observed': [t for _, t in cls_text][:6], 'expected': expected})
    for _ in range(ctx.n(260, 6000)):
        fam, a, b = gen_pair(rng)
        f, ntrue, why = check_pair(a, b)
        if f is None:
            k = f'pair/{fam}/skipped-{why}'; dist_[k] = dist_.get(k, 0) + 1; continue
        evals += 1; dist_['pair/' + fam] = dist_.get('pair/' + fam, 0) + 1
        if ntrue: nontrivial.add((gen.seg_key(a), gen.seg_key(b)))
        if len(samples) < 2: samples.append({'family': fam, 'a': gen.seg_json(a), 'b': gen.seg_json(b), 'true_crossings': ntrue})
        if f: record(f, {'pair': pair_json(fam, a, b)},
                     'every transversal interior crossing reported within 0.2% of the combined extent; no report with parameter points farther apart; order independent')
    for _ in range(ctx.n(40, 600)):
        fam, a, b = gen_pair(rng, fam=rng.choice(['random', 'through', 'random-int']))
        qs = {'intersections-with-partner': lambda x: sorted((round(i.t1, 9), round(i.t2, 9)) for i in x.intersections(gen.fresh_copy(b))),
              'partner-intersections-with-it': lambda x: sorted((round(i.t1, 9), round(i.t2, 9)) for i in gen.fresh_copy(b).intersections(x)),
              'bounds': lambda x: x.bounds()}
        ff = gen.freshness(rng, a, qs)
        evals += 1; dist_['stale-state'] = dist_.get('stale-state', 0) + 1
        if ff: record([('C06-stale-state', ff[0])], {'stale': {'a': gen.seg_json(a), 'b': gen.seg_json(b)}}, 'the same answer as for freshly constructed curves with the same control points')
    for _ in range(ctx.n(300, 6000)):
        k = rng.random()
        # loops of every absolute size (the loop test is scale-free): em-normalised outlines have loops a few thousandths of a unit across
        c = looping_cubic(rng, scale=rng.choice([300.0, 300.0, 30.0, 1.0, 0.05, 0.005, 5000.0])) if k < 0.5 else rcurve(rng, 4, integer=rng.random() < 0.3)
        f, interior, why = check_cubic_loop(c)
        if f is None:
            dist_[f'cubic/skipped-{why}'] = dist_.get(f'cubic/skipped-{why}', 0) + 1; continue
        evals += 1; kk = 'cubic/with-loop' if interior else 'cubic/without-loop'; dist_[kk] = dist_.get(kk, 0) + 1
        if interior: nontrivial.add(gen.seg_key(c))
        if f: record(f, {'cubic': gen.seg_json(c)}, 'two distinct interior parameters of the double point iff the cubic loops')
    for _ in range(ctx.n(120, 3000)):
        segs = gen_path_segments(rng)
        f, ntrue, why = check_path(segs)
        if f is None:
            dist_[f'path/skipped-{why}'] = dist_.get(f'path/skipped-{why}', 0) + 1; continue
        evals += 1; dist_[f'path/{len(segs)}-segments'] = dist_.get(f'path/{len(segs)}-segments', 0) + 1
        if ntrue: nontrivial.add(tuple(gen.seg_key(s) for s in segs))
        if len(samples) < 3 and ntrue: samples.append({'path': [gen.seg_json(s) for s in segs], 'true_crossings_of_non_adjacent_segments': ntrue})
        if f: record(f, {'path': [gen.seg_json(s) for s in segs]}, 'every crossing of non-adjacent segments reported within tolerance; no phantom report')
    return {'evaluations': evals, 'distinct_nontrivial': len(nontrivial), 'failures': fails, 'distribution': dist_, 'samples': samples,
            'measured': {'failures_by_class': byclass}}


def replay(ctx, payload):
    i = payload['input']
    if 'stale' in i: return {'fails': True, 'observed': 'stale-state sequence: rerun the search with the same seed'}
    if 'pair' in i:
        o = i['pair'].get('a_is_piece_of')
        a = piece_of(o['parent'], o['t'], o['piece']) if o else gen.seg_from_json(i['pair']['a'])
        f, _, why = check_pair(a, gen.seg_from_json(i['pair']['b']))
    elif 'cubic' in i: f, _, why = check_cubic_loop(gen.seg_from_json(i['cubic']))
    else: f, _, why = check_path([gen.seg_from_json(s) for s in i['path']])
    return {'fails': bool(f), 'observed': f, 'skipped': why}


def check_known(ctx, finding):
    return replay(ctx, {'input': finding['input']})['fails']
