"""C19: bounding-box predicates and the sweep pairing match their definitions."""
import itertools
import vlib, gen, kernels
from beziers.point import Point
from beziers.boundingbox import BoundingBox
from beziers.path.geometricshapes import Rectangle
from beziers.line import Line
from beziers.cubicbezier import CubicBezier
from beziers.quadraticbezier import QuadraticBezier
from beziers.utils.linesweep import bbox_intersections

RULE = ('boxes/points on an integer grid (incl. zero-width/zero-height boxes, points on edges and corners) and random floats; sweep: ALL '
        'configurations of <=2+2 boxes on a 4x4 grid satisfying the tie condition, plus random collections of 0..40 rectangles, lines and cubics '
        'satisfying it; non-trivial = at least one overlapping pair')
NOT_PROVED = ['nothing: the statement is proved in full over R, and (Proofs/C19float.v, via Flocq) the binary64 instance of includes / overlaps / the whole sweep is proved EQUAL to the real instance on the real values of finite inputs, so every theorem transfers to floats; NaN/infinite coordinates are outside (witnesses: includes_needs_finite, overlaps_nan_true_computed)']
ASSUMPTIONS = ['Coq.Floats.FloatAxioms (stdlib specification of the primitive float operations) for the float-instance theorems', 'distinct shapes compare unequal (object identity); value-equal but distinct Segment objects in one collection are outside the Coq model (shapes are indices there) and are exercised on the real code by the search']
HAND_FINGERPRINTS = [('utils/linesweep.py', 'bbox_intersections'), ('utils/linesweep.py', 'dequefilter')]
P = Point


def box(x0, y0, x1, y1):
    b = BoundingBox(); b.bl, b.tr = P(x0, y0), P(x1, y1); return b


class Shape:
    """anything with bounds(): the sweep only uses .bounds()"""
    def __init__(self, b): self.b = b
    def bounds(self): return self.b


def cbox(b): return f'(BB {vlib.cpt(b.bl)} {vlib.cpt(b.tr)})'


def tie_free(A, B):
    for a in A:
        for b in B:
            lo, hi = max(a.left, b.left), min(a.right, b.right)
            if not (lo < hi or a.right < b.left or b.right < a.left): return False
    return True


def brute(A, B):
    return sorted((i, j) for i, a in enumerate(A) for j, b in enumerate(B)
                  if a.left <= b.right and b.left <= a.right and a.bottom <= b.top and b.bottom <= a.top)


def run_sweep(A, B):
    sa, sb = [Shape(a) for a in A], [Shape(b) for b in B]
    ia = {id(s): i for i, s in enumerate(sa)}; ib = {id(s): i for i, s in enumerate(sb)}
    out = []
    for o, o2 in bbox_intersections(sa, sb):
        if id(o) in ia: out.append((True, ia[id(o)], ib[id(o2)]))
        else: out.append((False, ib[id(o)], ia[id(o2)]))
    return out


def rand_boxes(rng, n, grid):
    out = []
    for _ in range(n):
        if grid:
            x0, x1 = sorted([rng.randint(0, 6), rng.randint(0, 6)]); y0, y1 = sorted([rng.randint(0, 6), rng.randint(0, 6)])
        else:
            x0, x1 = sorted([rng.uniform(-100, 100), rng.uniform(-100, 100)]); y0, y1 = sorted([rng.uniform(-100, 100), rng.uniform(-100, 100)])
        out.append(box(float(x0), float(y0), float(x1), float(y1)))
    return out


def correspond(ctx):
    rng = ctx.rng
    res = kernels.cross_check('C19', ['BBox_includes', 'BBox_overlaps', 'BBox_area', 'linesweep_dequefilter', 'linesweep_bbox_intersections'], ctx.n(150, 2000), rng)     # the last two: the sweep as regenerated from the source (Proofs/Bridge3.v)
    cases, meta = [], []
    for _ in range(ctx.n(250, 4000)):
        grid = rng.random() < 0.6
        A = rand_boxes(rng, rng.randint(0, 6 if grid else 12), grid); B = rand_boxes(rng, rng.randint(0, 6 if grid else 12), grid)
        got = run_sweep(A, B)      # ties allowed here: model and code must agree on ANY input, also outside the quantifier
        exp = vlib.clist([f'({vlib.cbool(f)}, {i}%nat, {j}%nat)' for f, i, j in got])
        cases.append(f'(list_eqb (fun a b => Bool.eqb (fst (fst a)) (fst (fst b)) && Nat.eqb (snd (fst a)) (snd (fst b)) && Nat.eqb (snd a) (snd b)) '
                     f'(bbox_intersections FOps {vlib.clist([cbox(a) for a in A])} {vlib.clist([cbox(b) for b in B])}) {exp})')
        meta.append({'A': [[a.left, a.bottom, a.right, a.top] for a in A], 'B': [[b.left, b.bottom, b.right, b.top] for b in B], 'python': got})
    r2 = vlib.run_case_files('C19', 'sweep', ['Gen.Point', 'Gen.BBox', 'Hand.Sweep'], '', cases)
    out = {'n': res['n'] + r2['n'], 'agree': res['agree'] + r2['agree'], 'failing': res['failing'] + r2['failing'], 'errors': res['errors'] + r2['errors'],
           'distribution': dict(res['distribution'], sweep_histories=r2['n']), 'samples': res['samples'] + meta[:1], 'kinds': {'kernels': 3, 'hand_models': 1}}
    if r2['failing']: out['first_disagreement'] = [meta[i] for i in r2['failing'][:3]]
    elif res['failing']: out['first_disagreement'] = res.get('first_disagreement')
    return out


def check_predicates(b, p, c):
    fails = []
    inc = b.includes(p)
    want = b.bl.x <= p.x <= b.tr.x and b.bl.y <= p.y <= b.tr.y
    if inc != want: fails.append(f'includes: box ({b.left},{b.bottom})-({b.right},{b.top}) point ({p.x},{p.y}) -> {inc}, definition says {want}')
    ov = b.overlaps(c); wo = (b.left <= c.right and c.left <= b.right) and (b.bottom <= c.top and c.bottom <= b.top)
    if ov != wo: fails.append(f'overlaps: {ov}, definition says {wo}')
    if c.overlaps(b) != ov: fails.append('overlaps is not symmetric')
    return fails


def check_sweep(A, B):
    if not tie_free(A, B): return None
    try:
        got = run_sweep(A, B)
    except Exception as e:
        return [f'bbox_intersections raised {type(e).__name__}: {e}']
    pairs = sorted((i, j) if f else (j, i) for f, i, j in got)
    want = brute(A, B)
    if pairs != want:
        return [f'sweep returned pairs {pairs}, overlapping pairs are {want}']
    return []


def search(ctx):
    rng = ctx.rng
    fails, seen, dist, samples, ev = [], set(), {}, [], 0
    for _ in range(ctx.n(600, 20000)):
        grid = rng.random() < 0.7
        b, c = rand_boxes(rng, 2, grid)
        p = P(float(rng.randint(0, 6)), float(rng.randint(0, 6))) if grid else P(rng.uniform(-100, 100), rng.uniform(-100, 100))
        if rng.random() < 0.3: p = P(rng.choice([b.left, b.right]), rng.choice([b.bottom, b.top]))
        ev += 1; dist['predicates/' + ('grid' if grid else 'float')] = dist.get('predicates/' + ('grid' if grid else 'float'), 0) + 1
        seen.add((b.left, b.bottom, b.right, b.top, p.x, p.y))
        f = check_predicates(b, p, c)
        if f: fails.append({'class': 'C19-predicate', 'what': f[0], 'input': {'box': [b.left, b.bottom, b.right, b.top], 'other': [c.left, c.bottom, c.right, c.top], 'point': [p.x, p.y]}, 'observed': f, 'expected': 'closed-range definitions'})
    # boundary cases in binary floating point: boxes that touch along an edge / at a corner at coordinates that are not dyadic
    # (0.1, 0.3, 1/3, large magnitudes), and points one ulp or a 1e-9 relative step beyond an edge
    import math as _m
    for _ in range(ctx.n(400, 8000)):
        sc = rng.choice([1.0, 1.0, 1e3, 1e16, 1e-3])
        v = lambda: rng.choice([0.1, 0.2, 0.3, 0.7, 1 / 3, 2 / 3, 1.1, rng.uniform(0, 3), float(rng.randint(1, 300))]) * sc
        x0, w, y0, h = v(), v(), v(), v()
        b = box(x0, y0, x0 + w, y0 + h)
        k = rng.choice(['edge-x', 'edge-y', 'corner', 'point-out', 'point-ulp'])
        w2, h2 = v(), v()
        if k == 'edge-x': c = box(b.right, y0 + rng.uniform(-0.5, 0.5) * h, b.right + w2, y0 + h2)
        elif k == 'edge-y': c = box(x0 + rng.uniform(-0.5, 0.5) * w, b.top, x0 + w2, b.top + h2)
        else: c = box(b.right, b.top, b.right + w2, b.top + h2)
        if rng.random() < 0.5: c = box(b.left - w2, c.bottom, b.left, c.top) if k == 'edge-x' else c
        side = rng.choice(['l', 'r', 'b', 't'])
        step = (lambda z, up: _m.nextafter(z, _m.inf if up else -_m.inf)) if k == 'point-ulp' else (lambda z, up: z + (1 if up else -1) * abs(z) * rng.choice([1e-10, 5e-10, 9e-10]))
        midx, midy = (b.left + b.right) / 2, (b.bottom + b.top) / 2
        p = {'l': P(step(b.left, False), midy), 'r': P(step(b.right, True), midy), 'b': P(midx, step(b.bottom, False)), 't': P(midx, step(b.top, True))}[side]
        ev += 1; dist['predicates/boundary-' + k] = dist.get('predicates/boundary-' + k, 0) + 1
        f = check_predicates(b, p, c)
        if f: fails.append({'class': 'C19-predicate', 'what': f[0], 'input': {'box': [b.left, b.bottom, b.right, b.top], 'other': [c.left, c.bottom, c.right, c.top], 'point': [p.x, p.y]}, 'observed': f, 'expected': 'closed-range definitions'})
    # exhaustive small sweep configurations on a grid (thorough: 2+2 boxes on 0..3; quick: 1+2)
    coords = range(0, 4 if ctx.tier == 'thorough' else 3)
    allb = [box(float(x0), float(y0), float(x1), float(y1)) for x0 in coords for x1 in coords if x0 <= x1 for y0 in (0, 1) for y1 in (0, 2) if y0 <= y1]
    na = 2 if ctx.tier == 'thorough' else 1
    exh = 0
    for A in itertools.combinations_with_replacement(allb, na):
        for B in itertools.combinations_with_replacement(allb, 2):
            f = check_sweep(list(A), list(B))
            if f is None: continue
            exh += 1
            if f: fails.append({'class': 'C19-sweep', 'what': f[0], 'input': {'A': [[a.left, a.bottom, a.right, a.top] for a in A], 'B': [[b.left, b.bottom, b.right, b.top] for b in B]}, 'observed': f, 'expected': 'each overlapping pair exactly once'})
    dist['sweep/exhaustive-grid'] = exh; ev += exh
    for _ in range(ctx.n(250, 5000)):
        grid = rng.random() < 0.3
        A = rand_boxes(rng, rng.randint(0, 40), grid); B = rand_boxes(rng, rng.randint(0, 40), grid)
        if grid:   # nudge to satisfy the tie condition
            B = [box(b.left + 0.5, b.bottom, b.right + 0.75, b.top) for b in B]
        f = check_sweep(A, B)
        if f is None: dist['sweep/skipped-tie'] = dist.get('sweep/skipped-tie', 0) + 1; continue
        ev += 1; dist['sweep/random'] = dist.get('sweep/random', 0) + 1
        if brute(A, B): seen.add(('sweep', len(A), len(B), len(brute(A, B)), A[0].left if A else 0))
        if len(samples) < 2: samples.append({'A': len(A), 'B': len(B), 'overlapping_pairs': len(brute(A, B))})
        if f: fails.append({'class': 'C19-sweep', 'what': f[0], 'input': {'A': [[a.left, a.bottom, a.right, a.top] for a in A], 'B': [[b.left, b.bottom, b.right, b.top] for b in B]}, 'observed': f, 'expected': 'each overlapping pair exactly once'})
    # real shapes (paths and segments), as the API is used
    for _ in range(ctx.n(30, 400)):
        A = [Rectangle(rng.uniform(5, 80), rng.uniform(5, 80), origin=P(rng.uniform(-200, 200), rng.uniform(-200, 200))) for _ in range(rng.randint(0, 10))]
        B = [gen.segment(rng, order=rng.choice([2, 3, 4]), fam='float')[0] for _ in range(rng.randint(0, 10))]
        if B and rng.random() < 0.5:
            # distinct Segment OBJECTS that compare equal (coincident segments): they are different shapes and each pairs on its own
            for _k in range(rng.randint(1, 2)): B.insert(rng.randrange(len(B) + 1), gen.fresh_copy(rng.choice(B)))
            if rng.random() < 0.5: A, B = B, A
        elif B:
            # a segment that is a PREFIX of another one in the same collection: the Line along a curve's first handle, the quadratic through a cubic's
            # first three control points (different shapes with different boxes, although their leading control points are equal)
            for _k in range(rng.randint(1, 3)):
                c = rng.choice(B)
                if len(c.points) >= 3:
                    pre = Line(P(c[0].x, c[0].y), P(c[1].x, c[1].y)) if (len(c.points) == 3 or rng.random() < 0.6) else QuadraticBezier(P(c[0].x, c[0].y), P(c[1].x, c[1].y), P(c[2].x, c[2].y))
                    B.insert(rng.randrange(len(B) + 1), pre)
            if rng.random() < 0.5: A, B = B, A
        if A and isinstance(A[0], type(Rectangle(1, 1))) and rng.random() < 0.4:
            # tiny but real shapes (3e-9 .. 1e-5 units across: down to 1e-11 of their coordinates) at ordinary coordinates, inside or outside the rectangles of the other collection
            for _k in range(rng.randint(1, 3)):
                r_ = rng.choice(A); bb = r_.bounds(); sz = 10.0 ** rng.uniform(-8.5, -5)
                o_ = P(rng.uniform(bb.left, bb.right) if rng.random() < 0.7 else rng.uniform(-300, 300), rng.uniform(bb.bottom, bb.top) if rng.random() < 0.7 else rng.uniform(-300, 300))
                B.insert(rng.randrange(len(B) + 1), Line(o_, P(o_.x + sz, o_.y + sz * rng.uniform(0.2, 1))))
        if not tie_free([a.bounds() for a in A], [b.bounds() for b in B]): continue
        ev += 1; dist['sweep/shapes'] = dist.get('sweep/shapes', 0) + 1
        try:
            got = bbox_intersections(A, B)
            ia = {id(s): i for i, s in enumerate(A)}; ib = {id(s): i for i, s in enumerate(B)}
            pairs = sorted((ia[id(o)], ib[id(o2)]) if id(o) in ia else (ia[id(o2)], ib[id(o)]) for o, o2 in got)
            want = brute([a.bounds() for a in A], [b.bounds() for b in B])
            if pairs != want: fails.append({'class': 'C19-sweep', 'what': f'shapes: {pairs} vs {want}', 'input': None, 'observed': pairs, 'expected': want})
        except Exception as e:
            fails.append({'class': 'C19-sweep', 'what': f'bbox_intersections raised {type(e).__name__}: {e}', 'input': None, 'observed': str(e), 'expected': 'no exception'})
    # stale state: sweep, move a path of one collection in place, sweep again (cached boxes must not survive the move)
    for _ in range(ctx.n(25, 400)):
        A = [Rectangle(rng.uniform(5, 80), rng.uniform(5, 80), origin=P(rng.uniform(-200, 200), rng.uniform(-200, 200))) for _ in range(rng.randint(1, 6))]
        B = [Rectangle(rng.uniform(5, 80), rng.uniform(5, 80), origin=P(rng.uniform(-200, 200), rng.uniform(-200, 200))) for _ in range(rng.randint(1, 6))]
        try:
            bbox_intersections(A, B)
            mv = rng.choice(A + B); mv.translate(P(rng.uniform(-150, 150), rng.uniform(-150, 150)))
            if not tie_free([a.bounds() for a in A], [b.bounds() for b in B]): continue
            got = bbox_intersections(A, B)
            ia = {id(s): i for i, s in enumerate(A)}; ib = {id(s): i for i, s in enumerate(B)}
            pairs = sorted((ia[id(o)], ib[id(o2)]) if id(o) in ia else (ia[id(o2)], ib[id(o)]) for o, o2 in got)
            want = brute([a.bounds() for a in A], [b.bounds() for b in B])
        except Exception as e:
            pairs, want = ('raised', type(e).__name__), None
        ev += 1; dist['sweep/stale-state'] = dist.get('sweep/stale-state', 0) + 1
        if pairs != want: fails.append({'class': 'C19-sweep', 'what': f'after moving one path in place and sweeping again: {pairs} vs {want}', 'input': None, 'observed': pairs, 'expected': want})
    return {'evaluations': ev, 'distinct_nontrivial': len(seen), 'failures': fails, 'distribution': dist, 'samples': samples}


def replay(ctx, payload):
    i = payload['input']
    if i is None: return {'fails': True, 'observed': 'no concrete input recorded'}
    if 'box' in i:
        f = check_predicates(box(*i['box']), P(*i['point']), box(*i['other']))
    else:
        f = check_sweep([box(*a) for a in i['A']], [box(*b) for b in i['B']])
    return {'fails': bool(f), 'observed': f}


def check_known(ctx, finding):
    return replay(ctx, {'input': finding['input']})['fails']
