"""C12: polygon-mode Boolean operations have exact region semantics."""
import math, random as _random
import vlib, gen, ref, kernels
from props import clipglue as cg
from props.clipglue import P

RULE = ('pairs of closed paths: kinds rect / ellipse / circle / star-shaped simple contour of mixed lines, quadratics and cubics / random (mostly '
        'self-intersecting) mixed contour, x configurations disjoint / nested / touching (bounding boxes share a side: common edge stretch, tangent '
        'extremes) / crossing, sizes 20..1500 with integer and float coordinates, centres within +-3000 (everything within +-5000); x union, '
        'intersection, difference with flat=True; ~200 probe points per pair, half of them 2..8 units off an input outline, all farther than the '
        'flattening deviation (+0.02 for the 1/100 grid) from both TRUE input outlines; non-trivial = pair whose outlines cross or nest '
        '(intersection non-empty) or touch')
NOT_PROVED = ['Clipper itself: its even-odd region semantics is a premise of C12_region_semantics (spot-checked on every recorded run)',
              'the flattening deviation (<= 2 units for lines and cubics): measured, not proved; so the region statement is proved about the even-odd '
              'interiors of the truncated, scaled, flattened chains, not about the true curved outlines',
              'the two area identities (consequences of measure additivity + the region statement): measured only',
              'object-level non-interference (no input Segment/Point object is mutated or shared with a result): rests on BezierPath.clone '
              'cloning every segment (C07); measured (deep repr before/after, id()-disjointness)']
ASSUMPTIONS = ['pyclipper.Pyclipper.Execute(ct, PFT_EVENODD, PFT_EVENODD) returns polygons whose even-odd interior is ct(subject, clip) away from the input edges (premise clipper_spec)',
               'the polygons Clipper returns are non-empty, have coordinates below 1e9 and no repeated consecutive vertices (premise clipper_poly_ok; checked on every recorded run)',
               'pyclipper converts the float coordinates it is given with int() (truncation towards zero)',
               'dict lookups keyed by Points / Segments with integer-valued coordinates below 1e9 are exact coordinate comparisons (no hash collisions between unequal points)',
               'Segment.flatten(2) of curved pieces and Segment.intersections are oracles (recorded from the real run) in the correspondence; the theorems hold for every value of them']
HAND_FINGERPRINTS = cg.HAND_FINGERPRINTS
GOLDEN_FINGERPRINTS = cg.GOLDEN_FINGERPRINTS
OPS3 = ('union', 'intersection', 'difference')
BOP = {'union': lambda a, b: a or b, 'intersection': lambda a, b: a and b, 'difference': lambda a, b: a and not b}


# ------------------------------------------------------------------------------------------------ correspondence
def pip(poly, p):
    return ref.even_odd(poly, p)


def clipper_spot_check(run, op, rng, n=40):
    """the Clipper hypothesis on a recorded run: even-odd membership in the result polygons = op of the memberships in the
    subject and clip polygons, at sample points more than 2 grid units from every input edge.  Returns (checked, bad)"""
    rec = run['rec']
    if len(rec.addpath) != 2 or not rec.execute or rec.execute[0]['result'] is None: return 0, []
    roles = cg.recorded_roles(rec)
    if roles is None: return 1, [{'q': None, 'result': 'AddPath/Execute were not called as (one closed SUBJECT, one closed CLIP, even-odd, even-odd)', 'expected': None}]
    subj_z, clip_z = roles
    res = rec.execute[0]['result']
    for poly in res:       # premise clipper_poly_ok of the polygon-mode theorems
        n_ = len(poly)
        if n_ == 0 or any(abs(c) >= 10 ** 9 for v in poly for c in v) or any(poly[i] == poly[(i + 1) % n_] for i in range(n_) if n_ > 1):
            return 1, [{'q': None, 'result': 'polygon violates clipper_poly_ok', 'expected': poly[:4]}]
    oa, ob = cg.Outline(subj_z), cg.Outline(clip_z)
    xs = [v[0] for v in subj_z + clip_z]; ys = [v[1] for v in subj_z + clip_z]
    checked, bad = 0, []
    allv = subj_z + clip_z
    for k in range(n):
        if k % 2:
            v = rng.choice(allv); q = (v[0] + rng.uniform(-900, 900), v[1] + rng.uniform(-900, 900))
        else:
            q = (rng.uniform(min(xs) - 50, max(xs) + 50), rng.uniform(min(ys) - 50, max(ys) + 50))
        if rng.random() < 0.5: q = (float(round(q[0])), float(round(q[1])) + 0.5)
        if oa.within(q, 2.5) or ob.within(q, 2.5): continue
        inr = False
        for poly in res: inr ^= pip(poly, q)
        want = BOP[op](oa.inside(q), ob.inside(q))
        checked += 1
        if inr != want: bad.append({'q': q, 'result': inr, 'expected': want})
    return checked, bad


def correspond(ctx):
    rng = ctx.rng
    cases, meta = [], []
    dist = {}
    spot_n, spot_bad = 0, []
    todo = []
    # fixed corpus: the configurations of DESIGN D10/D17 and degenerate answers
    c1, c2 = cg.Circle(50, origin=P(0, 0)), cg.Circle(50, origin=P(41, 0))
    r1, r2 = cg.Rectangle(100, 100, origin=P(0, 0)), cg.Rectangle(100, 100, origin=P(50, 50))
    far = cg.Rectangle(10, 10, origin=P(900, 900))
    for A, B, tag in ((r1, r2, 'squares-crossing'), (c1, c2, 'circles-crossing'), (r1, far, 'disjoint-squares'), (r1, c2, 'square-circle')):
        for op in OPS3:
            todo.append((A, B, op, True, {'kinds': tag, 'config': 'corpus'}))
    n = ctx.n(14, 200)
    for i in range(n):
        A, B, m = cg.gen_pair(rng, big=False if rng.random() < 0.9 else None)
        todo.append((A, B, rng.choice(OPS3), True, m))
    for A, B, op, flat, m in todo:
        ap, bp = cg.path_pts(A), cg.path_pts(B)
        run = cg.record_clip(A, B, op, flat)
        cases.append(cg.coq_case(ap, bp, op, flat, run))
        key = f"{m['config']}/{op}"
        dist[key] = dist.get(key, 0) + 1
        meta.append({'A': cg.path_json(A), 'B': cg.path_json(B), 'op': op, 'flat': flat, 'meta': m,
                     'python': run['raised'] or [len(p.asSegments()) for p in run['result']]})
        k, bad = clipper_spot_check(run, op, rng)
        spot_n += k; spot_bad += [dict(b, case=len(cases) - 1) for b in bad]
    res = vlib.run_case_files('C12', 'glue', cg.IMPORTS, cg.PREAMBLE, cases, per_file=max(1, len(cases) // 16 + 1))
    out = {'n': res['n'], 'agree': res['agree'], 'failing': res['failing'], 'errors': res['errors'],
           'distribution': dict(dist, clipper_hypothesis_points_checked=spot_n, clipper_hypothesis_points_bad=len(spot_bad)),
           'samples': [{k: v for k, v in meta[0].items() if k != 'A' and k != 'B'}, meta[len(meta) // 2]], 'kinds': {'hand_models': 1}}
    if res['failing']: out['first_disagreement'] = [meta[i] for i in res['failing'][:2]]
    if spot_bad:
        # the extern's hypothesis does not hold on a recorded run: report as a disagreement (the theorems' premise fails)
        out['agree'] = min(out['agree'], out['n'] - 1)
        out['first_disagreement'] = {'clipper_hypothesis': spot_bad[:3], 'case': meta[spot_bad[0]['case']]}
    # clip / union / intersection / difference as REGENERATED from utils/booleanoperationsmixin.py (round 6: pyclipper is an abstract parameter of the generated text --
    # replayed from the recorded real calls --, everything else is computed: intersections, splitAtPoints, flatten(2), LUT, reconstruction), and Segment.__eq__
    kernels.merge_cross_check(out, 'C12', ['Path_clip', 'Path_union', 'Path_intersection', 'Path_difference', 'Line___eq___Line', 'Quad___eq___Quad', 'Cubic___eq___Cubic', 'Line___eq___Cubic',
                                           'Cubic___eq___Quad'], ctx.n(8, 100), rng, label='regenerated-kernels-round6')
    return out


# ------------------------------------------------------------------------------------------------ search
def result_region_area(paths):
    """region area with the result paths' own area query: holes come back with the opposite orientation, so the area of
    the region is |sum of signed areas| (sum of .area would count holes twice)"""
    return abs(sum(p.signed_area for p in paths))


def chain_failures(paths, op):
    out = []
    for k, p in enumerate(paths):
        segs = p.asSegments()
        if not p.closed: out.append(f'{op}: result path {k} is not flagged closed')
        if any(len(s.points) != 2 for s in segs): out.append(f'{op}: result path {k} has a non-line segment in polygon mode')
        if len(segs) < 3: out.append(f'{op}: result path {k} has only {len(segs)} edges')
        for i, s in enumerate(segs):
            nx = segs[(i + 1) % len(segs)]
            if (s.end.x, s.end.y) != (nx.start.x, nx.start.y):
                out.append(f'{op}: result path {k}: edge {i} ends at {s.end} but edge {(i + 1) % len(segs)} starts at {nx.start}'
                           + (' (closing edge missing)' if i == len(segs) - 1 else ''))
                break
    return out


def probe_points(rng, A_pts, B_pts, oa, ob, thr, n):
    xs = [p[0] for p in oa.poly + ob.poly]; ys = [p[1] for p in oa.poly + ob.poly]
    x0, x1, y0, y1 = min(xs), max(xs), min(ys), max(ys)
    mx, my = 0.08 * (x1 - x0) + 5, 0.08 * (y1 - y0) + 5
    out, tries = [], 0
    allsegs = A_pts + B_pts
    ix0, ix1 = max(min(p[0] for p in oa.poly), min(p[0] for p in ob.poly)), min(max(p[0] for p in oa.poly), max(p[0] for p in ob.poly))
    iy0, iy1 = max(min(p[1] for p in oa.poly), min(p[1] for p in ob.poly)), min(max(p[1] for p in oa.poly), max(p[1] for p in ob.poly))
    while len(out) < n and tries < 6 * n:
        tries += 1
        if tries % 2:
            s = rng.choice(allsegs); t = rng.random()
            p = ref.bern(s, t); d = ref.dbern(s, t)
            L = math.hypot(*d)
            if L == 0: continue
            off = rng.choice([-1, 1]) * (thr + rng.choice([0.05, 0.3, 1.0, rng.uniform(0, 6)]))
            q = (p[0] - d[1] / L * off, p[1] + d[0] / L * off)
        elif tries % 4 == 0 and ix0 < ix1 and iy0 < iy1:
            q = (rng.uniform(ix0, ix1), rng.uniform(iy0, iy1))         # where the two bounding boxes overlap
        else:
            q = (rng.uniform(x0 - mx, x1 + mx), rng.uniform(y0 - my, y1 + my))
        if oa.within(q, thr) or ob.within(q, thr): continue
        out.append(q)
    return out


def check_pair(A, B, m, seed2, nprobe=200):
    """the property as written, on the real implementation; returns (failures, measured)"""
    rng = _random.Random(seed2)
    fails, meas = [], {}
    A, B = cg.prepared(A, B, m)
    A_pts, B_pts = cg.path_pts(A), cg.path_pts(B)
    before = (cg.deep_repr(A), cg.deep_repr(B))
    ids_in = {id(s) for p in (A, B) for s in p.asSegments()} | {id(q) for p in (A, B) for s in p.asSegments() for q in s.points}
    results, dev = {}, 0.0
    has_quad = any(len(s) == 3 for s in A_pts + B_pts)
    for op in OPS3:
        run = cg.record_clip(A, B, op, True)
        if run['raised']:
            fails.append(('C12-exception', f"{op}(flat=True) raised {run['raised']}")); continue
        results[op] = run['result']
        for f in run['rec'].flatten:
            if f['degree'] == 2 and len(f['seg'].points) > 2 and op == 'union':
                dev = max(dev, cg.chord_deviation(cg.seg_pts(f['seg']), [cg.seg_pts(e) for e in f['edges']]))
        for msg in chain_failures(run['result'], op): fails.append(('C12-chain', msg))
        for p in run['result']:
            for s in p.asSegments():
                if id(s) in ids_in or any(id(q) in ids_in for q in s.points):
                    fails.append(('C12-modified', f'{op}: a result segment or point IS an object of an input')); break
    after = (cg.deep_repr(A), cg.deep_repr(B))
    if before != after: fails.append(('C12-modified', 'an input path changed (deep repr of closed flag, kinds, control points)'))
    meas['flatten_deviation'] = dev
    # "the flattening deviation (at most 2 units for contours made of lines and cubics)": 2 for those, the measured one with quadratics
    thr = (max(2.0, dev) if has_quad else 2.0) + 0.02 + 0.01     # + 1/100 grid and Clipper's rounding; + the reference's own chord error
    oa, ob = cg.Outline(cg.dense_poly(A_pts)), cg.Outline(cg.dense_poly(B_pts))
    qs = probe_points(rng, A_pts, B_pts, oa, ob, thr, nprobe)
    meas['probes'] = len(qs)
    ina = [oa.inside(q) for q in qs]; inb = [ob.inside(q) for q in qs]
    meas['probes_in_A_and_B'] = sum(1 for a, b in zip(ina, inb) if a and b)
    meas['probes_in_one'] = sum(1 for a, b in zip(ina, inb) if a != b)
    for op, paths in results.items():
        outs = [cg.Outline([(s.start.x, s.start.y) for s in p.asSegments()]) for p in paths]
        nbad = 0
        for q, a, b in zip(qs, ina, inb):
            got = False
            for o in outs: got ^= o.inside(q)
            if got != BOP[op](a, b):
                nbad += 1
                if nbad == 1:
                    fails.append(('C12-region', f'{op}: point {q} (distance {min(oa.dist(q), ob.dist(q)):.3f} from the nearest input outline) is '
                                  f'{"inside" if got else "outside"} the result but in A: {a}, in B: {b}'))
        meas[f'region_bad_{op}'] = nbad
    # area identities
    if len(results) == 3:
        simple = [k not in ('selfx', 'spiral2') for k in (m.get('kinds') or ['?', '?'])] if isinstance(m.get('kinds'), list) else [True, True]
        areas, deficit, per = [], 0.0, 0.0
        for path, pts_, smp, o in ((A, A_pts, simple[0], oa), (B, B_pts, simple[1], ob)):
            per += o.perimeter()
            if smp:
                a_own = path.area
                deficit += min(abs(a_own - abs(ref.green_area(pts_))), 10.0 * o.perimeter())      # the flattening deficit of the input's own area query, never more than C10 allows it to be
                areas.append(a_own)
            else:
                areas.append(cg.eo_area([cg.dense_poly(pts_, sag=0.05)]))     # even-odd area of a self-intersecting contour
        U, I, D = (result_region_area(results[k]) for k in OPS3)
        tol = deficit + 2.0 * per
        e1 = abs(U + I - (areas[0] + areas[1])); e2 = abs(D - (areas[0] - I))
        meas['area_err_union'] = e1 / tol; meas['area_err_difference'] = e2 / tol
        if e1 > tol: fails.append(('C12-area', f'area(A or B) + area(A and B) = {U + I!r} but area(A) + area(B) = {areas[0] + areas[1]!r} (tolerance {tol:.6g})'))
        if e2 > tol: fails.append(('C12-area', f'area(A minus B) = {D!r} but area(A) - area(A and B) = {areas[0] - I!r} (tolerance {tol:.6g})'))
        meas['nonempty_intersection'] = I > 0
    if m.get('expect_empty') and results.get('intersection'):
        fails.append(('C12-region', f"the receiver lies in the doubly wound core of the argument (outside its even-odd interior) but intersection returned {len(results['intersection'])} path(s)"))
    # ask again after an in-place edit: the answer must be the one freshly built equal paths give (no state may survive the edit)
    if not fails and seed2 % 3 == 0:
        v = P(37.0, -11.0)
        who = A if seed2 % 2 else B
        who.translate(v)
        A2, B2 = cg.path_from_json(cg.path_json(A)), cg.path_from_json(cg.path_json(B))
        for op in OPS3:
            try: r_same = [cg.deep_repr(x) for x in getattr(A, op)(B, flat=True)]; r_new = [cg.deep_repr(x) for x in getattr(A2, op)(B2, flat=True)]
            except Exception as ex: fails.append(('C12-exception', f'{op}(flat=True) after translate raised {type(ex).__name__}: {ex}')); break
            if r_same != r_new:
                fails.append(('C12-stale', f'{op}(flat=True) repeated after translating the {"receiver" if who is A else "argument"} in place by (37,-11) differs from the same call on freshly built equal paths')); break
        meas['requery'] = 1
    return fails, meas


def search(ctx):
    rng = ctx.rng
    fails, dist, samples, seen, ev = [], {}, [], set(), 0
    agg = {'max_flatten_deviation': 0.0, 'max_area_err_over_tol': 0.0, 'probes': 0, 'probes_in_A_and_B': 0, 'probes_in_one': 0}
    todo = []
    r1 = cg.Rectangle(100, 100, origin=P(0, 0))
    corpus = [(r1, cg.Rectangle(100, 100, origin=P(50, 50)), {'kinds': ['rect', 'rect'], 'config': 'corpus-D10'}),
              (cg.Circle(50, origin=P(0, 0)), cg.Circle(50, origin=P(41, 0)), {'kinds': ['circle', 'circle'], 'config': 'corpus-D17'}),
              (r1, cg.Rectangle(100, 100, origin=P(100, 0)), {'kinds': ['rect', 'rect'], 'config': 'corpus-shared-edge'}),
              (r1, cg.Rectangle(100, 100, origin=P(100, 100)), {'kinds': ['rect', 'rect'], 'config': 'corpus-shared-corner'}),
              (cg.Circle(50, origin=P(0, 0)), cg.Circle(30, origin=P(80, 0)), {'kinds': ['circle', 'circle'], 'config': 'corpus-tangent'}),
              (cg.Circle(50, origin=P(0, 0)), cg.Circle(50, origin=P(0, 0)), {'kinds': ['circle', 'circle'], 'config': 'corpus-identical'}),
              (cg.Rectangle(100, 60, origin=P(3, 4)), cg.Rectangle(100, 60, origin=P(3, 4)), {'kinds': ['rect', 'rect'], 'config': 'corpus-identical'}),
              (cg.Rectangle(100, 100, origin=P(0, 0)), cg.Circle(50, origin=P(0, 0)), {'kinds': ['rect', 'circle'], 'config': 'corpus-inscribed'}),
              (cg.Rectangle(60, 80, origin=P(0, 0)), cg.Circle(50, origin=P(0, 0)), {'kinds': ['rect', 'circle'], 'config': 'corpus-circumscribed'})]
    todo += corpus
    todo += [cg.core_pair(rng) for _ in range(2)]
    for i in range(ctx.n(26, 1200)):
        todo.append(cg.gen_pair(rng, config=cg.CONFIGS[i % 4], big=None if ctx.tier == 'thorough' else (i % 13 == 0)))
    for A, B, m in todo:
        seed2 = rng.randrange(1 << 30)
        ja, jb = cg.path_json(A), cg.path_json(B)
        f, meas = check_pair(A, B, m, seed2, nprobe=200)
        ev += 3 * meas.get('probes', 0) + 5
        key = f"{m['config']}/{'-'.join(m['kinds'])}"
        dist[m['config']] = dist.get(m['config'], 0) + 1
        for k in m['kinds']: dist['kind/' + k] = dist.get('kind/' + k, 0) + 1
        if meas.get('nonempty_intersection') or m['config'] in ('touching',): seen.add(key + str(seed2))
        agg['max_flatten_deviation'] = max(agg['max_flatten_deviation'], meas.get('flatten_deviation', 0))
        agg['max_area_err_over_tol'] = max(agg['max_area_err_over_tol'], meas.get('area_err_union', 0), meas.get('area_err_difference', 0))
        for k in ('probes', 'probes_in_A_and_B', 'probes_in_one'): agg[k] += meas.get(k, 0)
        if len(samples) < 2: samples.append({'A': ja, 'B': jb, 'meta': m, 'measured': meas})
        for cls, msg in f:
            fails.append({'class': cls, 'what': msg, 'input': {'A': ja, 'B': jb, 'meta': m, 'seed2': seed2},
                          'observed': [x[1] for x in f][:6], 'expected': 'C12 as written (closed complete chains; region = op; area identities; inputs unmodified)'})
            break
    return {'evaluations': ev, 'distinct_nontrivial': len(seen), 'failures': fails, 'distribution': dist, 'samples': samples, 'measured': agg}


def replay(ctx, payload):
    i = payload['input']
    f, meas = check_pair(cg.path_from_json(i['A']), cg.path_from_json(i['B']), i.get('meta', {}), i.get('seed2', 0))
    return {'fails': bool(f), 'observed': [x[1] for x in f], 'classes': sorted({x[0] for x in f}), 'measured': meas}


def check_known(ctx, finding):
    r = replay(ctx, {'input': finding['input']})
    return finding['class'] in r['classes']
