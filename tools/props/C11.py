"""C11: point containment follows the even-odd rule."""
import math, io, contextlib
from fractions import Fraction as Fr
import vlib, gen, ref, kernels
from beziers.point import Point
from beziers.line import Line
from beziers.quadraticbezier import QuadraticBezier
from beziers.cubicbezier import CubicBezier
from beziers.path import BezierPath

RULE = ('closed paths of 3..6 segments mixing lines, quadratics and cubics: random node order (mostly self-intersecting), star-shaped (simple), '
        'polygons, integer and float coordinates, paths with a horizontal edge, integer bowties, paths with an isclose-vertical edge, paths larger '
        'than 5e7 units; query points at distance > 1.05e-3 of the extent (max of bbox width/height) from a 400-step flattening of the path: '
        'generic, level with an on-curve node, within 1e-8..2e-7 edge heights of a node level, level with a horizontal edge, level with a curve\'s '
        'y-extreme, level with a crossing of two straight edges, outside the bounding box (level with the path or not); reference = even-odd count '
        'on the dense flattening with the half-open rule, exact bounding box from the exact critical points; non-trivial = query inside the padded box')
NOT_PROVED = ['even-odd for paths with curved segments: PROVED (Proofs/C11curves.v) under the bundled general-position hypothesis mixed_query (closed chain; level off every node ordinate, every crossing simple; C05 non-degeneracy per curved segment; crossings clear of the 2e-7 windows and pairwise distinct; every curved segment narrower than ~16 000 units, Proofs/C11box.v: the rays start 10 units outside a box that C02 shows to enclose the curve up to 0.06% of its extent): pointIsInside = parity of the crossings left of the point = parity of those right of it, windingNumberOfPoint = |signed count|; tangential contacts, levels through nodes and coincident crossings remain outside (recorded findings)',
              'floating-point rounding of crossing parameters and points (the float model is compared with the implementation bit for bit, not proved accurate)',
              'the refuted clauses (each a recorded finding with a formal witness): ray level with an on-curve node (C11_refuted), ray through a crossing of two edges '
              '(merged_crossing_refuted), isclose-vertical edge (vertical_recheck_refuted), ray longer than 5e7 (long_ray_refuted), isclose-degenerate ray (degenerate_ray_refuted)']
ASSUMPTIONS = ['Python float = IEEE binary64',
               'Point.__hash__ (hash(x) << 32 ^ hash(y), reduced by CPython) does not collide for two distinct coordinate pairs that are Point.__eq__-close: dict keys collide iff coordinates are equal floats',
               'no NaN/inf coordinates; no float division by zero inside the intersection kernels (cases where Python raises are skipped and counted)']
HAND_FINGERPRINTS = [('path/__init__.py', 'BezierPath.windingNumberOfPoint'), ('path/__init__.py', 'BezierPath.pointIsInside'),
                     ('path/__init__.py', 'BezierPath.bounds'), ('boundingbox.py', 'BoundingBox.addMargin'), ('boundingbox.py', 'BoundingBox.extend'),
                     ('utils/intersectionsmixin.py', 'IntersectionsMixin.intersections'), ('utils/intersectionsmixin.py', 'Intersection.__init__'),
                     ('point.py', 'Point.__hash__'), ('point.py', 'Point.__eq__'), ('segment.py', 'Segment.bounds')]
GOLDEN_FINGERPRINTS = {'path/__init__.py:BezierPath.windingNumberOfPoint': 'cad6fdee11e73d8f',
                       'path/__init__.py:BezierPath.pointIsInside': '4c7eaff40153c5af',
                       'path/__init__.py:BezierPath.bounds': 'b64e622476b87222',
                       'boundingbox.py:BoundingBox.addMargin': '26b21400b5b3397f',
                       'boundingbox.py:BoundingBox.extend': '0d548a1846cfa08d',
                       'utils/intersectionsmixin.py:IntersectionsMixin.intersections': '841defb07c671aad',
                       'utils/intersectionsmixin.py:Intersection.__init__': '8c560b4a2a2f078f',
                       'point.py:Point.__hash__': 'e1e21b872447fdf0',
                       'point.py:Point.__eq__': '1b5042bfc057bab3',
                       'segment.py:Segment.bounds': 'e660fceb40a64792'}
P = Point
KIND = {2: Line, 3: QuadraticBezier, 4: CubicBezier}
EPS = 2e-7


# ----------------------------------------------------------------------------- path generators
def _rnd(v, integer):
    return float(round(v)) if integer else v


def nodes_random(rng, n, integer):
    out = []
    while len(out) < n:
        p = (_rnd(rng.uniform(-300, 300), integer), _rnd(rng.uniform(-300, 300), integer))
        if all(math.hypot(p[0] - q[0], p[1] - q[1]) > 20 for q in out): out.append(p)
    return out


def nodes_star(rng, n, integer):
    cx, cy = rng.uniform(-200, 200), rng.uniform(-200, 200)
    angs = sorted(rng.uniform(0, 2 * math.pi) for _ in range(n))
    # spread the angles so that the polygon is star-shaped with respect to the centre
    angs = [2 * math.pi * k / n + rng.uniform(-0.3, 0.3) * 2 * math.pi / n for k in range(n)]
    out = []
    for a in angs:
        r = rng.uniform(80, 300)
        out.append((_rnd(cx + r * math.cos(a), integer), _rnd(cy + r * math.sin(a), integer)))
    return out


def build(rng, nodes, kinds, integer, bulge):
    """closed chain through the nodes; control points at relative positions along the chord, offset by bulge*length"""
    cps = []
    n = len(nodes)
    for i in range(n):
        a, b = nodes[i], nodes[(i + 1) % n]
        dx, dy = b[0] - a[0], b[1] - a[1]
        k = kinds[i]
        if k == 2: cps.append([a, b]); continue
        ss = [0.5] if k == 3 else [1 / 3, 2 / 3]
        mid = []
        for s in ss:
            s2 = s + rng.uniform(-0.15, 0.15)
            h = rng.uniform(-bulge, bulge)
            mid.append((_rnd(a[0] + dx * s2 - dy * h, integer), _rnd(a[1] + dy * s2 + dx * h, integer)))
        cps.append([a] + mid + [b])
    return cps


def to_segments(cps):
    return [KIND[len(c)](*[P(x, y) for x, y in c]) for c in cps]


def gen_path(rng, fam=None):
    fam = fam or rng.choice(['random-int', 'random-float', 'star-int', 'star-float', 'polygon-int', 'polygon-float', 'horizontal-edge'])
    integer = fam.endswith('-int') or (fam == 'horizontal-edge' and rng.random() < 0.5)
    n = rng.randint(3, 6)
    if fam.startswith('star'):
        nodes = nodes_star(rng, n, integer); bulge = 0.12
    else:
        nodes = nodes_random(rng, n, integer); bulge = 0.6
    if fam.startswith('polygon'): kinds = [2] * n
    else: kinds = [rng.choice([2, 3, 4]) for _ in range(n)]
    if fam == 'horizontal-edge':
        i = rng.randrange(n)
        nodes[(i + 1) % n] = (nodes[(i + 1) % n][0], nodes[i][1]); kinds[i] = 2
        if abs(nodes[(i + 1) % n][0] - nodes[i][0]) < 5: nodes[(i + 1) % n] = (nodes[i][0] + 50.0, nodes[i][1])
    return fam, build(rng, nodes, kinds, integer, bulge)


def gen_bowtie(rng):
    """integer polygon with two straight edges crossing at a lattice point with exactly representable arithmetic"""
    cx, cy = float(rng.randint(-50, 50)), float(rng.randint(-50, 50))
    a = float(rng.choice([4, 8, 16, 32])); b = float(rng.choice([4, 8, 16, 32]))
    # edges (cx-a,cy-b)->(cx+a,cy+b) and (cx+a,cy-b)->(cx-a,cy+b) cross at (cx,cy)
    nodes = [(cx - a, cy - b), (cx + a, cy + b), (cx + a, cy - b), (cx - a, cy + b)]
    return 'bowtie-int', [[nodes[i], nodes[(i + 1) % 4]] for i in range(4)], (cx, cy)


def gen_near_vertical(rng):
    """triangle or quadrilateral with one edge that is isclose-vertical (|dx| <= 1e-9 |x|) but not vertical"""
    x = rng.choice([1, -1]) * rng.uniform(400, 5000)
    dx = rng.uniform(0.3, 0.99) * 1e-9 * abs(x) * rng.choice([1, -1])
    y0 = rng.uniform(-100, 100); h = rng.uniform(10, 100)
    side = rng.choice([1, -1])
    nodes = [(x, y0), (x + dx, y0 + h), (x + side * rng.uniform(15, 60), y0 + h * rng.uniform(0.2, 0.8))]
    return 'near-vertical-edge', [[nodes[i], nodes[(i + 1) % 3]] for i in range(3)]


def gen_far_offset(rng):
    """ordinary-sized polygon with an exactly vertical edge, far from the origin in x (ulp of the abscissae ~ 2e-7 and more)"""
    ox = rng.choice([1, -1]) * rng.choice([3e8, 1e9, 4e9, 3e10]) + float(rng.randint(-1000, 1000))
    y0 = float(rng.randint(-100, 100)); h = float(rng.randint(20, 200)); w = float(rng.randint(20, 200))
    nodes = [(ox, y0), (ox, y0 + h), (ox + w, y0 + h * rng.uniform(0.2, 0.8))]
    if rng.random() < 0.5: nodes = [(ox, y0), (ox, y0 + h), (ox + w, y0 + h), (ox + w, y0)]
    return 'far-offset', [[nodes[i], nodes[(i + 1) % len(nodes)]] for i in range(len(nodes))]


def gen_huge(rng):
    s = rng.choice([1e8, 1e9, 1e10])
    nodes = [(0.0, 0.0), (s, s * rng.uniform(0.3, 0.7)), (0.0, s)]
    if rng.random() < 0.5: nodes = [(-x, y) for x, y in nodes]
    return 'huge', [[nodes[i], nodes[(i + 1) % 3]] for i in range(3)]


# ----------------------------------------------------------------------------- geometry of the input (reference side)
def crit_params(cp, k):
    n = len(cp) - 1
    ws = [n * (b[k] - a[k]) for a, b in zip(cp, cp[1:])]
    if len(ws) < 2: return []
    return [r for r, _ in ref.poly_roots_01(ref.power_coeffs(ws)) if 0 < r < 1]


def exact_bbox(cps):
    xs, ys = [], []
    for cp in cps:
        pts = [cp[0], cp[-1]] + [ref.bern(cp, t) for k in (0, 1) for t in crit_params(cp, k)]
        xs += [p[0] for p in pts]; ys += [p[1] for p in pts]
    return min(xs), min(ys), max(xs), max(ys)


def _is_horizontal_inflection(cp):
    """cubic whose y'(t) has a double root: the curve is horizontal there WITHOUT turning back (it crosses the level)"""
    if len(cp) != 4: return None
    w = [3 * (b[1] - a[1]) for a, b in zip(cp, cp[1:])]
    A, B, C = w[0] - 2 * w[1] + w[2], 2 * (w[1] - w[0]), w[0]
    if A == 0: return None
    if abs(B * B - 4 * A * C) > 1e-12 * (B * B + abs(4 * A * C)): return None
    t = -B / (2 * A)
    return t if 0 < t < 1 else None


def y_extremes(cps):
    return [ref.bern(cp, t)[1] for cp in cps if len(cp) > 2 and _is_horizontal_inflection(cp) is None for t in crit_params(cp, 1)]


def y_inflections(cps):
    return [ref.bern(cp, _is_horizontal_inflection(cp))[1] for cp in cps if _is_horizontal_inflection(cp) is not None]


def line_crossings(cps):
    """exact crossing points (as floats) of pairs of non-adjacent straight edges"""
    out = []
    n = len(cps)
    for i in range(n):
        for j in range(i + 1, n):
            if len(cps[i]) != 2 or len(cps[j]) != 2: continue
            if j == i + 1 or (i == 0 and j == n - 1): continue
            (a, b), (c, d) = cps[i], cps[j]
            a, b, c, d = [(Fr(p[0]), Fr(p[1])) for p in (a, b, c, d)]
            r = (b[0] - a[0], b[1] - a[1]); s = (d[0] - c[0], d[1] - c[1])
            den = r[0] * s[1] - r[1] * s[0]
            if den == 0: continue
            t = ((c[0] - a[0]) * s[1] - (c[1] - a[1]) * s[0]) / den
            u = ((c[0] - a[0]) * r[1] - (c[1] - a[1]) * r[0]) / den
            if 0 <= t <= 1 and 0 <= u <= 1:
                out.append((float(a[0] + t * r[0]), float(a[1] + t * r[1])))
    return out


class Geo:
    """everything the oracle and the classifier need about one path, computed from the control points only"""
    def __init__(self, cps):
        self.cps = cps
        self.poly = ref.flatten_poly(cps, n=400)
        self.box = exact_bbox(cps)
        self.ext = max(self.box[2] - self.box[0], self.box[3] - self.box[1])
        self.nodes = [cp[0] for cp in cps]
        self.yext = y_extremes(cps)
        self.yinfl = y_inflections(cps)
        self.cross = line_crossings(cps)
        self.maxabs_y = max(abs(p[1]) for cp in cps for p in cp)


def level_crossings(geo, y):
    """abscissae at which the flattened path crosses the level y (half-open rule)"""
    out = []
    poly = geo.poly; n = len(poly)
    for i in range(n):
        (x0, y0), (x1, y1) = poly[i], poly[(i + 1) % n]
        if (y0 > y) != (y1 > y): out.append(x0 + (y - y0) * (x1 - x0) / (y1 - y0))
    return out


def _recheck(a, b, t, p):
    """Line.tOfPoint's re-check `self.pointAtTime(t).distanceFrom(point) < 2e-7`, same float operations"""
    qx = a[0] * (1 - t) + b[0] * t; qy = a[1] * (1 - t) + b[1] * t
    return math.sqrt((qx - p[0]) * (qx - p[0]) + (qy - p[1]) * (qy - p[1])) < EPS


def classify(geo, q, observed=()):
    """known-finding class of a failing input, from the INPUT only; the one exception is the horizontal-inflection finding, which is
    a finding about ONE clause (the winding number of a point outside the box; the parity there is right) and is recognised only when
    that clause alone fails"""
    x, y = q
    ext = geo.ext
    if any(abs(y - yi) <= 1e-9 * ext for yi in geo.yinfl) and not any(abs(y - ny) <= EPS * ext + 1e-9 * max(geo.maxabs_y, abs(y)) for _, ny in geo.nodes):
        if observed and all(o.startswith('point outside the bounding box') for o in observed): return 'C11-horizontal-inflection-level'
        return 'C11-misclassified'
    # D11: the ray is level with an on-curve node up to the library's own tolerances: the parameter window [2e-7, 1+2e-7] and
    # the slope threshold 2e-7 (both relative to the edge, hence <= 2e-7*extent) and isclose (1e-9 relative to |y|);
    # or level with a curve's y-extreme (tangential contact)
    band = EPS * ext + 1e-9 * max(geo.maxabs_y, abs(y))
    near = [i for i, (_, ny) in enumerate(geo.nodes) if abs(y - ny) <= band]
    def clean_pass_through(i):
        # EXACTLY level with a node where the outline passes straight through between two straight edges whose far ends are clear of the band: the
        # arriving edge is hit at t = 1 +- rounding (kept), the leaving one at t = 0 +- rounding (dropped) whatever the rounding does -- the
        # unchanged code answers these correctly (thousands of cases, integer and float polygons), so they are NOT part of the recorded finding
        prev, cur = geo.cps[i - 1], geo.cps[i]
        ny = geo.nodes[i][1]
        if len(prev) != 2 or len(cur) != 2 or ny != y: return False
        a, b = prev[0][1], cur[1][1]
        return (a < ny - band and b > ny + band) or (a > ny + band and b < ny - band)
    if near and not all(clean_pass_through(i) for i in near): return 'C11-ray-level-with-node'
    if any(abs(y - ye) <= 1e-9 * ext for ye in geo.yext): return 'C11-ray-level-with-node'
    # the dict keyed by the crossing point merges two crossings: ray through a crossing of two straight edges
    if any(abs(y - cy) <= 1e-9 * ext for _, cy in geo.cross): return 'C11-ray-through-self-intersection'
    # the vertical branch of _line_line_intersections calls tOfPoint WITHOUT its_on_the_line_i_swear: the crossing of an
    # isclose-vertical edge is discarded when the 2e-7 re-check rejects the computed point (edge not exactly vertical, or
    # rounding of the lerp at coordinates beyond ~2e8); the re-check is replayed here in plain float arithmetic
    xl, xr = geo.box[0] - 10.0, geo.box[2] + 10.0
    for cp in geo.cps:
        if len(cp) != 2: continue
        (ax, ay), (bx, by) = cp
        if not math.isclose(ax, bx) or math.isclose(ay, by): continue
        t = (y - ay) / (by - ay)
        if not (-1e-6 <= t <= 1 + 1e-6): continue
        if not _recheck((ax, ay), (bx, by), t, (ax, y)): return 'C11-vertical-branch-recheck'
        for x0 in (xl, xr):
            if math.isclose(x0, x): continue
            t2 = (ax - x0) / (x - x0)
            if -1e-6 <= t2 <= 1 + 1e-6 and not _recheck((x0, y), (x, y), t2, (ax, y)): return 'C11-vertical-branch-recheck'
    # a ray whose two ends are isclose (1e-9 relative: |x| beyond 1e9 ray lengths) is a point for the code and meets nothing
    xs = level_crossings(geo, y)
    if math.isclose(xl, x) and any(xc < x for xc in xs): return 'C11-ray-isclose-degenerate'
    if math.isclose(xr, x) and any(xc > x for xc in xs): return 'C11-ray-isclose-degenerate'
    # a crossing inside the dead window (t2 < 2e-7) at the start of a ray longer than 5e7 units
    for xc in xs:
        if x > xl and 0 <= (xc - xl) < EPS * (x - xl) * 1.001 and xc < x: return 'C11-ray-longer-than-5e7'
        if x < xr and 0 <= (xr - xc) < EPS * (xr - x) * 1.001 and xc > x: return 'C11-ray-longer-than-5e7'
    return 'C11-misclassified'


# ----------------------------------------------------------------------------- the property on the real implementation
def check_point(path, geo, q):
    """None when the query is outside the quantifier; else list of failure strings"""
    ext = geo.ext
    if ref.dist_point_polyline(q, geo.poly) <= 1.05e-3 * ext: return None
    want = ref.even_odd(geo.poly, q)
    try:
        with contextlib.redirect_stdout(io.StringIO()):
            w = path.windingNumberOfPoint(P(*q)); ins = path.pointIsInside(P(*q))
    except Exception as e:
        return [f'raised {type(e).__name__}: {e}']
    fails = []
    if ins != want: fails.append(f'pointIsInside = {ins}, even-odd reference = {want}')
    if (w % 2 == 1) != want: fails.append(f'windingNumberOfPoint = {w} ({"odd" if w % 2 else "even"}), reference says {"inside" if want else "outside"}')
    x0, y0, x1, y1 = geo.box
    tol = 1e-9 * ext
    outside = q[0] < x0 - tol or q[0] > x1 + tol or q[1] < y0 - tol or q[1] > y1 + tol
    if outside and w != 0: fails.append(f'point outside the bounding box [{x0},{y0}]-[{x1},{y1}] has winding number {w}')
    if outside and want: fails.append('oracle inconsistency: reference says inside for a point outside the box')
    return fails


def gen_queries(rng, geo, k):
    x0, y0, x1, y1 = geo.box
    w, h = x1 - x0, y1 - y0
    out = []
    def rx(): return rng.uniform(x0 - 0.3 * w - 1, x1 + 0.3 * w + 1)
    def ry(): return rng.uniform(y0 - 0.3 * h - 1, y1 + 0.3 * h + 1)
    for _ in range(k):
        fam = rng.choice(['generic', 'generic', 'generic', 'node-level', 'near-node-level', 'extreme-level', 'outside-x', 'outside-y', 'hedge-level', 'near-extreme-level'])
        if fam == 'generic': q = (rx(), ry())
        elif fam == 'node-level': q = (rx(), rng.choice(geo.nodes)[1])
        elif fam == 'near-node-level':
            i = rng.randrange(len(geo.cps)); cp = geo.cps[i]
            dy = abs(cp[-1][1] - cp[0][1]) or geo.ext
            q = (rx(), rng.choice([cp[0][1], cp[-1][1]]) + rng.choice([1, -1]) * rng.choice([1e-8, 5e-8, 1e-7, 1.9e-7]) * dy)
        elif fam == 'extreme-level':
            if not geo.yext: fam = 'generic'; q = (rx(), ry())
            else: q = (rx(), rng.choice(geo.yext))
        elif fam == 'near-extreme-level':
            # just above / below the height of a curve's y-extreme, OUTSIDE the tolerance band of the known finding: the ray (nearly) grazes the curve
            if not geo.yext: fam = 'generic'; q = (rx(), ry())
            else: q = (rx(), rng.choice(geo.yext) + rng.choice([1, -1]) * rng.choice([1.2e-9, 2e-9, 5e-9, 1e-8, 3e-8, 1e-7, 1e-6]) * geo.ext)
        elif fam == 'hedge-level':
            hs = [cp[0][1] for cp in geo.cps if len(cp) == 2 and cp[0][1] == cp[1][1]]
            if not hs: fam = 'generic'; q = (rx(), ry())
            else: q = (rx(), rng.choice(hs))
        elif fam == 'outside-x':
            q = (rng.choice([x0 - rng.uniform(0.01, 0.5) * w - 1, x1 + rng.uniform(0.01, 0.5) * w + 1, x0 - 10.0, x1 + 10.0]), rng.uniform(y0, y1))
        else:
            q = (rx(), rng.choice([y0 - rng.uniform(0.01, 0.5) * h - 1, y1 + rng.uniform(0.01, 0.5) * h + 1]))
        out.append((fam, q))
    return out


def path_json(cps): return [[list(p) for p in cp] for cp in cps]


def make_path(cps, via=None):
    """the closed path with these segments: from a segment list, or (via='nodelist') from a node list that does NOT repeat its
    start node, so that the last segment is the closing segment the library has to add itself"""
    if via != 'nodelist': return BezierPath.fromSegments(to_segments(cps))
    from beziers.path.representations.Nodelist import Node
    nl = [Node(cps[0][0][0], cps[0][0][1], 'line' if len(cps[0]) == 2 else 'curve')]
    for k, cp in enumerate(cps):
        for q in cp[1:-1]: nl.append(Node(q[0], q[1], 'offcurve'))
        if k < len(cps) - 1: nl.append(Node(cp[-1][0], cp[-1][1], 'line' if len(cp) == 2 else 'curve'))
    return BezierPath.fromNodelist(nl, closed=True)


def gen_nodelist_closing(rng):
    """closed contour whose closing segment is a curve, sometimes with its last handle retracted onto the start node"""
    pfam, cps = gen_path(rng, rng.choice(['star-float', 'star-int', 'random-int']))
    a, b = cps[-1][0], cps[-1][-1]
    k = rng.choice([3, 4])
    mid = [(a[0] + (b[0] - a[0]) * 0.4 + rng.uniform(-60, 60), a[1] + (b[1] - a[1]) * 0.4 + rng.uniform(-60, 60)) for _ in range(k - 2)]
    if rng.random() < 0.6: mid[-1] = b            # retracted handle: the last off-curve node coincides with the first on-curve node
    cps[-1] = [a] + mid + [b]
    return 'nodelist-closing', cps


def gen_overshoot(rng):
    """a long cubic that leaves its start node heading slightly outwards before sweeping back: its x-extreme lies at a small
    parameter (0.015..0.045) and sticks out 15..60 units beyond every other part of the outline at that height"""
    ts = rng.uniform(0.015, 0.045); a = rng.uniform(700, 2500)
    c = -a * (1 - 4 * ts) / (2 * ts)                       # x'(ts) ~ 0 for P1.x = a, P2.x = c (first order)
    sx = rng.choice([1, -1]); ox, oy = float(rng.randint(-500, 500)), float(rng.randint(-500, 500))
    h = rng.uniform(1500, 4000)
    P0 = (0.0, 0.0); P1 = (a, -rng.uniform(60, 200)); P2 = (c, -0.6 * h); P3 = (-rng.uniform(2000, 4000), -h)
    cps = [[P0, P1, P2, P3], [P3, (P3[0], 400.0)], [(P3[0], 400.0), P0]]
    cps = [[(ox + sx * x, oy + y) for x, y in cp] for cp in cps]
    return 'overshoot', cps, ts


def run_input(cps, q, via=None):
    geo = Geo(cps)
    path = make_path(cps, via)
    return geo, check_point(path, geo, q)


def search(ctx):
    rng = ctx.rng
    fails, dist, samples, seen, evals = [], {}, [], set(), 0
    byclass, byfam = {}, {}

    def one(pfam, cps, geo, path, qfam, q):
        nonlocal evals
        f = check_point(path, geo, q)
        key = pfam + '/' + qfam
        if f is None:
            dist[key + '/skipped-near-path'] = dist.get(key + '/skipped-near-path', 0) + 1; return
        evals += 1; dist[key] = dist.get(key, 0) + 1
        x0, y0, x1, y1 = geo.box
        if x0 - 10 <= q[0] <= x1 + 10 and y0 <= q[1] <= y1: seen.add((q, geo.nodes[0]))
        if len(samples) < 3: samples.append({'path_family': pfam, 'query_family': qfam, 'path': path_json(cps), 'point': list(q)})
        if f:
            c = classify(geo, q, f)
            byclass[c] = byclass.get(c, 0) + 1
            byfam[c + ' @ ' + pfam + '/' + qfam] = byfam.get(c + ' @ ' + pfam + '/' + qfam, 0) + 1
            if byclass[c] <= 40 or c == 'C11-misclassified':
                fails.append({'class': c, 'what': f[0], 'input': {'path_family': pfam, 'query_family': qfam, 'path': path_json(cps), 'point': list(q),
                                                                  **({'via': 'nodelist'} if pfam == 'nodelist-closing' else {})},
                              'observed': f, 'expected': 'pointIsInside = even-odd rule; winding number odd exactly inside, 0 outside the bounding box'})

    for _ in range(ctx.n(150, 4000)):
        pfam, cps = gen_path(rng)
        geo = Geo(cps); path = BezierPath.fromSegments(to_segments(cps))
        for qfam, q in gen_queries(rng, geo, 8): one(pfam, cps, geo, path, qfam, q)
    # closing segment added by the library (node list without a repeated start node)
    for _ in range(ctx.n(25, 600)):
        pfam, cps = gen_nodelist_closing(rng)
        geo = Geo(cps); path = make_path(cps, 'nodelist')
        cl = cps[-1]
        for qfam, q in gen_queries(rng, geo, 4): one(pfam, cps, geo, path, qfam, q)
        for _k in range(3):        # level with the closing curve
            t = rng.uniform(0.1, 0.9); pt = ref.bern(cl, t)
            one(pfam, cps, geo, path, 'closing-level', (rng.choice([geo.box[0] - 25.0, geo.box[2] + 25.0, pt[0] + rng.uniform(-40, 40)]), pt[1]))
    # an extreme at a small parameter sticking out of the rest of the outline
    for _ in range(ctx.n(12, 300)):
        pfam, cps, ts = gen_overshoot(rng)
        geo = Geo(cps); path = make_path(cps)
        x0, y0, x1, y1 = geo.box
        for _k in range(5):
            t = ts * rng.uniform(0.5, 1.6); pt = ref.bern(cps[0], t)
            one(pfam, cps, geo, path, 'overshoot-level', (rng.choice([x0 - 30.0, x1 + 30.0, rng.uniform(x0 + 50, x1 - 50)]), pt[1]))
    # one arch (a cubic over its chord, spanning the whole extent), the query just above / below the top of the arch and beyond it
    for _ in range(ctx.n(15, 300)):
        W, H, x0, y0 = rng.uniform(50, 400), rng.uniform(50, 400), rng.uniform(-200, 200), rng.uniform(-200, 200)
        if rng.random() < 0.5: W, H, x0, y0 = [float(round(v)) for v in (W, H, x0, y0)]
        c = [(x0, y0), (x0 + W * rng.uniform(0, 0.4), y0 + H * rng.uniform(0.8, 1.6)), (x0 + W * rng.uniform(0.6, 1.0), y0 + H * rng.uniform(0.8, 1.6)), (x0 + W, y0)]
        cps = [c, [c[3], c[0]]]
        if rng.random() < 0.5: cps = [[(x, 2 * y0 - y) for x, y in cp] for cp in cps]
        geo = Geo(cps); path = make_path(cps)
        for ye in geo.yext:
            for _k in range(4):
                off = rng.choice([1, -1]) * rng.choice([1.2e-9, 2e-9, 5e-9, 1e-8, 3e-8, 1e-7, 1e-6]) * geo.ext
                one('arch', cps, geo, path, 'near-extreme-level', (rng.choice([geo.box[0] - 20.0, geo.box[2] + 20.0]), ye + off))
    # a segment that starts and ends at the same node (a one-cubic loop): alone, two of them sharing the node, or hanging on a corner of a triangle
    for _ in range(ctx.n(12, 300)):
        a = (float(rng.randint(-100, 100)), float(rng.randint(-100, 100))) if rng.random() < 0.5 else (rng.uniform(-100, 100), rng.uniform(-100, 100))
        def loop(ang):
            w, h = rng.uniform(40, 200), rng.uniform(40, 200); c, s_ = math.cos(ang), math.sin(ang)
            def R(x, y): return (a[0] + c * x - s_ * y, a[1] + s_ * x + c * y)
            return [a, R(w, h * rng.uniform(0.3, 1)), R(-w, h), a]
        kind = rng.choice(['single', 'two-loops', 'on-triangle'])
        ang = rng.uniform(0, 2 * math.pi)
        if kind == 'single': cps = [loop(ang)]
        elif kind == 'two-loops': cps = [loop(ang), loop(ang + math.pi)]
        else:
            b = (a[0] + rng.uniform(60, 200), a[1] - rng.uniform(40, 150)); c_ = (a[0] - rng.uniform(60, 200), a[1] - rng.uniform(40, 150))
            cps = [loop(math.pi / 2 - math.pi / 2 + rng.uniform(-0.3, 0.3)), [a, b], [b, c_], [c_, a]]
        geo = Geo(cps); path = make_path(cps)
        for cp in cps:
            if len(cp) != 4: continue
            for _k in range(3):      # points inside the loop: between the node and the far side of the loop
                far = ref.bern(cp, 0.5); fr = rng.uniform(0.35, 0.85)
                one('loop-segment/' + kind, cps, geo, path, 'inside-loop', (a[0] + (far[0] - a[0]) * fr + rng.uniform(-2, 2), a[1] + (far[1] - a[1]) * fr + rng.uniform(-2, 2)))
        for qfam, q in gen_queries(rng, geo, 3): one('loop-segment/' + kind, cps, geo, path, qfam, q)
    # a cubic with a HORIZONTAL INFLECTION (y-controls a, b, a, b: y'(1/2) = y''(1/2) = 0; the curve crosses the level (a+b)/2 with a horizontal
    # tangent), the query level with the inflection
    for _ in range(ctx.n(15, 300)):
        x0 = float(rng.randint(-200, 200)); y0 = float(rng.randint(-200, 200)); W = float(rng.randint(20, 300)); H = float(4 * rng.randint(5, 80))
        xs = sorted((float(rng.randint(0, int(W))) if rng.random() < 0.5 else rng.uniform(0, W)) for _ in range(2))
        c = [(x0, y0), (x0 + xs[0], y0 + H), (x0 + xs[1], y0), (x0 + W, y0 + H)]
        top = y0 + H + float(rng.randint(20, 100))
        cps = [c, [c[3], (x0 + W + 30.0, top)], [(x0 + W + 30.0, top), (x0 - 40.0, top)], [(x0 - 40.0, top), c[0]]]
        if rng.random() < 0.5: cps = [[(x, 2 * y0 - y) for x, y in cp] for cp in cps]
        if rng.random() < 0.5: cps = [list(reversed(cp)) for cp in reversed(cps)]
        geo = Geo(cps); path = make_path(cps)
        yq = geo.yinfl[0] if geo.yinfl else y0 + H / 2
        for xq in (geo.box[0] - 20.0, geo.box[2] + 20.0, x0 - 20.0, x0 + W + 15.0):
            one('horizontal-inflection', cps, geo, path, 'inflection-level', (xq, yq))
    # near-horizontal edges (|slope| between 1e-4 and 1e-3): the level of the query lies inside the edge's tiny y-span
    for _ in range(ctx.n(15, 300)):
        W = float(rng.randint(800, 3000)); rise = rng.choice([0.3, 0.5, 1.0, 2.0]); H = float(rng.randint(200, 800))
        x0, y0 = float(rng.randint(-500, 500)), float(rng.randint(-500, 500))
        cps = [[(x0, y0), (x0 + W, y0 + rise)], [(x0 + W, y0 + rise), (x0 + W * 0.9, y0 + H)], [(x0 + W * 0.9, y0 + H), (x0 + W * 0.1, y0 + H * 0.8)], [(x0 + W * 0.1, y0 + H * 0.8), (x0, y0)]]
        if rng.random() < 0.5: cps = [[(x, 2 * y0 - y) for x, y in cp] for cp in cps]
        geo = Geo(cps); path = make_path(cps)
        for _k in range(5):
            fr = rng.uniform(0.15, 0.85)
            yq = cps[0][0][1] + (cps[0][1][1] - cps[0][0][1]) * fr
            one('near-horizontal-edge', cps, geo, path, 'edge-span-level', (rng.choice([geo.box[0] - 150.0, geo.box[2] + 150.0, x0 + W * rng.uniform(0.2, 0.8)]), yq))
    # degree-elevated quadratics (quadraticsToCubics) on a small shape far from the origin: the vanishing cubic coefficient is rounding noise that scales with the offset
    for _ in range(ctx.n(15, 300)):
        off = (rng.choice([1e4, 1e5, 1e6]) * rng.choice([1, -1]) + rng.uniform(-3, 3), rng.choice([1e4, 1e5, 1e6]) * rng.choice([1, -1]) + rng.uniform(-3, 3))
        R = rng.uniform(5, 60)
        qs = [[(R, 0), (R, R), (0, R)], [(0, R), (-R, R), (-R, 0)], [(-R, 0), (-R, -R), (0, -R)], [(0, -R), (R, -R), (R, 0)]]
        cps = []
        for q in qs:
            a, b, c = [(x + off[0], y + off[1]) for x, y in q]
            cps.append([a, (a[0] / 3 + 2 * b[0] / 3, a[1] / 3 + 2 * b[1] / 3), (2 * b[0] / 3 + c[0] / 3, 2 * b[1] / 3 + c[1] / 3), c])        # as QuadraticBezier.toCubicBezier computes it
        geo = Geo(cps); path = make_path(cps)
        for _k in range(5):
            one('elevated-far', cps, geo, path, 'generic', (off[0] + rng.uniform(-1.3, 1.3) * R, off[1] + rng.uniform(-0.9, 0.9) * R))
    # grow the outline IN PLACE after a first query (ray extents must not be remembered)
    for _ in range(ctx.n(15, 300)):
        pfam, cps = gen_path(rng, 'polygon-int')
        path = make_path(cps)
        geo0 = Geo(cps); x0, y0, x1, y1 = geo0.box
        path.pointIsInside(P((x0 + x1) / 2, (y0 + y1) / 2)); path.windingNumberOfPoint(P(x1 + 50.0, (y0 + y1) / 2))
        i = rng.randrange(len(cps)); dx = rng.choice([1, -1]) * float(rng.randint(150, 400)); dy = float(rng.randint(-100, 100))
        segs = path.asSegments(); j = (i + 1) % len(segs)
        segs[i].points[-1].x += dx; segs[i].points[-1].y += dy; segs[j].points[0].x += dx; segs[j].points[0].y += dy      # the shared node, both Point objects, in place
        cps2 = [[(p.x, p.y) for p in s.points] for s in segs]
        geo = Geo(cps2)
        nx, ny = cps2[j][0]
        cx, cy = sum(p[0][0] for p in cps2) / len(cps2), sum(p[0][1] for p in cps2) / len(cps2)
        for fr in (0.1, 0.25, 0.4):
            one('grown-in-place', cps2, geo, path, 'near-moved-node', (nx + (cx - nx) * fr + 0.37, ny + (cy - ny) * fr + 0.21))
        one('grown-in-place', cps2, geo, path, 'outside-x', (geo.box[2] + 37.0, (geo.box[1] + geo.box[3]) / 2 + 0.13))
    # rays through the crossing of two straight edges
    for _ in range(ctx.n(12, 200)):
        pfam, cps, (cx, cy) = gen_bowtie(rng)
        geo = Geo(cps); path = BezierPath.fromSegments(to_segments(cps))
        x0, y0, x1, y1 = geo.box
        for q in [(x0 - rng.uniform(2, 30), cy), (x1 + rng.uniform(2, 30), cy), (cx + (x1 - cx) * rng.uniform(0.2, 0.8), cy), (rng.uniform(x0 - 5, x1 + 5), rng.uniform(y0 - 5, y1 + 5))]:
            one(pfam, cps, geo, path, 'crossing-level' if q[1] == cy else 'generic', q)
    # isclose-vertical edges, and vertical edges far from the origin
    for k in range(ctx.n(20, 300)):
        pfam, cps = gen_near_vertical(rng) if k % 2 == 0 else gen_far_offset(rng)
        geo = Geo(cps); path = BezierPath.fromSegments(to_segments(cps))
        x0, y0, x1, y1 = geo.box
        for _ in range(4):
            one(pfam, cps, geo, path, 'generic', (rng.uniform(x0 - 20, x1 + 20), rng.uniform(y0, y1)))
    # rays longer than 5e7 units
    for _ in range(ctx.n(8, 100)):
        pfam, cps = gen_huge(rng)
        geo = Geo(cps); path = BezierPath.fromSegments(to_segments(cps))
        x0, y0, x1, y1 = geo.box
        for _ in range(4):
            one(pfam, cps, geo, path, 'generic', (rng.uniform(x0 - (x1 - x0), x1 + (x1 - x0)), rng.uniform(y0, y1)))
    # path-level stale state: asking must not change later answers, and an in-place edit of a segment through the path's own
    # segment list (or of its Point objects) must be seen by the next query
    import gen as _gq
    from beziers.point import Point as _PQ
    for _ in range(ctx.n(25, 500)):
        _segs = _gq.closed_contour(rng, ints=rng.random() < 0.3)
        _qp = _PQ(_segs[0][0].x + rng.uniform(-150, 150), _segs[0][0].y + rng.uniform(-150, 150))
        _ff = _gq.path_freshness(rng, _segs, {'windingNumberOfPoint': lambda p: p.windingNumberOfPoint(_qp), 'pointIsInside': lambda p: p.pointIsInside(_qp)}, closed=True, disturb=[lambda p: p.pointIsInside(_qp), lambda p: p.bounds(), lambda p: p.length, lambda p: p.area])
        evals += 1; dist['stale-state/path'] = dist.get('stale-state/path', 0) + 1
        if _ff: fails.append({'class': 'C11-stale-state', 'what': _ff[0], 'input': None, 'observed': _ff[:3], 'expected': 'the answers of a freshly built path with the same control points'})
    return {'evaluations': evals, 'distinct_nontrivial': len(seen), 'failures': fails, 'distribution': dist, 'samples': samples,
            'measured': {'failures_by_class': byclass, 'failures_by_class_and_family': byfam}}


def replay(ctx, payload):
    i = payload['input']
    cps = [[tuple(p) for p in cp] for cp in i['path']]
    geo, f = run_input(cps, tuple(i['point']), i.get('via'))
    return {'fails': bool(f), 'observed': f, 'class': classify(geo, tuple(i['point']), f) if f else None}


def check_known(ctx, finding):
    r = replay(ctx, {'input': finding['input']})
    return bool(r['fails']) and r['class'] == finding['class']


# ----------------------------------------------------------------------------- correspondence
def cix(i): return f'({vlib.fhex(i.t1)}, {vlib.cpt(i.point)}, {vlib.fhex(i.t2)})'


def correspond(ctx):
    rng = ctx.rng
    px = kernels.proxy()
    cases, meta, dist = [], [], {}
    raised = 0
    target = ctx.n(260, 4000)
    tries = 0
    while len(cases) < target and tries < target * 3:
        tries += 1
        r = rng.random()
        if r < 0.80: pfam, cps = gen_path(rng)
        elif r < 0.88: pfam, cps, _ = gen_bowtie(rng)
        elif r < 0.92: pfam, cps = gen_near_vertical(rng)
        elif r < 0.96: pfam, cps = gen_far_offset(rng)
        else: pfam, cps = gen_huge(rng)
        geo = Geo(cps)
        qfam, q = gen_queries(rng, geo, 1)[0]
        if pfam == 'bowtie-int' and rng.random() < 0.7: qfam, q = 'crossing-level', (q[0], geo.cross[0][1] if geo.cross else q[1])
        segs = to_segments(cps)
        path = BezierPath.fromSegments(segs)
        pt = P(*q)
        px.take()
        try:
            with contextlib.redirect_stdout(io.StringIO()):
                w = path.windingNumberOfPoint(pt)
                ins = path.pointIsInside(pt)
                bounds = path.bounds(); bounds.addMargin(10)
                ray1 = Line(P(bounds.left, pt.y), pt); ray2 = Line(P(bounds.right, pt.y), pt)
                segs2 = path.asSegments()
                l1 = [s.intersections(ray1) for s in segs2]; l2 = [s.intersections(ray2) for s in segs2]
        except (ZeroDivisionError, ValueError, OverflowError):
            raised += 1; px.take(); continue
        tbl = px.take()
        csegs = vlib.clist([vlib.csegment(s) for s in segs2])
        exp1 = vlib.clist([vlib.clist([cix(i) for i in l]) for l in l1])
        exp2 = vlib.clist([vlib.clist([cix(i) for i in l]) for l in l2])
        cases.append(
            f'(let O := FOpsT {vlib.clibm(tbl)} in let segs := {csegs} in let p := {vlib.cpt(pt)} in '
            f'match windingNumberOfPoint O segs p, pointIsInside O segs p, rays O segs p with '
            f'| Some w, Some b, Some (r1, r2) => Z.eqb w ({w})%Z && Bool.eqb b {vlib.cbool(ins)} && seg2_feq r1 {vlib.cseg(ray1)} && seg2_feq r2 {vlib.cseg(ray2)} '
            f'&& list_eqb (list_eqb ix_feq) (map (fun s => seg_ray_intersections O s r1) segs) {exp1} '
            f'&& list_eqb (list_eqb ix_feq) (map (fun s => seg_ray_intersections O s r2) segs) {exp2} '
            f'| _, _, _ => false end)')
        key = pfam + '/' + qfam
        dist[key] = dist.get(key, 0) + 1
        meta.append({'path_family': pfam, 'query_family': qfam, 'path': path_json(cps), 'point': list(q), 'python_winding': w, 'python_inside': ins,
                     'left_hits': sum(len(l) for l in l1), 'right_hits': sum(len(l) for l in l2)})
    res = vlib.run_case_files('C11', 'winding', ['Gen.Point', 'Gen.BBox', 'Gen.Line', 'Gen.Quad', 'Gen.Cubic', 'Hand.Bounds', 'Hand.Winding'], '', cases, per_file=40)
    dist['python_raised'] = raised
    out = {'n': res['n'], 'agree': res['agree'], 'failing': res['failing'], 'errors': res['errors'], 'distribution': dist,
           'samples': meta[:2], 'kinds': {'hand_models': 1, 'with_hits': sum(1 for m in meta if m['left_hits'] + m['right_hits'])}}
    if res['failing']: out['first_disagreement'] = [meta[i] for i in res['failing'][:3]]
    # bounds / windingNumberOfPoint / pointIsInside as REGENERATED from path/__init__.py (Gen/Winding.v: the two dicts keyed by Point value, the
    # winding counts in Z, None boxes as exceptions), equal to the hand model by Proofs/Bridge4.v
    kernels.merge_cross_check(out, 'C11', ['Path_bounds', 'Path_windingNumberOfPoint', 'Path_pointIsInside'], ctx.n(30, 400), rng)
    return out
