"""C13: curve-preserving Boolean operations invent no geometry."""
import math, random as _random
import vlib, gen, ref, kernels
from props import clipglue as cg
from props.clipglue import P
from props import C12 as c12

RULE = ('first sentence: the C12 pairs (rect / ellipse / circle / star-shaped mixed contour / random self-intersecting mixed contour x disjoint / nested / '
        'touching / crossing, sizes 20..1500, within +-5000) x union, intersection, difference with flat=False: every curved result segment is matched '
        'against a re-split (sub-curve [a,b] or its reverse) of an input segment, every result segment is sampled and its distance to the TRUE input '
        'outlines measured (1.5 units; 0.1 when both shapes have radius of curvature >= 10), inputs compared before/after, disjoint intersection = []; '
        'second sentence: rect / ellipse / circle pairs with sizes 20..240, centres within +-100, whose outlines cross with an angle >= 10 degrees at '
        'every crossing: chain gaps (incl. closing), region agreement with the flat=True result on probes farther than 1 unit from it, area agreement; '
        'non-trivial = pair whose outlines cross')
NOT_PROVED = ['the distance clause (1.5 / 0.1 units): Clipper\'s own intersection vertices are not LUT keys and the flattening deviation is not proved; measured',
              'connectivity and region semantics of curve-mode results for transversally crossing outlines: search only -- and VIOLATED (known finding '
              'C13-curve-mode-disconnected, DESIGN D17: any Clipper edge that is not a LUT key breaks the chain)',
              'Clipper itself and Segment.flatten / Segment.intersections (oracles)',
              'object-level non-interference (rests on BezierPath.clone cloning every segment, C07); measured']
ASSUMPTIONS = c12.ASSUMPTIONS
HAND_FINGERPRINTS = cg.HAND_FINGERPRINTS
GOLDEN_FINGERPRINTS = cg.GOLDEN_FINGERPRINTS
OPS3 = c12.OPS3
KNOWN_CLASS = 'C13-curve-mode-disconnected'
SAGITTA_CLASS = 'C13-straight-edge-sagitta'


# ------------------------------------------------------------------------------------------------ correspondence
def correspond(ctx):
    rng = ctx.rng
    cases, meta, dist = [], [], {}
    spot_n, spot_bad = 0, []
    todo = []
    c1, c2 = cg.Circle(50, origin=P(0, 0)), cg.Circle(50, origin=P(41, 0))
    r1, r2 = cg.Rectangle(100, 100, origin=P(0, 0)), cg.Rectangle(100, 100, origin=P(50, 50))
    far = cg.Rectangle(10, 10, origin=P(900, 900))
    e1 = cg.Ellipse(80, 30, origin=P(10, 5))
    for A, B, tag in ((c1, c2, 'circles-crossing-D17'), (r1, r2, 'squares-crossing'), (r1, far, 'disjoint-squares'), (r1, c2, 'square-circle'), (e1, c1, 'ellipse-circle')):
        for op in OPS3:
            todo.append((A, B, op, False, {'kinds': tag, 'config': 'corpus'}))
    for i in range(ctx.n(12, 200)):
        A, B, m = cg.gen_pair(rng, big=False if rng.random() < 0.9 else None)
        todo.append((A, B, rng.choice(OPS3), False, m))
    for i in range(ctx.n(3, 40)):
        A, B, m = region_pair(rng)
        todo.append((A, B, rng.choice(OPS3), False, m))
    for A, B, op, flat, m in todo:
        ap, bp = cg.path_pts(A), cg.path_pts(B)
        run = cg.record_clip(A, B, op, flat)
        cases.append(cg.coq_case(ap, bp, op, flat, run))
        key = f"{m['config']}/{op}"
        dist[key] = dist.get(key, 0) + 1
        kinds = {}
        if run['result'] is not None:
            for p in run['result']:
                for s in p.asSegments(): kinds[type(s).__name__] = kinds.get(type(s).__name__, 0) + 1
        meta.append({'A': cg.path_json(A), 'B': cg.path_json(B), 'op': op, 'flat': flat, 'meta': m, 'python': run['raised'] or kinds})
        k, bad = c12.clipper_spot_check(run, op, rng, n=20)
        spot_n += k; spot_bad += [dict(b, case=len(cases) - 1) for b in bad]
    res = vlib.run_case_files('C13', 'glue', cg.IMPORTS, cg.PREAMBLE, cases, per_file=max(1, len(cases) // 16 + 1))
    # BezierPath.splitAtPoints on its own, with the split lists the glue never produces: t below 1e-8, repeated t, t = 1.0
    # (twice: ZeroDivisionError), unsorted lists, the same segment value twice in the path (D14)
    scases, smeta = split_cases(rng, ctx.n(60, 1500))
    res2 = vlib.run_case_files('C13', 'split', cg.IMPORTS, cg.PREAMBLE, scases, per_file=max(1, len(scases) // 8 + 1))
    dist['splitAtPoints_cases'] = res2['n']; dist['splitAtPoints_raised'] = sum(1 for m_ in smeta if m_['python'] == 'ZeroDivisionError')
    if res2['failing'] and not res['failing']:
        res = dict(res2, n=res['n'] + res2['n'], agree=res['agree'] + res2['agree']); meta = smeta
    else:
        res = dict(res, n=res['n'] + res2['n'], agree=res['agree'] + res2['agree'], errors=res['errors'] + res2['errors'])
    out = {'n': res['n'], 'agree': res['agree'], 'failing': res['failing'], 'errors': res['errors'],
           'distribution': dict(dist, clipper_hypothesis_points_checked=spot_n, clipper_hypothesis_points_bad=len(spot_bad)),
           'samples': [{k: v for k, v in meta[0].items() if k not in ('A', 'B')}, meta[len(meta) // 2]], 'kinds': {'hand_models': 1}}
    if res['failing']: out['first_disagreement'] = [meta[i] for i in res['failing'][:2]]
    if spot_bad:
        out['agree'] = min(out['agree'], out['n'] - 1)
        out['first_disagreement'] = {'clipper_hypothesis': spot_bad[:3], 'case': meta[spot_bad[0]['case']]}
    # the curve-preserving mode of the glue as REGENERATED from utils/booleanoperationsmixin.py (round 6; Proofs/Bridge6.v): the kernels draw flat = False too
    kernels.merge_cross_check(out, 'C13', ['Path_clip', 'Path_union', 'Path_intersection', 'Path_difference'], ctx.n(8, 100), rng, label='regenerated-kernels-round6')
    return out


def split_cases(rng, n):
    from beziers.path import BezierPath
    cases, meta = [], []
    for _ in range(n):
        k = rng.randint(1, 4)
        ints = rng.random() < 0.5
        def pt(): return P(rng.randint(-50, 50), rng.randint(-50, 50)) if ints else P(rng.uniform(-500, 500), rng.uniform(-500, 500))
        segs, cur = [], pt()
        for i in range(k):
            o = rng.choice([2, 3, 4]); nxt = pt()
            segs.append(gen.KINDS[o](cur, *[pt() for _ in range(o - 2)], nxt)); cur = nxt
        if k >= 2 and rng.random() < 0.25: segs[-1] = segs[0].clone()          # the same segment value twice
        path = BezierPath.fromSegments([s_.clone() for s_ in segs]); path.closed = False
        sl = []
        for _ in range(rng.randint(0, 5)):
            t = rng.choice([0.0, 1e-9, 5e-9, 1e-8, 0.25, 0.5, 0.5, 0.75, 1.0, 1.0, 1.0 - 1e-9, rng.random(), rng.random()])
            sl.append((rng.choice(path.asSegments()), t))
        if rng.random() < 0.1:
            s0 = rng.choice(path.asSegments()); sl += [(s0, 1.0), (s0, rng.choice([1.0, 0.5]))]
        before = cg.path_pts(path)
        sl_pts = [(cg.seg_pts(s_), t) for s_, t in sl]
        try:
            path.splitAtPoints(sl); exc = None
        except ZeroDivisionError:
            exc = 'ZeroDivisionError'
        got = f"splitAtPoints FOps {cg.csegs(before)} {vlib.clist([f'({cg.csegpts(s_)}, {vlib.fhex(t)})' for s_, t in sl_pts])}"
        if exc: cases.append(f"match {got} with Raise e => exc_eqb e EZeroDiv | Ok _ => false end")
        else: cases.append(f"match {got} with Ok l => segs_feq l {cg.csegs(cg.path_pts(path))} | Raise _ => false end")
        meta.append({'splitAtPoints': {'segments': before, 'splitlist': sl_pts}, 'python': exc or len(path.asSegments())})
    return cases, meta


# ------------------------------------------------------------------------------------------------ references
def split_pts(pts, t):
    """de Casteljau subdivision of a control polygon (independent of beziers)"""
    left, right = [pts[0]], [pts[-1]]
    cur = list(pts)
    while len(cur) > 1:
        cur = [((1 - t) * a[0] + t * b[0], (1 - t) * a[1] + t * b[1]) for a, b in zip(cur, cur[1:])]
        left.append(cur[0]); right.append(cur[-1])
    return left, right[::-1]


def sub_pts(pts, a, b):
    """control polygon of the sub-curve on [a, b]"""
    if b >= 1.0: l = list(pts)
    else: l, _ = split_pts(pts, b)
    if a <= 0.0: return l
    _, r = split_pts(l, a / b if b > 0 else 0.0)
    return r


def near_params(pts, p, tol, n=96):
    """all parameters t in [0,1] (one per local minimum of the distance) at which the curve passes within tol of p;
    a self-intersecting cubic passes through its double point twice, so the nearest parameter alone is not enough"""
    d = []
    for i in range(n + 1):
        q = ref.bern(pts, i / n)
        d.append((q[0] - p[0]) ** 2 + (q[1] - p[1]) ** 2)
    out = []
    for i in range(n + 1):
        if (i > 0 and d[i - 1] < d[i]) or (i < n and d[i + 1] < d[i]): continue
        lo, hi = max(0.0, (i - 1) / n), min(1.0, (i + 1) / n)
        for _ in range(70):     # golden-section on the squared distance
            m1 = lo + 0.381966 * (hi - lo); m2 = lo + 0.618034 * (hi - lo)
            q1, q2 = ref.bern(pts, m1), ref.bern(pts, m2)
            if (q1[0] - p[0]) ** 2 + (q1[1] - p[1]) ** 2 < (q2[0] - p[0]) ** 2 + (q2[1] - p[1]) ** 2: hi = m2
            else: lo = m1
        t = (lo + hi) / 2
        for cand in (t, 0.0, 1.0):
            q = ref.bern(pts, cand)
            if math.hypot(q[0] - p[0], q[1] - p[1]) <= tol and all(abs(cand - o) > 1e-9 for o in out):
                out.append(cand)
                break
    return out


def is_piece(v_pts, inputs_pts, tol):
    """is the control polygon v a sub-curve [a,b] (0<=a<=b<=1), or the reverse of one, of one of the input segments of the same degree"""
    best = float('inf')
    for s in inputs_pts:
        if len(s) != len(v_pts): continue
        for cand in (v_pts, v_pts[::-1]):
            for a in near_params(s, cand[0], tol):
                for b in near_params(s, cand[-1], tol):
                    if a > b + 1e-9: continue
                    sp = sub_pts(s, a, b)
                    err = max(math.hypot(x[0] - y[0], x[1] - y[1]) for x, y in zip(sp, cand))
                    best = min(best, err)
                    if err <= tol: return True, err
    return False, best


def min_curvature_radius(segs_pts):
    r = float('inf')
    for pts in segs_pts:
        if len(pts) == 2: continue
        n = len(pts) - 1
        d1 = [(n * (b[0] - a[0]), n * (b[1] - a[1])) for a, b in zip(pts, pts[1:])]
        d2 = [((n - 1) * (b[0] - a[0]), (n - 1) * (b[1] - a[1])) for a, b in zip(d1, d1[1:])]
        for i in range(65):
            t = i / 64
            v = ref.bern(d1, t); w = ref.bern(d2, t) if len(d2) > 1 else d2[0]
            cr = abs(v[0] * w[1] - v[1] * w[0]); sp = math.hypot(*v)
            if cr > 0: r = min(r, sp ** 3 / cr)
            elif sp == 0: r = 0.0
    return r


def seg_samples(s_pts, step=0.4):
    if len(s_pts) == 2:
        L = math.hypot(s_pts[1][0] - s_pts[0][0], s_pts[1][1] - s_pts[0][1])
        k = max(2, min(60, int(L / step) + 1))
    else:
        k = 12
    return [ref.bern(s_pts, i / k) for i in range(k + 1)]


def crossing_angles(oa, ob):
    """all crossings between two dense outlines: list of (point, angle between the crossing edges in degrees)"""
    out = []
    for x0, y0, x1, y1, es in oa.chunks:
        for u0, v0, u1, v1, fs in ob.chunks:
            if x1 < u0 or u1 < x0 or y1 < v0 or v1 < y0: continue
            for a, b in es:
                r = (b[0] - a[0], b[1] - a[1])
                for c, d in fs:
                    s = (d[0] - c[0], d[1] - c[1])
                    den = r[0] * s[1] - r[1] * s[0]
                    if den == 0: continue
                    t = ((c[0] - a[0]) * s[1] - (c[1] - a[1]) * s[0]) / den
                    u = ((c[0] - a[0]) * r[1] - (c[1] - a[1]) * r[0]) / den
                    if 0 <= t < 1 and 0 <= u < 1:
                        ang = math.degrees(math.asin(min(1.0, abs(den) / (math.hypot(*r) * math.hypot(*s)))))
                        out.append(((a[0] + t * r[0], a[1] + t * r[1]), ang))
    return out


def _open_outline(poly):
    o = cg.Outline(poly + [poly[-1]])       # the Outline closes the chain: drop the closing edge again
    o.edges = o.edges[:len(poly) - 1]
    o.chunks = []
    for k in range(0, len(o.edges), o.CH):
        es = o.edges[k:k + o.CH]
        xs = [q[0] for e in es for q in e]; ys = [q[1] for e in es for q in e]
        o.chunks.append((min(xs), min(ys), max(xs), max(ys), es))
    return o


def curved_crossings(A, B):
    """points where a CURVED segment of A crosses (or comes within 0.05 of crossing) a CURVED segment of B, from dense polylines of the inputs"""
    out = []
    ca = [cg.dense_poly([sp], sag=0.003) + [sp[-1]] for sp in cg.path_pts(A) if len(sp) > 2]
    cb = [cg.dense_poly([sp], sag=0.003) + [sp[-1]] for sp in cg.path_pts(B) if len(sp) > 2]
    for pa in ca:
        oa = _open_outline(pa)
        for pb in cb:
            out += [q for q, _ in crossing_angles(oa, _open_outline(pb))]
    return out


def straight_crossings(A, B):
    """points where a STRAIGHT edge of one input transversally crosses a segment of the other, away from the ends of both (edge parameter in
    [5e-7, 1 - 5e-7]; more than 0.01 units from the ends of the other segment): crossings the code pre-splits on both operands to ~1e-9"""
    out = []
    for X, Y in ((A, B), (B, A)):
        for sp in cg.path_pts(X):
            if len(sp) != 2: continue
            (ax, ay), (bx, by) = sp
            L = math.hypot(bx - ax, by - ay)
            if L == 0: continue
            for tp in cg.path_pts(Y):
                if len(tp) == 2 and X is B: continue        # straight x straight: once
                poly = cg.dense_poly([tp], sag=0.003) + [tp[-1]]
                for c, d in zip(poly, poly[1:]):
                    r = (bx - ax, by - ay); q = (d[0] - c[0], d[1] - c[1])
                    den = r[0] * q[1] - r[1] * q[0]
                    if den == 0: continue
                    t = ((c[0] - ax) * q[1] - (c[1] - ay) * q[0]) / den
                    u = ((c[0] - ax) * r[1] - (c[1] - ay) * r[0]) / den
                    if not (5e-7 <= t <= 1 - 5e-7 and 0 <= u < 1): continue
                    if abs(den) < math.sin(math.radians(10)) * math.hypot(*r) * math.hypot(*q): continue
                    pt = (ax + t * r[0], ay + t * r[1])
                    if min(math.hypot(pt[0] - tp[0][0], pt[1] - tp[0][1]), math.hypot(pt[0] - tp[-1][0], pt[1] - tp[-1][1])) <= 0.01: continue
                    out.append(pt)
    return out


def disconnection_explained(A, B, op):
    """Is a disconnected curve-mode result of A.<op>(B) explained by the KNOWN mechanism (known_findings: C13-curve-mode-disconnected)?
    Decided from the inputs and from what went to and came back from Clipper, never from the result paths.  The known mechanism needs a polygon edge
    returned by Clipper that is not an edge of a polygon it was given, and that happens on the unchanged code for two reasons only:
      (i)  Clipper created a vertex of its own where two CURVED outlines cross (the curve/curve split parameters are only good to a few units -- the C06
           findings -- so the two flattened chains cross away from the split points), or
      (ii) Clipper dropped vertices of a flattened chain that are exactly collinear after the scaling by 100 (flat parts of eccentric ellipses, the
           neighbourhood of an axis extreme), so that a returned edge spans several given edges, or
      (iii) the flattened chains cut each other where the true outlines only come close (a curve passing a corner within the flattening deviation).
    An edge that is foreign to both flattened operands NEXT TO A CROSSING THAT INVOLVES A STRAIGHT EDGE -- which the unchanged code pre-splits on both operands
    to 1e-9 -- is none of these: it is reported as a violation."""
    A2, B2 = cg.path_from_json(cg.path_json(A)), cg.path_from_json(cg.path_json(B))
    r = cg.record_clip(A2, B2, op, False)
    rec = r['rec']
    if not rec.execute or rec.execute[0]['result'] is None: return False, 'no Clipper call recorded'
    given = [[(float(x), float(y)) for x, y in e['path']] for e in rec.addpath]
    # grid index of the given vertices (cells of 4 Clipper units = 0.04): vertex -> [(polygon, index)]
    idx = {}
    for k, poly in enumerate(given):
        for n_, v in enumerate(poly): idx.setdefault((int(v[0] // 4), int(v[1] // 4)), []).append((k, n_, v))
    def given_at(w, thr=1.5):
        cx, cy = int(w[0] // 4), int(w[1] // 4)
        return [(k, n_) for dx in (-1, 0, 1) for dy in (-1, 0, 1) for k, n_, v in idx.get((cx + dx, cy + dy), ()) if abs(v[0] - w[0]) <= thr and abs(v[1] - w[1]) <= thr]
    def spans_collinear(k, a, b, u, v):
        """the given vertices strictly between indices a and b of polygon k (the shorter way round) all lie on the line u-v"""
        n_ = len(given[k])
        for step in (1, -1):
            cnt = (b - a) * step % n_
            if cnt == 0 or cnt > n_ // 2 + 1: continue
            L = math.hypot(v[0] - u[0], v[1] - u[1]) or 1.0
            if all(abs((given[k][(a + step * m) % n_][0] - u[0]) * (v[1] - u[1]) - (given[k][(a + step * m) % n_][1] - u[1]) * (v[0] - u[0])) / L <= 1.5 for m in range(1, cnt)): return True
        return False
    foreign = []
    for poly in rec.execute[0]['result']:
        for m in range(len(poly)):
            u, v = poly[m], poly[(m + 1) % len(poly)]
            gu, gw = given_at(u), given_at(v)
            if any(k1 == k2 and spans_collinear(k1, a, b, u, v) for k1, a in gu for k2, b in gw): continue
            foreign.append((u, v))
    if not foreign: return True, 'every edge returned by Clipper is an edge it was given, or spans given vertices that are collinear'
    # a foreign edge next to a crossing that involves a straight edge (pre-split on both operands by the unchanged code) is NOT the known finding;
    # anywhere else (where two curved outlines cross, or where the flattened chains cut each other although the true outlines only come close) it is
    sc = straight_crossings(A, B)
    def dist_to_edge(q, u, v):
        ux, uy, vx, vy = u[0] / 100.0, u[1] / 100.0, v[0] / 100.0, v[1] / 100.0
        dx, dy = vx - ux, vy - uy; L2 = dx * dx + dy * dy
        k = 0.0 if L2 == 0 else max(0.0, min(1.0, ((q[0] - ux) * dx + (q[1] - uy) * dy) / L2))
        return math.hypot(q[0] - ux - k * dx, q[1] - uy - k * dy)
    bad = [(u, v, q) for u, v in foreign for q in sc if dist_to_edge(q, u, v) <= 1.0]
    if bad:
        (u, v, q) = bad[0]
        return False, (f'Clipper returned the edge ({u[0] / 100.0}, {u[1] / 100.0}) - ({v[0] / 100.0}, {v[1] / 100.0}), which is not an edge of either flattened operand, next to the crossing '
                       f'({q[0]:.4f}, {q[1]:.4f}) of a straight edge with the other outline: that crossing was not pre-split on both operands')
    # ... and where two CURVED outlines cross, the unchanged code does split both operands within a unit or two of the crossing (310 of 310 crossings of 150
    # random ellipse/circle pairs have a split node within 2 units on both operands): a curved crossing with no split node within 8 units on one of the
    # operands was not found at all, or was split somewhere else -- not the recorded finding
    split_nodes = [[q for _, pts in e['after'] for q in (pts[0], pts[-1])] for e in rec.split if e['after']]
    if len(split_nodes) == 2:
        cc = curved_crossings(A, B)
        for q in cc:
            far = [k for k, ns in enumerate(split_nodes) if min(math.hypot(q[0] - n_[0], q[1] - n_[1]) for n_ in ns) > 8.0]
            if far and any(dist_to_edge(q, u, v) <= 8.0 for u, v in foreign):
                return False, (f'the curved outlines cross at ({q[0]:.3f}, {q[1]:.3f}) but the {"receiver" if far[0] == 0 else "argument"} was not split within 8 units of that crossing '
                               '(the unchanged code splits both operands within 2 units of every such crossing)')
    return True, 'edges foreign to the flattened operands only away from crossings that involve a straight edge (curved x curved crossings that were pre-split nearby, near misses within the flattening deviation)'


def thin_rect_pair(rng):
    """a narrow rectangle through ONE quadrant of a circle / ellipse: the same curved segment is crossed twice, the crossings close together"""
    R = rng.uniform(60, 120); c = P(rng.uniform(-20, 20), rng.uniform(-20, 20))
    circ = cg.Circle(R, origin=c) if rng.random() < 0.7 else cg.Ellipse(R, R * rng.uniform(0.7, 1.0), origin=c)
    ang = math.radians(rng.choice([0, 90, 180, 270]) + rng.uniform(25, 65))
    w = rng.uniform(8, 30); L = rng.uniform(1.2, 2.2) * R
    vertical = rng.random() < 0.5
    centre = P(c.x + R * math.cos(ang), c.y + R * math.sin(ang) + (L / 2 - rng.uniform(10, 30)) * (1 if math.sin(ang) > 0 else -1)) if vertical else \
             P(c.x + R * math.cos(ang) + (L / 2 - rng.uniform(10, 30)) * (1 if math.cos(ang) > 0 else -1), c.y + R * math.sin(ang))
    rect = cg.Rectangle(w, L, origin=centre) if vertical else cg.Rectangle(L, w, origin=centre)
    A, B = (rect, circ) if rng.random() < 0.5 else (circ, rect)
    return A, B, {'kinds': ['rect', 'circle'] if A is rect else ['circle', 'rect'], 'config': 'transversal-thin-rect'}


def corner_graze_pair(rng):
    """a circle crossing an edge of a rectangle a hair (1e-6 .. 8e-6 of the edge's length) after the corner the edge starts from, at about 45 degrees"""
    w, h = rng.uniform(20, 240), rng.uniform(20, 240); c = P(rng.uniform(-60, 60), rng.uniform(-60, 60))
    elong = rng.random() < 0.7
    if elong:            # a long edge after a short one: the crossing is a smaller fraction of the long edge than of the short one's overshoot
        w, h = rng.uniform(150, 240), rng.uniform(20, 40)
        if rng.random() < 0.5: w, h = h, w
    rect = cg.Rectangle(w, h, origin=c)
    es = rect.asSegments()
    e = rng.choice([x_ for x_ in es if x_.length > 100] if elong else es)
    d = P(e.end.x - e.start.x, e.end.y - e.start.y); L = math.hypot(d.x, d.y); u = P(d.x / L, d.y / L)
    x = P(e.start.x + u.x * L * rng.uniform(1e-6, 8e-6), e.start.y + u.y * L * rng.uniform(1e-6, 8e-6))
    R = rng.uniform(25, 100); a = math.atan2(u.y, u.x) + rng.choice([1, -1]) * math.radians(rng.uniform(35, 55)) + rng.choice([0, math.pi])
    cen = P(x.x + R * math.cos(a + math.pi / 2), x.y + R * math.sin(a + math.pi / 2)); r = math.hypot(x.x - e.start.x, x.y - e.start.y) / L
    circ = cg.Circle(R, origin=cen)
    for _ in range(3):
        # the four-cubic 'circle' is up to 0.03% off a true circle: slide it along the edge until ITS crossing sits at the wanted parameter
        ts = [i.t2 for s_ in circ.asSegments() for i in s_.intersections(e, limited=False)]
        if not ts: break
        t = min(ts, key=lambda v: abs(v - r))
        cen = P(cen.x + u.x * L * (r - t), cen.y + u.y * L * (r - t)); circ = cg.Circle(R, origin=cen)
    A, B = (rect, circ) if rng.random() < 0.5 else (circ, rect)
    return A, B, {'kinds': ['rect', 'circle'] if A is rect else ['circle', 'rect'], 'config': 'transversal-corner-graze'}


def node_crossing_pair(rng):
    """a rectangle one of whose sides runs through the CENTRE of a circle / ellipse, parallel to an axis: the outlines cross transversally exactly at two
    on-curve nodes of the round shape (its east/west or north/south points), i.e. at parameter 0 / 1 of its segments"""
    R = float(rng.randint(20, 100)) if rng.random() < 0.6 else rng.uniform(20, 100)
    c = P(float(rng.randint(-60, 60)), float(rng.randint(-60, 60))) if rng.random() < 0.6 else P(rng.uniform(-60, 60), rng.uniform(-60, 60))
    rnd = cg.Circle(R, origin=c) if rng.random() < 0.6 else cg.Ellipse(R, R * rng.uniform(0.5, 1.0), origin=c)
    w, h = rng.uniform(2.5, 4) * R, rng.uniform(0.6, 1.6) * R
    side = rng.choice(['top', 'bottom', 'left', 'right'])
    if side in ('top', 'bottom'): rect = cg.Rectangle(w, h, origin=P(c.x + rng.uniform(-0.3, 0.3) * R, c.y - h / 2 if side == 'top' else c.y + h / 2))
    else: rect = cg.Rectangle(h, w, origin=P(c.x - h / 2 if side == 'right' else c.x + h / 2, c.y + rng.uniform(-0.3, 0.3) * R))
    A, B = (rect, rnd) if rng.random() < 0.5 else (rnd, rect)
    return A, B, {'kinds': ['rect', 'circle'] if A is rect else ['circle', 'rect'], 'config': 'transversal-at-nodes'}


def curved_special_pair(rng):
    """two curved shapes in special positions: (a) a node of one of them EXACTLY at the origin (a circle of radius R centred at (+-R, 0) or (0, +-R)) with the
    partner crossing the segments next to that node; (b) a small circle / ellipse centred near the middle of one quadrant of a big circle, so that the same
    curved segment is crossed twice"""
    if rng.random() < 0.5:
        R = float(rng.randint(30, 100)); ax = rng.choice([(1, 0), (-1, 0), (0, 1), (0, -1)])
        A = cg.Circle(R, origin=P(ax[0] * R, ax[1] * R)) if rng.random() < 0.7 else cg.Ellipse(R, R * rng.uniform(0.6, 1.0), origin=P(ax[0] * R, 0.0) if ax[0] else P(0.0, ax[1] * R * 1.0))
        if not any(abs(n_.x) == 0.0 and abs(n_.y) == 0.0 for s_ in A.asSegments() for n_ in (s_.start,)): A = cg.Circle(R, origin=P(ax[0] * R, ax[1] * R))
        r2 = rng.uniform(0.5, 0.9) * R; ang = rng.uniform(0, 2 * math.pi); d = rng.uniform(0.6, 1.2) * r2
        B = cg.Circle(r2, origin=P(d * math.cos(ang), d * math.sin(ang)))           # passes near the origin node
        kind = 'transversal-origin-node'
    else:
        R = rng.uniform(70, 120); c = P(rng.uniform(-20, 20), rng.uniform(-20, 20)); A = cg.Circle(R, origin=c)
        ang = math.radians(rng.choice([0, 90, 180, 270]) + rng.uniform(30, 60)); r2 = rng.uniform(12, 30)
        o = P(c.x + R * math.cos(ang) + rng.uniform(-0.3, 0.3) * r2, c.y + R * math.sin(ang) + rng.uniform(-0.3, 0.3) * r2)
        B = cg.Circle(r2, origin=o) if rng.random() < 0.5 else cg.Ellipse(r2, r2 * rng.uniform(0.5, 1.0), origin=o)
        kind = 'transversal-quadrant-twice'
    if rng.random() < 0.5: A, B = B, A
    return A, B, {'kinds': ['circle', 'circle'], 'config': kind}


def region_pair(rng):
    """rect / ellipse / circle, sizes 20..240, centres within +-100, outlines crossing with >= 10 degrees everywhere"""
    for _ in range(200):
        kinds = (rng.choice(['rect', 'ellipse', 'circle']), rng.choice(['rect', 'ellipse', 'circle']))
        shapes = []
        for k in kinds:
            c = P(rng.uniform(-100, 100), rng.uniform(-100, 100))
            if rng.random() < 0.3: c = P(round(c.x), round(c.y))
            if k == 'rect': shapes.append(cg.Rectangle(rng.uniform(20, 240), rng.uniform(20, 240), origin=c))
            elif k == 'ellipse': shapes.append(cg.Ellipse(rng.uniform(10, 120), rng.uniform(10, 120), origin=c))
            else: shapes.append(cg.Circle(rng.choice([rng.uniform(10, 120), float(rng.randint(10, 120))]), origin=c))
        A, B = shapes
        oa, ob = cg.Outline(cg.dense_poly(cg.path_pts(A))), cg.Outline(cg.dense_poly(cg.path_pts(B)))
        xs = crossing_angles(oa, ob)
        if len(xs) >= 2 and all(a >= 10 for _, a in xs):
            return A, B, {'kinds': list(kinds), 'config': 'transversal', 'crossings': len(xs), 'min_angle': min(a for _, a in xs)}
    raise RuntimeError('no transversal pair generated')


# ------------------------------------------------------------------------------------------------ search
def check_first_sentence(A, B, m, seed2):
    """provenance, distance clause, inputs unmodified, empty intersection; returns (failures, measured)"""
    fails, meas = [], {'max_dist': 0.0, 'max_piece_err': 0.0, 'curved_segments': 0, 'straight_segments': 0}
    A, B = cg.prepared(A, B, m)
    A_pts, B_pts = cg.path_pts(A), cg.path_pts(B)
    before = (cg.deep_repr(A), cg.deep_repr(B))
    ids_in = {id(s) for p in (A, B) for s in p.asSegments()} | {id(q) for p in (A, B) for s in p.asSegments() for q in s.points}
    oa, ob = cg.Outline(cg.dense_poly(A_pts)), cg.Outline(cg.dense_poly(B_pts))
    rc = min(min_curvature_radius(A_pts), min_curvature_radius(B_pts))
    lim = (0.1 if rc >= 10 else 1.5) + 0.006          # + the reference outline's own chord error
    meas['limit'] = lim
    scale = max(1.0, max(abs(c) for s in A_pts + B_pts for p in s for c in p))
    results = {}
    for op in OPS3:
        try:
            res = getattr(A, op)(B)                  # default mode: curve preserving
        except Exception as ex:
            fails.append(('C13-exception', f'{op}() raised {type(ex).__name__}: {ex}')); continue
        results[op] = res
        for k, path in enumerate(res):
            for i, s in enumerate(path.asSegments()):
                sp = cg.seg_pts(s)
                if id(s) in ids_in or any(id(q) in ids_in for q in s.points):
                    fails.append(('C13-modified', f'{op}: segment {i} of result path {k} (or one of its points) IS an object of an input'))
                if len(sp) > 2:
                    meas['curved_segments'] += 1
                    ok, err = is_piece(sp, A_pts + B_pts, 1e-7 * scale)
                    meas['max_piece_err'] = max(meas['max_piece_err'], err if ok else 0.0)
                    if not ok: fails.append(('C13-provenance', f'{op}: segment {i} of result path {k}, {s}, is neither a straight edge nor a (reversed) piece of an '
                                             f'input segment (best control-polygon mismatch {err:.3g})'))
                else: meas['straight_segments'] += 1
                for q in seg_samples(sp):
                    if oa.within(q, lim) or ob.within(q, lim): continue
                    d = min(oa.dist(q), ob.dist(q))
                    meas['max_dist'] = max(meas['max_dist'], d)
                    cls = 'C13-distance'
                    if rc >= 10 and len(sp) == 2:
                        # known finding C13-straight-edge-sagitta: clip flattens with flatten(2), whose regular samples land on the 1-unit grid of the
                        # look-up table, so one chord can be 3 units long; a straight result edge that IS (part of) such a chord -- both ends on one input
                        # outline, no longer than 3.2 -- bulges L^2/(8r) from a curve of radius r, which exceeds 0.1 only for 10 <= r < 12.8.  Decided from
                        # the edge's ends, its length and the inputs' curvature; anything farther away than the sagitta is still C13-distance.
                        L = math.hypot(sp[1][0] - sp[0][0], sp[1][1] - sp[0][1])
                        on_a = oa.within(sp[0], 0.026) and oa.within(sp[1], 0.026)
                        on_b = ob.within(sp[0], 0.026) and ob.within(sp[1], 0.026)
                        if L <= 3.2 and (on_a or on_b) and d <= 1.05 * L * L / (8 * rc) + 0.01: cls = SAGITTA_CLASS
                    fails.append((cls, f'{op}: point {q} of segment {i} ({type(s).__name__}) of result path {k} is {d:.4f} from the nearest input '
                                  f'outline (limit {lim - 0.006:.1f}; min radius of curvature {rc:.3g})'))
                    break
    if before != (cg.deep_repr(A), cg.deep_repr(B)): fails.append(('C13-modified', 'an input path changed (deep repr of closed flag, kinds, control points)'))
    if m.get('config') == 'disjoint' and 'intersection' in results and results['intersection'] != []:
        fails.append(('C13-empty', f"intersection of disjoint shapes is {results['intersection']!r}, not []"))
    if m.get('expect_empty') and results.get('intersection'):
        fails.append(('C13-empty', f"the receiver lies in the doubly wound core of the argument (outside its even-odd interior): the intersection is empty, but {len(results['intersection'])} path(s) were returned"))
    return fails, meas, results


def dense_path_poly(path):
    return cg.dense_poly(cg.path_pts(path), sag=0.003)


def check_region_sentence(A, B, m, seed2, nprobe=120):
    """second sentence: connected closed contours with the same region semantics as the polygon-mode results, to within 1 unit"""
    rng = _random.Random(seed2)
    fails, meas = [], {'max_gap': 0.0, 'max_area_err_over_tol': 0.0, 'region_bad': 0}
    for op in OPS3:
        try:
            curve = getattr(A, op)(B); flat = getattr(A, op)(B, flat=True)
        except Exception as ex:
            fails.append(('C13-exception', f'{op} raised {type(ex).__name__}: {ex}')); continue
        # connected closed contours
        gap, where = 0.0, None
        for k, path in enumerate(curve):
            segs = path.asSegments()
            if not path.closed: fails.append(('C13-region', f'{op}: result path {k} is not flagged closed'))
            for i, s in enumerate(segs):
                nx = segs[(i + 1) % len(segs)]
                g = math.hypot(s.end.x - nx.start.x, s.end.y - nx.start.y)
                if g > gap: gap, where = g, (k, i, repr(s.end), repr(nx.start), len(segs))
        meas['max_gap'] = max(meas['max_gap'], gap)
        # areas: exact Green integrals of the curve-mode segments vs the exact shoelace of the polygon-mode result
        a_curve = abs(sum(ref.green_area(cg.path_pts(p)) for p in curve))
        a_flat = abs(sum(ref.polygon_area([(s.start.x, s.start.y) for s in p.asSegments()]) for p in flat))
        per = sum(math.hypot(s.end.x - s.start.x, s.end.y - s.start.y) for p in flat for s in p.asSegments())
        tol = 1.0 * per + 1e-9
        meas['max_area_err_over_tol'] = max(meas['max_area_err_over_tol'], abs(a_curve - a_flat) / tol if tol else 0.0)
        disconnected = gap > 1.0 or abs(a_curve - a_flat) > tol
        KNOWN_CLASS = globals()['KNOWN_CLASS']
        if disconnected:
            expl, why = disconnection_explained(A, B, op)
            meas.setdefault('disconnection', []).append([op, expl, why])
            if not expl:
                KNOWN_CLASS = 'C13-region'
                fails.append(('C13-region', f'{op}: the curve-mode result is disconnected (gap {gap:.3f}, area {a_curve:.2f} vs polygon-mode {a_flat:.2f}) and this is NOT the known reconstruction finding: {why}'))
        if gap > 1.0:
            fails.append((KNOWN_CLASS, f'{op}: curve-mode result path {where[0]} ({where[4]} segments): segment {where[1]} ends at {where[2]} but the next starts at {where[3]} (gap {gap:.3f} > 1 unit)'))
        if abs(a_curve - a_flat) > tol:
            fails.append((KNOWN_CLASS, f'{op}: curve-mode region area {a_curve:.2f} vs polygon-mode {a_flat:.2f} (tolerance 1 unit x perimeter = {tol:.1f})'))
        if len(curve) != len(flat):
            fails.append((KNOWN_CLASS if disconnected else 'C13-region', f'{op}: {len(curve)} curve-mode paths but {len(flat)} polygon-mode paths'))
        # region agreement away (> 1 unit) from the polygon-mode outline and from the curve-mode outline's straight closures
        ofl = [cg.Outline([(s.start.x, s.start.y) for s in p.asSegments()]) for p in flat if len(p.asSegments()) >= 1]
        ocv = [cg.Outline(dense_path_poly(p)) for p in curve if len(p.asSegments()) >= 1]
        if not ofl and not ocv: continue
        allp = [q for o in ofl + ocv for q in o.poly]
        x0, x1 = min(q[0] for q in allp), max(q[0] for q in allp); y0, y1 = min(q[1] for q in allp), max(q[1] for q in allp)
        nbad = 0
        for j in range(nprobe):
            if j % 2 and ofl:
                o = rng.choice(ofl); a, b = rng.choice(o.edges); t = rng.random()
                dx, dy = b[0] - a[0], b[1] - a[1]; L = math.hypot(dx, dy) or 1.0
                off = rng.choice([-1, 1]) * rng.uniform(1.05, 6)
                q = (a[0] + t * dx - dy / L * off, a[1] + t * dy + dx / L * off)
            else:
                q = (rng.uniform(x0 - 5, x1 + 5), rng.uniform(y0 - 5, y1 + 5))
            if any(o.within(q, 1.0) for o in ofl): continue
            inf = False
            for o in ofl: inf ^= o.inside(q)
            inc = False
            for o in ocv: inc ^= o.inside(q)
            if inf != inc:
                nbad += 1
                if nbad == 1:
                    fails.append((KNOWN_CLASS if disconnected else 'C13-region',
                                  f'{op}: point {q}, more than 1 unit from the polygon-mode outline, is {"inside" if inc else "outside"} the curve-mode result but '
                                  f'{"inside" if inf else "outside"} the polygon-mode result'))
        meas['region_bad'] += nbad
    return fails, meas


def search(ctx):
    rng = ctx.rng
    fails, dist, samples, seen, ev = [], {}, [], set(), 0
    agg = {'max_dist_to_outline': 0.0, 'max_piece_mismatch': 0.0, 'curved_result_segments': 0, 'straight_result_segments': 0,
           'transversal_pairs': 0, 'transversal_pairs_disconnected': 0, 'max_gap': 0.0, 'max_area_err_over_tol': 0.0}
    todo = [(cg.Circle(50, origin=P(0, 0)), cg.Circle(50, origin=P(41, 0)), {'kinds': ['circle', 'circle'], 'config': 'corpus-D17'}),
            (cg.Rectangle(100, 100, origin=P(0, 0)), cg.Rectangle(100, 100, origin=P(50, 50)), {'kinds': ['rect', 'rect'], 'config': 'corpus-D10'}),
            (cg.Rectangle(100, 100, origin=P(0, 0)), cg.Rectangle(10, 10, origin=P(900, 900)), {'kinds': ['rect', 'rect'], 'config': 'disjoint'}),
            (cg.Circle(50, origin=P(0, 0)), cg.Circle(50, origin=P(0, 0)), {'kinds': ['circle', 'circle'], 'config': 'corpus-identical'}),
            (cg.Rectangle(100, 100, origin=P(0, 0)), cg.Circle(50, origin=P(0, 0)), {'kinds': ['rect', 'circle'], 'config': 'corpus-inscribed'}),
            (cg.Ellipse(120, 20, origin=P(0, 0)), cg.Rectangle(10, 10, origin=P(300, 0)), {'kinds': ['ellipse', 'rect'], 'config': 'disjoint'})]
    todo += [cg.core_pair(rng) for _ in range(2)]
    for i in range(ctx.n(22, 1000)):
        todo.append(cg.gen_pair(rng, config=cg.CONFIGS[i % 4], big=None if ctx.tier == 'thorough' else (i % 11 == 0)))
    for A, B, m in todo:
        seed2 = rng.randrange(1 << 30)
        f, meas, _ = check_first_sentence(A, B, m, seed2)
        ev += meas['curved_segments'] + meas['straight_segments'] + 4
        dist[m['config']] = dist.get(m['config'], 0) + 1
        for k in m['kinds']: dist['kind/' + k] = dist.get('kind/' + k, 0) + 1
        if meas['curved_segments'] + meas['straight_segments'] > 0: seen.add(str(seed2))
        agg['max_piece_mismatch'] = max(agg['max_piece_mismatch'], meas['max_piece_err'])
        agg['max_dist_to_outline'] = max(agg['max_dist_to_outline'], meas['max_dist'])
        agg['curved_result_segments'] += meas['curved_segments']; agg['straight_result_segments'] += meas['straight_segments']
        if len(samples) < 2: samples.append({'A': cg.path_json(A), 'B': cg.path_json(B), 'meta': m, 'measured': meas})
        # one failure record per class seen for this pair (the unlisted classes first)
        for cls in sorted({c for c, _ in f}, key=lambda c: c == SAGITTA_CLASS):
            msgs = [x[1] for x in f if x[0] == cls]
            fails.append({'class': cls, 'what': msgs[0], 'input': {'A': cg.path_json(A), 'B': cg.path_json(B), 'meta': m, 'seed2': seed2, 'sentence': 1},
                          'observed': msgs[:6], 'expected': 'C13 first sentence (provenance, distance, inputs unmodified, empty intersection)'})
    # second sentence
    pairs2 = [(cg.Circle(50, origin=P(0, 0)), cg.Circle(50, origin=P(41, 0)), {'kinds': ['circle', 'circle'], 'config': 'transversal-D17'}),
              (cg.Rectangle(100, 100, origin=P(0, 0)), cg.Rectangle(100, 100, origin=P(50, 50)), {'kinds': ['rect', 'rect'], 'config': 'transversal-squares'})]
    for i in range(ctx.n(12, 500)): pairs2.append(region_pair(rng))
    for i in range(ctx.n(8, 150)): pairs2.append(thin_rect_pair(rng))
    for i in range(ctx.n(8, 150)): pairs2.append(corner_graze_pair(rng))
    for i in range(ctx.n(8, 150)): pairs2.append(curved_special_pair(rng))
    for i in range(ctx.n(6, 100)): pairs2.append(node_crossing_pair(rng))
    for A, B, m in pairs2:
        seed2 = rng.randrange(1 << 30)
        f, meas = check_region_sentence(A, B, m, seed2)
        ev += 3 * 120
        dist[m['config']] = dist.get(m['config'], 0) + 1
        seen.add('r' + str(seed2))
        agg['transversal_pairs'] += 1
        agg['max_gap'] = max(agg['max_gap'], meas['max_gap']); agg['max_area_err_over_tol'] = max(agg['max_area_err_over_tol'], meas['max_area_err_over_tol'])
        if any(c == KNOWN_CLASS for c, _ in f): agg['transversal_pairs_disconnected'] += 1
        # one failure record per class seen for this pair (the unknown classes first)
        for cls in sorted({c for c, _ in f}, key=lambda c: c == KNOWN_CLASS):
            msgs = [x[1] for x in f if x[0] == cls]
            fails.append({'class': cls, 'what': msgs[0], 'input': {'A': cg.path_json(A), 'B': cg.path_json(B), 'meta': m, 'seed2': seed2, 'sentence': 2},
                          'observed': msgs[:6], 'expected': 'C13 second sentence (connected closed contours; same region as polygon mode to within 1 unit)'})
    return {'evaluations': ev, 'distinct_nontrivial': len(seen), 'failures': fails, 'distribution': dist, 'samples': samples, 'measured': agg}


def replay(ctx, payload):
    i = payload['input']
    A, B = cg.path_from_json(i['A']), cg.path_from_json(i['B'])
    if i.get('sentence', 2) == 1:
        f, meas, _ = check_first_sentence(A, B, i.get('meta', {}), i.get('seed2', 0))
    else:
        f, meas = check_region_sentence(A, B, i.get('meta', {}), i.get('seed2', 0))
    return {'fails': bool(f), 'observed': [x[1] for x in f], 'classes': sorted({x[0] for x in f}), 'measured': meas}


def check_known(ctx, finding):
    r = replay(ctx, {'input': finding['input']})
    return finding['class'] in r['classes']
