"""C07: paths stay connected chains under any history of operations (heap model Hand/Heap.v)."""
import math, json, copy
import vlib, gen, kernels
from beziers.point import Point
from beziers.line import Line
from beziers.quadraticbezier import QuadraticBezier
from beziers.cubicbezier import CubicBezier
from beziers.path import BezierPath
from beziers.path.representations.Segment import SegmentRepresentation
from beziers.path.representations.Nodelist import NodelistRepresentation, Node

RULE = ('random HISTORIES of the listed operations (translate, rotate, scale, reverse, addExtremes, splitAtPoints, balance, round, quadraticsToCubics, '
        'removeIrrelevantSegments, flatten, append, clone, asNodelist, asSegments, fromSegments, fromNodelist) of length <= 12 (thorough: <= 40) over <= 4 live '
        'paths, starting from 1-2 connected open or closed (end = start) paths of 1..6 mixed line/quadratic/cubic segments with integer or float '
        'coordinates; arguments: vectors, centres and angles, factors incl. 0 and negatives, cut lists incl. t = 0, 1, duplicates and out-of-range '
        'values, flatten degrees, length thresholds; special sets: nearly-touching ends (isclose but different) for append, collinear and tiny '
        'segments for removeIrrelevantSegments, repeated segment values for splitAtPoints, self-append; every step is observed on every live path; '
        'non-trivial = history of >= 2 operations touching a path of >= 2 segments')
NOT_PROVED = ['"a closed path still ends where it starts" for append on a closed receiver: false (C07_append_closed_refuted; known finding C07-append-closed-receiver); for every other operation it follows from the end-point theorem (both ends are mapped by the same function)',
              'exact connectivity after append when the two ends are isclose but different: false (C07_append_round_refuted; known finding C07-append-isclose-gap); the theorem for append has the premise join_exact',
              'empty paths: handled by the model and the correspondence, excluded from the well-formedness theorems',
              'that the oracle sample lists handed to flatten are what QuadraticBezier.sample / CubicBezier.regularSample compute (the model only checks that they start and end at the curve ends; the real sampler is exercised by the search)',
              'run_preserves_wf for histories in which a mutating operation is applied while another live path shares its objects (after append / flatten of lines / fromSegments): false in general, see the _refuted theorems and the findings',
              'float-specific effects: the theorems are over an arbitrary carrier / the reals with exact (Leibniz) equality of points; -0.0 vs 0.0 and NaN are outside']
ASSUMPTIONS = ['Points are values: no listed operation mutates a Point in place (re-checked dynamically by the search on every step)',
               'dict lookup of Segment keys = same class and ==-equal coordinates (hash collisions between different coordinates ignored)',
               'finite coordinates and arguments; flatten degree > 0']
HAND_FINGERPRINTS = [('path/__init__.py', 'BezierPath.' + m) for m in
                     ('fromSegments', 'fromNodelist', 'asSegments', 'asNodelist', 'clone', 'round', 'splitAtPoints', 'addExtremes', 'append', 'reverse',
                      'translate', 'rotate', 'scale', 'balance', 'flatten', 'quadraticsToCubics', 'removeIrrelevantSegments', 'length')] + \
                    [('path/representations/Segment.py', 'SegmentRepresentation.__init__'), ('path/representations/Segment.py', 'SegmentRepresentation.fromNodelist'),
                     ('path/representations/Segment.py', 'SegmentRepresentation.toNodelist'),
                     ('segment.py', 'Segment.clone'), ('segment.py', 'Segment.round'), ('segment.py', 'Segment.__eq__'), ('segment.py', 'Segment.__hash__'),
                     ('segment.py', 'Segment.__setitem__'), ('cubicbezier.py', 'CubicBezier.balance'), ('cubicbezier.py', 'CubicBezier.tunniPoint'),
                     ('cubicbezier.py', 'CubicBezier.flatten'), ('quadraticbezier.py', 'QuadraticBezier.flatten'), ('line.py', 'Line.flatten'),
                     ('line.py', 'Line.__init__')]
GOLDEN_FINGERPRINTS = {
     "path/__init__.py:BezierPath.fromSegments": "4da10ed54b8536e2",
     "path/__init__.py:BezierPath.fromNodelist": "c182037d248dc246",
     "path/__init__.py:BezierPath.asSegments": "2ca4a8e9788a6da7",
     "path/__init__.py:BezierPath.asNodelist": "2e8a14b6d066900b",
     "path/__init__.py:BezierPath.clone": "4ad8a017443a7ce1",
     "path/__init__.py:BezierPath.round": "56d12e4264ea1f8e",
     "path/__init__.py:BezierPath.splitAtPoints": "38d18ff1ee6ed9d2",
     "path/__init__.py:BezierPath.addExtremes": "66eb2632b61d4d9d",
     "path/__init__.py:BezierPath.append": "8aca59e1917fcb1f",
     "path/__init__.py:BezierPath.reverse": "7b0bfaba496dffcf",
     "path/__init__.py:BezierPath.translate": "3369d4d6f2971629",
     "path/__init__.py:BezierPath.rotate": "43a6cae25393ad71",
     "path/__init__.py:BezierPath.scale": "450674826c1ffc43",
     "path/__init__.py:BezierPath.balance": "3d1d47e86c9fd187",
     "path/__init__.py:BezierPath.flatten": "44fb6426c33c3297",
     "path/__init__.py:BezierPath.quadraticsToCubics": "c7ce40292fc2264e",
     "path/__init__.py:BezierPath.removeIrrelevantSegments": "91f2ae9e72cf0ae6",
     "path/__init__.py:BezierPath.length": "12afac64d64cf9b4",
     "path/representations/Segment.py:SegmentRepresentation.__init__": "68d9a5f425c236ea",
     "path/representations/Segment.py:SegmentRepresentation.fromNodelist": "408390671eb1b59f",
     "path/representations/Segment.py:SegmentRepresentation.toNodelist": "532fcc40def6f31c",
     "segment.py:Segment.clone": "00b6b892a7c376f4",
     "segment.py:Segment.round": "2a21fca5895d7db9",
     "segment.py:Segment.__eq__": "d819c7b26d05b684",
     "segment.py:Segment.__hash__": "15b48420655f67a5",
     "segment.py:Segment.__setitem__": "a7fe365aa9c40f78",
     "cubicbezier.py:CubicBezier.balance": "f6c172987008269f",
     "cubicbezier.py:CubicBezier.tunniPoint": "248eb0825cef64a3",
     "cubicbezier.py:CubicBezier.flatten": "13cb24c0ab541d5f",
     "quadraticbezier.py:QuadraticBezier.flatten": "b1ff31723bac3bf8",
     "line.py:Line.flatten": "ba5e5ec5b6e19034",
     "line.py:Line.__init__": "e03b599b046de7a5"
    }
P = Point
MAXSEGS = 40          # operations that grow a path are not chosen beyond this size
MAXLIVE = 4


# ============================================================================= the Python side of a history
def mkpath(j):
    segs = [gen.seg_from_json(s) for s in j['segments']]
    if j.get('via') == 'nodelist' and j['closed'] and segs:
        # the same closed contour handed over as a NODE LIST that does not repeat its start node, rotated so that it may begin on any node
        # (also an off-curve one): the library has to find the first on-curve node and add the closing segment itself
        from beziers.path.representations.Nodelist import Node
        nl = []
        for s in segs:
            nl += [Node(q.x, q.y, 'offcurve') for q in s.points[1:-1]]
            nl.append(Node(s.points[-1].x, s.points[-1].y, 'line' if len(s.points) == 2 else 'curve'))
        # nl[-1] is the start node (end of the closing segment); the list is cyclic, rotate it
        k = j.get('rot', 0) % len(nl)
        nl = nl[k:] + nl[:k]
        return BezierPath.fromNodelist(nl, closed=True)
    p = BezierPath.fromSegments(segs)
    p.closed = j['closed']
    return p


def flatten_oracle(path, degree):
    """the sample lists the flatten of each curve segment will use (recomputed with the library's own samplers)"""
    out = []
    for s in path.asSegments():
        if isinstance(s, Line) or s.length < degree: out.append([])
        elif isinstance(s, QuadraticBezier): out.append(s.sample(s.length / degree))
        else: out.append(s.regularSample(s.length / degree))
    return out


class World:
    def __init__(self, init):
        self.paths = [mkpath(j) for j in init]
        self.keep = []
        self.lid, self.sid = {}, {}

    def apply(self, op):
        """returns (error or None, extra); new paths are appended to self.paths"""
        k, p = op[0], self.paths[op[1]]
        extra = None
        try:
            if k == 'translate': p.translate(P(op[2], op[3]))
            elif k == 'rotate': p.rotate(P(op[2], op[3]), op[4])
            elif k == 'scale': p.scale(op[2])
            elif k == 'reverse': p.reverse()
            elif k == 'addExtremes': p.addExtremes()
            elif k == 'split':
                segs = p.asSegments()
                p.splitAtPoints([(segs[i], t) for i, t in op[2]])
            elif k == 'balance': p.balance()
            elif k == 'round': p.round()
            elif k == 'q2c': p.quadraticsToCubics()
            elif k == 'remove': p.removeIrrelevantSegments(relLength=op[2], absLength=op[3])
            elif k == 'flatten':
                extra = flatten_oracle(p, op[2])
                self.paths.append(p.flatten(op[2]))
            elif k == 'append': p.append(self.paths[op[2]])
            elif k == 'clone': self.paths.append(p.clone())
            elif k == 'asNodelist': p.asNodelist()
            elif k == 'asSegments': p.asSegments()
            elif k == 'fromSegments': self.paths.append(BezierPath.fromSegments(p.asSegments()))
            elif k == 'fromNodelist': self.paths.append(BezierPath.fromNodelist(p.asNodelist(), closed=p.closed))
            else: raise KeyError(k)
        except (IndexError, ZeroDivisionError, ValueError, OverflowError, AssertionError) as e:
            return type(e).__name__, extra
        return None, extra

    def num(self, table, obj):
        if id(obj) not in table:
            table[id(obj)] = len(table); self.keep.append(obj)
        return table[id(obj)]

    def observe(self):
        """raw object graph of every live path, WITHOUT triggering a representation switch"""
        out = []
        for p in self.paths:
            rep = p.activeRepresentation
            if isinstance(rep, SegmentRepresentation):
                segs = []
                for s in rep.segments:
                    o = getattr(s, '_orig', None)
                    segs.append((self.num(self.sid, s), type(s)(*[P(q.x, q.y) for q in s.points]), None if o is None else self.num(self.sid, o)))   # a snapshot: s may be mutated later
                out.append(('seg', p.closed, self.num(self.lid, rep.segments), segs))
            else:
                out.append(('node', p.closed, [(n.x, n.y, n.type) for n in rep.nodes]))
        return out


def nsegs(p):
    rep = p.activeRepresentation
    if isinstance(rep, SegmentRepresentation): return len(rep.segments)
    return sum(1 for n in rep.nodes if n.type != 'offcurve')


# ============================================================================= generators
def rand_pt(rng, ints):
    return (float(rng.randint(-60, 60)), float(rng.randint(-60, 60))) if ints else (rng.uniform(-300, 300), rng.uniform(-300, 300))


def rand_init_path(rng, ints=None, closed=None, nseg=None, style=None):
    ints = rng.random() < 0.5 if ints is None else ints
    closed = rng.random() < 0.5 if closed is None else closed
    n = nseg or rng.randint(1, 6)
    style = style or rng.choice(['mixed', 'mixed', 'mixed', 'lines', 'collinear', 'tiny', 'repeat'])
    start = rand_pt(rng, ints); cur = start
    segs = []
    d = (rng.uniform(-40, 40), rng.uniform(-40, 40))
    for i in range(n):
        k = 2 if style in ('lines', 'collinear') else rng.choice([2, 3, 4])
        if style == 'collinear' and rng.random() < 0.7: end = (cur[0] + d[0], cur[1] + d[1])
        elif style == 'tiny' and rng.random() < 0.4: end = (cur[0] + rng.uniform(-1e-3, 1e-3), cur[1] + rng.uniform(-1e-3, 1e-3))
        else: end = rand_pt(rng, ints)
        if closed and i == n - 1 and n > 1: end = start
        if closed and n == 1: k = rng.choice([3, 4]); end = start
        mid = [rand_pt(rng, ints) for _ in range(k - 2)]
        segs.append({'kind': gen.KINDS[k].__name__, 'points': [list(cur)] + [list(m) for m in mid] + [list(end)]})
        cur = end
    if closed and n >= 2 and len(segs[-1]['points']) > 2 and rng.random() < 0.3:
        # closing curve whose last handle is retracted onto the start node (its last off-curve node coincides with the first on-curve node)
        segs[-1]['points'][-2] = list(start)
    if style == 'repeat' and n >= 2 and not closed:
        # the same segment value twice: a there-and-back-and-there chain  a, rev(a), a
        a = segs[0]; back = {'kind': a['kind'], 'points': list(reversed(a['points']))}
        segs = [a, back, copy.deepcopy(a)] + [s for s in segs[1:] if False]
    return {'segments': segs, 'closed': closed}


def rand_op(rng, w, special=True):
    """choose an operation applicable to the current Python state (w : World)"""
    live = len(w.paths)
    p = rng.randrange(live)
    n = nsegs(w.paths[p])
    names = ['translate', 'rotate', 'scale', 'reverse', 'addExtremes', 'split', 'balance', 'round', 'q2c', 'remove', 'flatten', 'append', 'clone',
             'asNodelist', 'asSegments', 'fromSegments', 'fromNodelist']
    weights = [2, 2, 2, 2, 3, 4, 2, 3, 2, 4, 2, 4, 2, 2, 1, 0.7, 0.7]
    k = rng.choices(names, weights)[0]
    if k in ('clone', 'flatten', 'fromSegments', 'fromNodelist') and live >= MAXLIVE: k = rng.choice(['round', 'reverse', 'remove', 'split'])
    if k in ('addExtremes', 'split', 'flatten', 'append') and n > MAXSEGS: k = rng.choice(['round', 'reverse', 'remove', 'translate'])
    if k == 'translate': return [k, p, *rand_pt(rng, rng.random() < 0.4)]
    if k == 'rotate': return [k, p, *rand_pt(rng, rng.random() < 0.4), rng.choice([rng.uniform(-7, 7), math.pi / 2, math.pi, -math.pi / 2, 0.0, 1e-9])]
    if k == 'scale': return [k, p, rng.choice([rng.uniform(-3, 3), 2.0, 0.5, -1.0, 1.0, 0.0, 1 / 3])]
    if k == 'split':
        cuts = []
        for _ in range(rng.randint(0, 4)):
            if n == 0: break
            t = gen.tvalue(rng) if rng.random() < 0.85 else rng.choice([1.5, -0.25, 1e-9, 0.999])
            cuts.append([rng.randrange(n), t])
            if rng.random() < 0.2: cuts.append(list(cuts[-1]))
        return [k, p, cuts]
    if k == 'remove': return [k, p, rng.choice([1 / 50000, 1 / 50000, 0.01, 0.2, 1.0, 0.0]), rng.choice([0, 0, 0.0, 1.0, 10.0, 50.0])]
    if k == 'flatten':
        try: L = w.paths[p].length
        except Exception: L = 100.0
        if not (L == L and L < 1e7): return ['reverse', p]
        deg = rng.choice([8, 8, 20.0, 50, max(L / rng.uniform(2, 6), 4.0)])
        if L / deg > 60: deg = L / 40
        return [k, p, deg]
    if k == 'append':
        q = rng.randrange(live) if rng.random() < 0.85 else p
        if nsegs(w.paths[q]) + n > 2 * MAXSEGS: return ['reverse', p]
        return [k, p, q]
    return [k, p]


def gen_history(rng, maxlen, special=True, allow_empty=True):
    """generate while executing (the choice of arguments depends on the current state); returns the JSON history"""
    init = [rand_init_path(rng) for _ in range(rng.choice([1, 2, 2]))]
    if special and len(init) == 2 and rng.random() < 0.25:
        # nearly-touching ends: the second path starts isclose to (but not at) the end of the first
        e = init[0]['segments'][-1]['points'][-1]
        if e[0] != 0.0:
            s = [e[0] * (1 + rng.choice([1, -1, 3]) * 1e-10), e[1]]
            init[1]['segments'][0]['points'][0] = s
            if init[1]['closed']: init[1]['segments'][-1]['points'][-1] = list(s)
    if special and allow_empty and rng.random() < 0.05: init.append({'segments': [], 'closed': rng.random() < 0.5})
    w = World(copy.deepcopy(init))
    ops = []
    for _ in range(rng.randint(1, maxlen)):
        op = rand_op(rng, w)
        err, _ = w.apply(op)
        ops.append(op)
        if not sane(w): break                 # finite, moderate coordinates only (NaN / overflow are outside the model)
    return {'init': init, 'ops': ops}


def sane(w):
    for p in w.paths:
        rep = p.activeRepresentation
        pts = [q for s in rep.segments for q in s.points] if isinstance(rep, SegmentRepresentation) else [n.point for n in rep.nodes]
        for q in pts:
            if not (abs(q.x) < 1e8 and abs(q.y) < 1e8): return False
    return True


# ============================================================================= history -> Coq case
def cnat(i): return f'{i}%nat'
NT = {'line': 'NLine', 'curve': 'NCurve', 'offcurve': 'NOff'}


def cobs(obs):
    items = []
    for o in obs:
        if o[0] == 'seg':
            segs = vlib.clist([f'({cnat(i)}, {vlib.csegment(s)}, {"None" if g is None else "Some " + cnat(g)})' for i, s, g in o[3]])
            items.append(f'({vlib.cbool(o[1])}, inl ({cnat(o[2])}, {segs}))')
        else:
            nodes = vlib.clist([f'((P {vlib.fhex(x)} {vlib.fhex(y)}), {NT[t]})' for x, y, t in o[2]])
            items.append(f'({vlib.cbool(o[1])}, inr {nodes})')
    return vlib.clist(items)


def cop(op, extra):
    k, p = op[0], cnat(op[1])
    if k == 'translate': return f'(OTranslate {p} (P {vlib.fhex(op[2])} {vlib.fhex(op[3])}))'
    if k == 'rotate': return f'(ORotate {p} (P {vlib.fhex(op[2])} {vlib.fhex(op[3])}) {vlib.fhex(op[4])})'
    if k == 'scale': return f'(OScale {p} {vlib.fhex(op[2])})'
    if k == 'reverse': return f'(OReverse {p})'
    if k == 'addExtremes': return f'(OAddExtremes {p})'
    if k == 'split': return f'(OSplit {p} {vlib.clist([f"({cnat(i)}, {vlib.fhex(t)})" for i, t in op[2]])})'
    if k == 'balance': return f'(OBalance {p})'
    if k == 'round': return f'(ORound {p})'
    if k == 'q2c': return f'(OQ2C {p})'
    if k == 'remove': return f'(ORemove {p} {vlib.fhex(op[2])} {vlib.fhex(op[3])})'
    if k == 'flatten':
        smp = vlib.clist([vlib.clist([vlib.cpt(q) for q in l]) for l in (extra or [])])
        return f'(OFlatten {p} {vlib.fhex(op[2])} {smp})'
    if k == 'append': return f'(OAppend {p} {cnat(op[2])})'
    if k == 'clone': return f'(OClone {p})'
    if k == 'asNodelist': return f'(OAsNodelist {p})'
    if k == 'asSegments': return f'(OAsSegments {p})'
    if k == 'fromSegments': return f'(OFromSegments {p})'
    if k == 'fromNodelist': return f'(OFromNodelist {p})'
    raise KeyError(k)


def history_case(h):
    """execute the history on the real objects with libm recording; returns (coq nat expression = index of the first
    disagreeing step or len+1, expected value, python trace)"""
    prox = kernels.proxy(); prox.take()
    w = World(copy.deepcopy(h['init']))
    obs0 = w.observe()
    steps, trace = [], []
    for op in h['ops']:
        err, extra = w.apply(op)
        obs = w.observe()
        steps.append(f'({cop(op, extra)}, {vlib.cbool(err is not None)}, {cobs(obs)})')
        trace.append({'op': op, 'error': err, 'paths': [(o[0], o[1], len(o[3]) if o[0] == 'seg' else len(o[2])) for o in obs]})
    tbl = prox.take()
    init = vlib.clist([f'({vlib.clist([vlib.csegment(gen.seg_from_json(s)) for s in j["segments"]])}, {vlib.cbool(j["closed"])})' for j in h['init']])
    expr = f'(check_history (FOpsT {vlib.clibm(tbl)}) {init} {cobs(obs0)} {vlib.clist(steps)})'
    return expr, len(h['ops']) + 1, trace


PRE = '''From Coq Require Import Arith.
From BZ Require Import Gen.Utils Gen.Point Gen.Line Gen.Quad Gen.Cubic.
Definition segment_feq (a b : segment float) : bool :=
  match a, b with SLine x, SLine y => seg2_feq x y | SQuad x, SQuad y => seg3_feq x y | SCubic x, SCubic y => seg4_feq x y | _, _ => false end.
Definition nt_eqb (a b : ntype) : bool := match a, b with NLine, NLine | NCurve, NCurve | NOff, NOff => true | _, _ => false end.
Definition node_feq (a b : node float) : bool := pt_feq (fst a) (fst b) && nt_eqb (snd a) (snd b).
Definition pyobs : Type := (bool * ((nat * list (nat * segment float * option nat)) + list (node float)))%type.
Definition pairs : Type := list (nat * nat).
(* the relation model id <-> python id must stay a partial bijection over the whole history *)
Fixpoint add_pair (m : pairs) (a b : nat) : option pairs :=
  match m with
  | [] => Some [(a, b)]
  | (a', b') :: r => if Nat.eqb a a' then (if Nat.eqb b b' then Some m else None)
                     else if Nat.eqb b b' then None
                     else match add_pair r a b with Some r' => Some ((a', b') :: r') | None => None end
  end.
Fixpoint cmp_segs (sp : pairs) (ms : list (nat * segobj float)) (ps : list (nat * segment float * option nat)) : option pairs :=
  match ms, ps with
  | [], [] => Some sp
  | (mid, mo) :: mr, (pid, pv, po) :: pr =>
      if segment_feq (so_seg mo) pv then
        match add_pair sp mid pid with
        | None => None
        | Some sp1 =>
            match so_orig mo, po with
            | None, None => cmp_segs sp1 mr pr
            | Some a, Some b => match add_pair sp1 a b with Some sp2 => cmp_segs sp2 mr pr | None => None end
            | _, _ => None
            end
        end
      else None
  | _, _ => None
  end.
Definition cmp_path (O : Ops float) (st : state float) (lp sp : pairs) (pid : nat) (o : pyobs) : option (pairs * pairs) :=
  match raw st pid with
  | None => None
  | Some (cl, r) =>
      if Bool.eqb cl (fst o) then
        match r, snd o with
        | inl (lid, ms), inl (plid, ps) =>
            match add_pair lp lid plid with
            | None => None
            | Some lp1 => match cmp_segs sp ms ps with Some sp1 => Some (lp1, sp1) | None => None end
            end
        | inr nl, inr pnl => if list_eqb node_feq nl pnl then Some (lp, sp) else None
        | _, _ => None
        end
      else None
  end.
Fixpoint cmp_all (O : Ops float) (st : state float) (lp sp : pairs) (obs : list pyobs) (pid : nat) : option (pairs * pairs) :=
  match obs with
  | [] => if Nat.eqb (st_np st) pid then Some (lp, sp) else None
  | o :: r => match cmp_path O st lp sp pid o with Some (lp1, sp1) => cmp_all O st lp1 sp1 r (S pid) | None => None end
  end.
Fixpoint check_steps (O : Ops float) (st : state float) (lp sp : pairs) (steps : list (op float * bool * list pyobs)) (i : nat) : nat :=
  match steps with
  | [] => i
  | (o, err, obs) :: r =>
      let '(st1, res) := step O st o in
      if Bool.eqb (match res with OErr => true | _ => false end) err then
        match cmp_all O st1 lp sp obs 0 with
        | Some (lp1, sp1) => check_steps O st1 lp1 sp1 r (S i)
        | None => i
        end
      else i
  end.
Definition check_history (O : Ops float) (init : list (list (segment float) * bool)) (obs0 : list pyobs)
                         (steps : list (op float * bool * list pyobs)) : nat :=
  let st0 := fold_left (fun st e => new_path st (fst e) (snd e)) init (empty_state) in
  match cmp_all O st0 [] [] obs0 0 with
  | Some (lp, sp) => check_steps O st0 lp sp steps 1
  | None => 0
  end.
'''
IMPORTS = ['Hand.Nodelist', 'Hand.Heap']


def eval_first_bad(exprs, tag='dbg'):
    """evaluate check_history for a few histories; returns the list of nat results (None on a Coq error)"""
    import os, re
    wd = os.path.join(vlib.WORK, 'C07'); os.makedirs(wd, exist_ok=True)
    body = vlib.CASE_HEADER.format(imports=' '.join(IMPORTS), preamble=PRE)
    for e in exprs: body += f'Eval vm_compute in {e}.\n'
    open(os.path.join(wd, f'{tag}.v'), 'w').write(body)
    rc, out, dt = vlib.sh(['coqc', '-Q', vlib.COQ, 'BZ', '-w', '-all', f'{tag}.v'], 600, cwd=wd)
    if rc != 0: return [None] * len(exprs), out[-1500:]
    return [int(x) for x in re.findall(r'=\s*(\d+)\s*:\s*nat', out)], ''


def shrink(h):
    """greedy shrinking of a disagreeing history: cut after the first bad step, then drop earlier operations one by one"""
    def bad(hh):
        try: e, n, _ = history_case(hh)
        except Exception: return None
        r, _ = eval_first_bad([e])
        return None if (not r or r[0] is None or r[0] == n) else r[0]
    b = bad(h)
    if b is None: return h, None
    cur = {'init': h['init'], 'ops': h['ops'][:max(b, 0)]}
    budget = 14
    i = len(cur['ops']) - 2
    while i >= 0 and budget > 0:
        cand = {'init': cur['init'], 'ops': cur['ops'][:i] + cur['ops'][i + 1:]}
        budget -= 1
        if valid_history(cand) and bad(cand) is not None: cur = cand
        i -= 1
    return cur, bad(cur)


def valid_history(h):
    """indices still refer to live paths / existing segments"""
    try:
        w = World(copy.deepcopy(h['init']))
        for op in h['ops']:
            if op[1] >= len(w.paths): return False
            if op[0] == 'append' and op[2] >= len(w.paths): return False
            if op[0] == 'split' and any(i >= nsegs(w.paths[op[1]]) for i, _ in op[2]): return False
            if op[0] == 'flatten' and (op[2] <= 0 or w.paths[op[1]].length / op[2] > 400): return False      # (shrinking) keeps the samplers' loops short
            if nsegs(w.paths[op[1]]) > 6 * MAXSEGS: return False
            w.apply(op)
        return True
    except Exception:
        return False


def correspond(ctx):
    rng = ctx.rng
    maxlen = 40 if ctx.tier == 'thorough' else 12
    cases, meta, dist = [], [], {}
    hs = []
    for _ in range(ctx.n(200, 1500)):
        h = gen_history(rng, maxlen)
        e, n, trace = history_case(h)
        cases.append(f'Nat.eqb {e} {n}%nat')
        hs.append(h)
        meta.append({'init': [(len(j['segments']), j['closed']) for j in h['init']], 'ops': [o[0] for o in h['ops']], 'errors': [t['error'] for t in trace if t['error']]})
        for o in h['ops']: dist[o[0]] = dist.get(o[0], 0) + 1
        for t in trace:
            if t['error']: dist['raises-' + t['error']] = dist.get('raises-' + t['error'], 0) + 1
    dist['histories'] = len(cases)
    res = vlib.run_case_files('C07', 'hist', IMPORTS, PRE, cases, per_file=max(1, min(12, len(cases) // 16 + 1)), timeout=1500)
    res['distribution'] = dist
    res['samples'] = meta[:2]
    res['kinds'] = {'hand_models': 1, 'steps_compared': sum(len(h['ops']) + 1 for h in hs)}
    if res['failing']:
        out = []
        for i in res['failing'][:2]:
            sh_, b = shrink(hs[i])
            out.append({'history': sh_, 'first_bad_step': b})
        res['first_disagreement'] = out
    # Segment.clone / Segment.round as regenerated from the source (equal to the heap model's seg_clone / seg_rounded by Proofs/Bridge.v)
    kernels.merge_cross_check(res, 'C07', ['Line_clone', 'Quad_clone', 'Cubic_clone', 'Line_round', 'Quad_round', 'Cubic_round'], ctx.n(20, 300), rng)
    return res


# ============================================================================= search: the property as written, on the real objects
def value(p):
    """the observable value of a path without disturbing it: [(class name, ((x, y), ...))], computed from a copy when
    the path is in node-list representation"""
    rep = p.activeRepresentation
    if isinstance(rep, SegmentRepresentation): segs = rep.segments
    else:
        tmp = BezierPath(); tmp.closed = p.closed
        segs = SegmentRepresentation.fromNodelist(tmp, list(rep.nodes)).segments
    return [(type(s).__name__, tuple((q.x, q.y) for q in s.points)) for s in segs]


def seg_ids(p):
    rep = p.activeRepresentation
    return [id(s) for s in rep.segments] if isinstance(rep, SegmentRepresentation) else []


def points_of(w):
    out = {}
    for p in w.paths:
        rep = p.activeRepresentation
        if isinstance(rep, SegmentRepresentation):
            for s in rep.segments:
                for q in s.points: out[id(q)] = (q, q.x, q.y)
        else:
            for n in rep.nodes: out[id(n.point)] = (n.point, n.point.x, n.point.y)
    return out


def pclose(a, b):
    """the library's own Point.__eq__"""
    return P(*a) == P(*b)


def joints(val):
    """'exact' / 'close' / 'broken' connectivity of a value"""
    st = 'exact'
    for (k1, p1), (k2, p2) in zip(val, val[1:]):
        if p1[-1] == p2[0]: continue
        if pclose(p1[-1], p2[0]): st = 'close' if st == 'exact' else st
        else: return 'broken'
    return st


def ends_of(val): return (val[0][1][0], val[-1][1][-1]) if val else None


def ref_image(op, pt):
    """independently computed image of an end point under the operation"""
    k = op[0]
    x, y = pt
    if k == 'translate': return (x + op[2], y + op[3]), 0.0
    if k == 'scale': return (x * op[2], y * op[2]), 0.0
    if k == 'round': return (float(int(x)), float(int(y))), 0.0
    if k == 'rotate':
        cx, cy, a = op[2], op[3], op[4]
        c, s = math.cos(a), math.sin(a)
        dx, dy = x - cx, y - cy
        return (cx + c * dx - s * dy, cy + s * dx + c * dy), 1e-9 * max(1.0, abs(x), abs(y), abs(cx), abs(cy))
    return (x, y), 0.0


def near(a, b, tol): return abs(a[0] - b[0]) <= tol and abs(a[1] - b[1]) <= tol


def check_history(h, stop_at_first=True):
    """execute the history on the real implementation, checking the property after every step; returns (failures, stats)"""
    w = World(copy.deepcopy(h['init']))
    fails = []
    npaths0 = len(w.paths)
    state = {i: {'appended': False, 'closed_ok': None} for i in range(npaths0)}
    clones = []            # (original index, clone index)
    grp = list(range(npaths0))   # union-find: paths that may legitimately share Segment objects (append, flatten, fromSegments); a clone is a fresh group
    def find(i):
        while grp[i] != i: i = grp[i]
        return i
    INPLACE = ('round', 'balance', 'remove', 'q2c', 'append')     # the operations that edit Segment/list objects in place on the unchanged library
    for i, p in enumerate(w.paths):
        v = value(p)
        state[i]['closed_ok'] = bool(v) and p.closed and v[0][1][0] == v[-1][1][-1]
        if h['init'][i].get('via') == 'nodelist':
            # conversion between representations at construction: the path must be the contour it was given (as a cyclic sequence of segments)
            want = [(s['kind'], tuple(tuple(q) for q in s['points'])) for s in h['init'][i]['segments']]
            got = [(k_, tuple(tuple(q) for q in pts_)) for k_, pts_ in v]
            rots = [want[r:] + want[:r] for r in range(len(want))]
            if got not in rots:
                fails.append({'class': 'C07-conversion', 'what': f'a closed contour of {len(want)} segments handed over as a node list (start not repeated, rotation {h["init"][i].get("rot", 0)}) became {len(got)} segments: {got[-1:]}', 'step': -1, 'op': ['fromNodelist', i]})
    if fails and stop_at_first: return fails, {'steps': 0, 'errors': 0}
    stats = {'steps': 0, 'errors': 0}
    for step, op in enumerate(h['ops']):
        k, r = op[0], op[1]
        q = op[2] if k == 'append' else None
        before = [value(p) for p in w.paths]
        closed_before = [p.closed for p in w.paths]
        conn_before = [joints(v) for v in before]
        ids_before = [seg_ids(p) for p in w.paths]
        pts = points_of(w)
        err, _ = w.apply(op)
        stats['steps'] += 1
        if err:
            stats['errors'] += 1
        after = [value(p) for p in w.paths]
        def fail(cls, what, **kw):
            fails.append({'class': cls, 'what': what, 'step': step, 'op': op, **kw})
        # Points are never mutated in place
        for pid, (obj, x, y) in pts.items():
            if (obj.x, obj.y) != (x, y) and not (obj.x != obj.x and x != x):
                fail('C07-point-mutated', f'a pre-existing Point object changed from {(x, y)} to {(obj.x, obj.y)} during {k}'); break
        # sharing explains a failure only where the recorded findings say it does: an in-place editor acting on a path that
        # legitimately shares objects (same group), or on a path holding the same object twice
        shared_with_receiver = [bool(set(ids_before[r]) & set(ids_before[j])) and j != r and find(j) == find(r) and k in INPLACE for j in range(len(before))]
        dup_receiver = len(set(ids_before[r])) != len(ids_before[r]) and k in INPLACE
        for j in range(len(before)):
            # closedness unchanged
            if w.paths[j].closed != closed_before[j]:
                fail('C07-closedness', f'closed flag of path {j} changed during {k} on path {r}')
            if err: continue
            v0, v1 = before[j], after[j]
            c0, c1 = conn_before[j], joints(v1)
            if c0 == 'broken': continue                      # already reported
            cause = None
            if j != r and shared_with_receiver[j]: cause = 'C07-aliasing'
            elif j == r and dup_receiver: cause = 'C07-duplicate-objects'
            elif c0 == 'close': cause = 'C07-append-isclose-gap'
            if c1 == 'broken':
                fail(cause or 'C07-connectivity', f'path {j} is no longer a connected chain after {k} on path {r}: a segment does not start where its predecessor ends',
                     value=v1[:6])
            elif c1 == 'close' and c0 == 'exact' and k != 'append':
                fail(cause or 'C07-connectivity-exact', f'path {j}: exactly connected before {k}, only isclose-connected after')
            if j == r or j == q: continue
            # clone independence / bystanders
            for a, b in clones:
                if (j == a and r == b and q != a) or (j == b and r == a and q != b):
                    if v1 != v0:
                        fail('C07-aliasing' if shared_with_receiver[j] else 'C07-clone-independence',
                             f'{k} on path {r} changed path {j}, its clone/original')
        if not err:
            v0, v1 = before[r], after[r]
            # the receiver's end points
            if v0 and v1:
                (s0, e0), (s1, e1) = ends_of(v0), ends_of(v1)
                if k == 'reverse': exp = [(e0, s0)]
                elif k == 'append':
                    vq = before[q]
                    exp = [(s0, ends_of(vq)[1]), (s0, ends_of(vq)[0])] if vq else [(s0, e0)]
                else:
                    (is_, ts), (ie, te) = ref_image(op, s0), ref_image(op, e0)
                    exp = [(is_, ie)]
                tol = max(ref_image(op, s0)[1], ref_image(op, e0)[1]) if k == 'rotate' else 0.0
                ok = any(near(s1, a, tol) and near(e1, b, tol) for a, b in exp)
                if not ok:
                    cause = None
                    if dup_receiver: cause = 'C07-duplicate-objects'
                    elif k in ('asNodelist', 'asSegments', 'fromNodelist') or state[r]['appended'] and w.paths[r].closed: cause = 'C07-append-closed-receiver' if state[r]['appended'] else None
                    fail(cause or 'C07-endpoints', f'end points of path {r} after {k}: {(s1, e1)}, expected one of {exp}')
            # a closed path still ends where it starts (judged on the value just before this operation)
            for j in range(len(before)):
                u0, u1 = before[j], after[j]
                if not (w.paths[j].closed and u0 and u1): continue
                (a0, b0), (a1, b1) = ends_of(u0), ends_of(u1)
                if (a0 == b0 or pclose(a0, b0)) and not (a1 == b1 or pclose(a1, b1)):
                    if j == r and k == 'append': cls = 'C07-append-closed-receiver'
                    elif j == r and dup_receiver: cls = 'C07-duplicate-objects'
                    elif j != r and shared_with_receiver[j]: cls = 'C07-aliasing'
                    elif state[j]['appended']: cls = 'C07-append-closed-receiver'      # closed receiver of an earlier append: its ends were at best isclose
                    else: cls = 'C07-closed-ends'
                    fail(cls, f'closed path {j} ended where it started before {k} on path {r} and does not afterwards: start {a1}, end {b1}')
            # operations returning a new object leave receiver (and arguments) unchanged
            if k in ('clone', 'flatten', 'fromSegments', 'fromNodelist'):
                if v1 != v0:   # a representation switch snaps an isclose-only joint shut: same root cause as the gap itself
                    fail('C07-append-isclose-gap' if (conn_before[r] == 'close' and k == 'fromNodelist') else 'C07-new-object-mutated', f'{k} changed its receiver {r}')
            if k == 'append':
                grp[find(q)] = find(r)
                state[r]['appended'] = True
                if after[q] != before[q] and q != r: fail('C07-new-object-mutated', f'append changed its argument {q}')
        # new paths
        while len(state) < len(w.paths):
            n = len(state)
            v = value(w.paths[n])
            state[n] = {'appended': state[r]['appended'], 'closed_ok': bool(v) and w.paths[n].closed and (v[0][1][0] == v[-1][1][-1])}
            grp.append(find(r) if k in ('flatten', 'fromSegments') else n)
            if k == 'clone': clones.append((r, n))
            if not err and k in ('clone', 'flatten', 'fromNodelist'):
                if w.paths[n].closed != closed_before[r]: fail('C07-closedness', f'{k} of path {r} returned a path with a different closed flag')
                c = joints(v)
                if c == 'broken' or (c == 'close' and conn_before[r] == 'exact'):
                    fail('C07-connectivity', f'the path returned by {k} of path {r} is not a connected chain')
                if v and before[r] and k != 'fromNodelist' and ends_of(v) != ends_of(before[r]):
                    fail('C07-endpoints', f'the path returned by {k} has end points {ends_of(v)}, its receiver had {ends_of(before[r])}')
                if k == 'clone' and v != before[r]: fail('C07-clone-independence', 'clone differs from its original')
        if fails and stop_at_first: break
    return fails, stats


def shrink_failure(h, cls):
    """greedy: cut after the failing step, then drop earlier operations / initial segments while the same class still fails"""
    def bad(hh):
        if not valid_history(hh): return None
        f, _ = check_history(hh)
        return f[0] if f and f[0]['class'] == cls else None
    f = bad(h)
    if not f: return h
    cur = {'init': h['init'], 'ops': h['ops'][:f['step'] + 1]}
    i = len(cur['ops']) - 2
    while i >= 0:
        cand = {'init': cur['init'], 'ops': cur['ops'][:i] + cur['ops'][i + 1:]}
        if bad(cand): cur = cand
        i -= 1
    return cur


def segment_level(rng, n):
    """Segment.translated / rotated / scaled / reversed / clone return new objects and leave self unchanged"""
    fails, ev = [], 0
    for _ in range(n):
        s, fam = gen.segment(rng)
        before = repr(s), [id(q) for q in s.points], [(q.x, q.y) for q in s.points]
        v = P(rng.uniform(-50, 50), rng.uniform(-50, 50)); vb = (v.x, v.y)
        outs = [s.translated(v), s.rotated(v, rng.uniform(-7, 7)), s.scaled(rng.uniform(-3, 3)), s.reversed(), s.clone()]
        for o in outs:
            o.round()                                    # mutating the result must not reach the source
            ev += 1
        after = repr(s), [id(q) for q in s.points], [(q.x, q.y) for q in s.points]
        if before != after or (v.x, v.y) != vb or any(o is s for o in outs):
            fails.append({'class': 'C07-new-object-mutated', 'what': 'a segment-level "returns a new Segment" operation changed its receiver or argument',
                          'input': {'kind': 'segment', 'segment': gen.seg_json(s)}, 'observed': after[0], 'expected': before[0]})
    return fails, ev


FAMILIES = ['random', 'random', 'random', 'near-touch', 'flatten-round', 'append-mutate', 'self-append', 'closed-append', 'clone-chain', 'open-return', 'double-append', 'requery', 'nodelist-start', 'start-mid-edge']


def family_history(rng, fam, maxlen):
    if fam == 'random':
        h = gen_history(rng, maxlen, allow_empty=False)      # the property quantifies over paths OF segments: no empty path
        # fromSegments (a constructor that shares its caller's list) is part of the model, not of the property's operations
        h['ops'] = [o for o in h['ops'] if o[0] != 'fromSegments']
        return h
    ints = rng.random() < 0.3
    a = rand_init_path(rng, ints=ints, closed=False, style='mixed')
    if fam == 'near-touch':
        e = a['segments'][-1]['points'][-1]
        if rng.random() < 0.6: e[0] = float(rng.choice([-1, 1]) * rng.randint(1, 60))      # an end on an integer abscissa
        b = rand_init_path(rng, ints=False, closed=True, nseg=rng.randint(2, 4), style='mixed')
        s = [e[0] * (1 - 1e-10) if e[0] else 1e-300, e[1]]
        b['segments'][0]['points'][0] = list(s); b['segments'][-1]['points'][-1] = list(s)
        ops = [['append', 0, 1]] + [rand_simple(rng, 0) for _ in range(rng.randint(0, 2))] + [['round', 0]]
        return {'init': [a, b], 'ops': ops}
    if fam == 'flatten-round':
        ops = [['flatten', 0, rng.choice([8, 50, 500])]] + [rng.choice([['round', 1], ['remove', 1, 0.2, 5.0], ['scale', 1, 2.0], ['round', 1]]) for _ in range(rng.randint(1, 2))]
        return {'init': [a], 'ops': ops}
    if fam == 'append-mutate':
        b = rand_init_path(rng, ints=ints, closed=False)
        ops = [['append', 0, 1]] + [rng.choice([['addExtremes', 1], ['split', 1, [[0, 0.5]]], ['reverse', 1], ['translate', 1, 3.5, 1.25]]) for _ in range(rng.randint(0, 1))] + \
              [rng.choice([['round', 0], ['remove', 0, 0.2, 5.0], ['balance', 0], ['q2c', 0]])]
        return {'init': [a, b], 'ops': ops}
    if fam == 'self-append':
        a = rand_init_path(rng, ints=ints, closed=rng.random() < 0.7, nseg=rng.randint(2, 4), style='lines' if rng.random() < 0.5 else 'mixed')
        ops = [['append', 0, 0]] + [rng.choice([['remove', 0, rng.choice([1 / 50000, 0.2]), rng.choice([0, 30.0])], ['round', 0], ['reverse', 0]]) for _ in range(rng.randint(1, 2))]
        return {'init': [a], 'ops': ops}
    if fam == 'closed-append':
        a = rand_init_path(rng, ints=ints, closed=True, nseg=rng.randint(2, 4))
        b = rand_init_path(rng, ints=ints, closed=False)
        ops = [['append', 0, 1]] + [rng.choice([['asNodelist', 0], ['asSegments', 0], ['reverse', 0]]) for _ in range(rng.randint(0, 2))]
        return {'init': [a, b], 'ops': ops}
    if fam == 'open-return':
        # an OPEN path that happens to come back to its own start (with a line or a curve), through representation switches
        a = rand_init_path(rng, ints=ints, closed=False, nseg=rng.randint(2, 5), style=rng.choice(['mixed', 'lines']))
        st = list(a['segments'][0]['points'][0])
        last = a['segments'][-1]
        if rng.random() < 0.5: a['segments'][-1] = {'kind': 'Line', 'points': [list(last['points'][0]), st]}
        else: last['points'][-1] = st
        ops = [rand_simple(rng, 0) for _ in range(rng.randint(0, 2))] + [['asNodelist', 0]] + [rand_simple(rng, 0) for _ in range(rng.randint(0, 2))] + \
              [rng.choice([['asSegments', 0], ['reverse', 0], ['round', 0], ['clone', 0]])]
        return {'init': [a], 'ops': ops}
    if fam == 'double-append':
        # the same argument appended twice (its Segment objects then occur twice in the receiver), then a rebuilding operation
        b = rand_init_path(rng, ints=ints, closed=False, nseg=rng.randint(1, 3))
        ops = [['append', 0, 1], ['append', 0, 1]] + [rng.choice([['reverse', 0], ['translate', 0, 3.0, -2.0], ['scale', 0, 2.0], ['rotate', 0, 1.0, 2.0, 0.5], ['addExtremes', 0],
                                                                  ['flatten', 0, 8], ['clone', 0], ['asNodelist', 0]]) for _ in range(rng.randint(1, 3))]
        return {'init': [a, b], 'ops': ops}
    if fam == 'start-mid-edge':
        # a CLOSED outline whose start point lies in the middle of a straight edge: the first and the last segment are lines heading the same way
        a = rand_init_path(rng, ints=ints, closed=True, nseg=rng.randint(3, 5), style=rng.choice(['mixed', 'lines']))
        segs = a['segments']
        p0 = segs[0]['points'][0]; p1 = segs[0]['points'][-1]
        back = [p0[0] - (p1[0] - p0[0]) * rng.choice([0.5, 1.0, 2.0]), p0[1] - (p1[1] - p0[1]) * rng.choice([0.5, 1.0, 2.0])]
        if ints: back = [float(round(back[0])), float(round(back[1]))]
        back = [p0[0] - (p1[0] - p0[0]), p0[1] - (p1[1] - p0[1])] if rng.random() < 0.5 else back
        segs[0] = {'kind': 'Line', 'points': [list(p0), list(p1)]}
        prev_end = segs[-1]['points'][0]
        segs[-1] = {'kind': 'Line', 'points': [list(prev_end), list(back)]}
        segs.append({'kind': 'Line', 'points': [list(back), list(p0)]})
        ops = [rand_simple(rng, 0) for _ in range(rng.randint(0, 2))] + [['remove', 0, rng.choice([1 / 50000, 0.2, 0.05]), rng.choice([0, 5.0, 30.0])]] + [rng.choice([['reverse', 0], ['round', 0], ['asNodelist', 0], ['clone', 0]]) for _ in range(rng.randint(0, 1))]
        return {'init': [a], 'ops': ops}
    if fam == 'nodelist-start':
        a = rand_init_path(rng, ints=ints, closed=True, nseg=rng.randint(2, 5), style='mixed')
        a['via'] = 'nodelist'; a['rot'] = rng.randint(0, 12)
        ops = [rand_simple(rng, 0) for _ in range(rng.randint(1, 3))]
        return {'init': [a], 'ops': ops}
    if fam == 'requery':
        # ask, edit in place, ask again (state cached on Segment/path objects must not survive the edit)
        d = rng.choice([8, 8, 20.0, 50])
        ask = lambda: rng.choice([['flatten', 0, d], ['flatten', 0, d], ['clone', 0], ['addExtremes', 0]])
        edit = lambda: rng.choice([['round', 0], ['round', 0], ['balance', 0], ['remove', 0, 0.2, 5.0], ['q2c', 0]])
        ops = [ask()] + [edit() for _ in range(rng.randint(1, 2))] + [ask()]
        if ops[0][0] == 'addExtremes': ops[-1] = ['flatten', 0, d]
        return {'init': [a], 'ops': ops}
    if fam == 'clone-chain':
        ops = [['clone', 0]]
        w = World(copy.deepcopy([a])); w.apply(ops[0])
        for _ in range(rng.randint(2, maxlen)):
            op = rand_op(rng, w)
            if op[0] == 'append' and {op[1], op[2]} == {0, 1}: op = ['round', op[1]]      # keep the pair unlinked: that is the clause under test
            if op[0] == 'fromSegments': op = ['reverse', op[1]]
            w.apply(op); ops.append(op)
            if not sane(w): break
        return {'init': [a], 'ops': ops}
    raise KeyError(fam)


def rand_simple(rng, p):
    return rng.choice([['translate', p, rng.uniform(-9, 9), rng.uniform(-9, 9)], ['reverse', p], ['asNodelist', p], ['asSegments', p], ['q2c', p], ['balance', p]])


def search(ctx):
    rng = ctx.rng
    maxlen = 40 if ctx.tier == 'thorough' else 12
    fails, dist, samples, seen, ev, steps = [], {}, [], set(), 0, 0
    reported = {}
    for _ in range(ctx.n(500, 8000)):
        fam = rng.choice(FAMILIES)
        h = family_history(rng, fam, maxlen)
        if not valid_history(h): continue
        f, st = check_history(h)
        ev += 1; steps += st['steps']
        dist[fam] = dist.get(fam, 0) + 1
        for o in h['ops']: dist['op:' + o[0]] = dist.get('op:' + o[0], 0) + 1
        if len(h['ops']) >= 2 and max(len(j['segments']) for j in h['init']) >= 2:
            seen.add(json.dumps(h, sort_keys=True))
        if len(samples) < 2: samples.append({'init': [(len(j['segments']), j['closed']) for j in h['init']], 'ops': [o[0] for o in h['ops']]})
        for x in f[:1]:
            cls = x['class']
            reported[cls] = reported.get(cls, 0) + 1
            if reported[cls] <= 2:
                hs = shrink_failure(h, cls)
                f2, _ = check_history(hs)
                x = next((y for y in f2 if y['class'] == cls), x)
                fails.append({'class': cls, 'what': x['what'], 'input': {'kind': 'history', 'history': hs}, 'observed': {k: v for k, v in x.items() if k not in ('class', 'what')},
                              'expected': 'connected chains, closedness and end points preserved, independent clones'})
            else:
                fails.append({'class': cls, 'what': x['what'], 'input': {'kind': 'history', 'history': h}, 'observed': {'step': x['step'], 'op': x['op']}, 'expected': 'see first failures of this class'})
    sf, sev = segment_level(rng, ctx.n(200, 5000))
    fails += sf; ev += sev; dist['segment-level'] = sev
    return {'evaluations': ev, 'distinct_nontrivial': len(seen), 'failures': fails, 'distribution': dist, 'samples': samples,
            'measured': {'steps_checked': steps, 'failures_by_class': reported}}


def replay(ctx, payload):
    i = payload['input']
    if i.get('kind') == 'segment':
        s = gen.seg_from_json(i['segment']); before = repr(s)
        for o in (s.translated(P(1, 2)), s.rotated(P(1, 2), 0.5), s.scaled(2.0), s.reversed(), s.clone()): o.round()
        return {'fails': repr(s) != before, 'observed': repr(s)}
    f, st = check_history(i['history'])
    want = payload.get('class')
    f = [x for x in f if want is None or x['class'] == want]
    return {'fails': bool(f), 'observed': f[:2]}


def check_known(ctx, finding):
    return replay(ctx, {'input': finding['input'], 'class': finding['class']})['fails']
