"""C15: parameter lookup inverts evaluation."""
import math
import vlib, gen, ref, kernels
from beziers.point import Point
from beziers.line import Line
from beziers.quadraticbezier import QuadraticBezier
from beziers.cubicbezier import CubicBezier

RULE = ('lines >= 1 unit long (random, axis-parallel, steep with dx in [1e-7,1e-1], long with large coordinates) x t in [0,1]; quadratics incl. '
        'linear-in-x / linear-in-y ones x t at least 1e-3 from stationary parameters; cubics without self-overlap (monotone-ish fans) x t; '
        'off-carrier points for the negative case; non-trivial = distinct (segment, t)')
NOT_PROVED = ['cubic lookup (coarse search; within 2% of the length): regenerated (Gen/Lookup.v) and proved for gently parametrised cubics at least 103 long (Proofs/C15cubic.v); otherwise search only',
              'floating-point tolerance for LINES: PROVED (Proofs/C15float.v, Flocq): for finite coordinates |c| <= M, 1 <= M <= 2^25, larger extent >= 1/2 and finite t in [0,1] the binary64 lookup of the binary64 point at t passes its own 2e-7 re-check, is the correctly rounded quotient in a coordinate of (almost) maximal extent, differs from t by at most 14*2^-53*M/extent, and its point is within 30*2^-53*M <= 1e-9*M of the query; it is never the sentinel -1 and lies in [-2^-23, 1+2^-23] -- membership in [0,1] itself is FALSE in floats (two witnesses, the recorded finding); for quadratics (1e-6) the float tolerance is measured']
ASSUMPTIONS = ['Python float = IEEE binary64', 'Coq.Floats.FloatAxioms / Uint63 specification axioms (stdlib) for the float-instance theorems']
HAND_FINGERPRINTS = [('cubicbezier.py', 'CubicBezier.tOfPoint')]
P = Point


def correspond(ctx):
    res = kernels.cross_check('C15', ['Line_tOfPoint', 'Quad_tOfPoint', 'utils_quadraticRoots', 'Line_pointAtTime', 'Quad_pointAtTime', 'Point_distanceFrom'],
                              ctx.n(120, 2000), ctx.rng)
    # the cubic lookup as regenerated from cubicbezier.py (round 7, Gen/Lookup.v: the scan over regularSampleTValue(50) and the bisection as a fuelled loop,
    # float("inf") as an option), on cubics 5 .. 600 units long, queries on and off the curve; the theorems of Proofs/C15cubic.v are about this text
    kernels.merge_cross_check(res, 'C15', ['Cubic_tOfPoint'], ctx.n(40, 400), ctx.rng, label='regenerated-kernels-round7')
    return res


def gen_line(rng):
    fam = rng.choice(['random', 'vertical', 'horizontal', 'steep', 'flat', 'far', 'int'])
    a = P(rng.uniform(-500, 500), rng.uniform(-500, 500))
    if fam == 'random': b = P(rng.uniform(-500, 500), rng.uniform(-500, 500))
    elif fam == 'int': a = P(rng.randint(-500, 500), rng.randint(-500, 500)); b = P(rng.randint(-500, 500), rng.randint(-500, 500))
    elif fam == 'vertical': b = P(a.x, a.y + rng.uniform(1, 600) * rng.choice([-1, 1]))
    elif fam == 'horizontal': b = P(a.x + rng.uniform(1, 600) * rng.choice([-1, 1]), a.y)
    elif fam == 'steep': b = P(a.x + 10 ** rng.uniform(-7, -1) * rng.choice([-1, 1]), a.y + rng.uniform(1, 600) * rng.choice([-1, 1]))
    elif fam == 'flat': b = P(a.x + rng.uniform(1, 600) * rng.choice([-1, 1]), a.y + 10 ** rng.uniform(-7, -1) * rng.choice([-1, 1]))
    else:
        a = P(rng.uniform(-5e8, 5e8), rng.uniform(-5e8, 5e8)); b = a + P(rng.uniform(-1000, 1000), rng.uniform(1, 1000))
    return fam, Line(a, b)


def check_line(l, t, off):
    fails = []
    if l.length < 1: return None
    mag = max(1.0, max(abs(v) for p in l.points for v in (p.x, p.y)))
    q = l.pointAtTime(t)
    tau = l.tOfPoint(q)
    if not (0 <= tau <= 1): fails.append(f'tOfPoint(pointAtTime({t!r})) = {tau!r} is not in [0,1]')
    else:
        p2 = l.pointAtTime(tau)
        d = math.hypot(p2.x - q.x, p2.y - q.y)
        if d > 1e-9 * mag: fails.append(f'point at the returned parameter is {d:.3g} from the query (tol {1e-9 * mag:.3g})')
    # negative case
    dx, dy = l[1].x - l[0].x, l[1].y - l[0].y
    L = math.hypot(dx, dy)
    nx, ny = -dy / L, dx / L
    dist = off * L
    p = P(q.x + nx * dist, q.y + ny * dist)
    real = abs((p.x - l[0].x) * dy - (p.y - l[0].y) * dx) / L
    if real > 1e-6 * L and real > 4e-7:
        r = l.tOfPoint(p)
        if r != -1: fails.append(f'point {real:.3g} away from the carrier (1e-6*length = {1e-6 * L:.3g}) got parameter {r!r}, expected -1')
    return fails


def gen_quad(rng):
    fam = rng.choice(['random', 'linear-x', 'linear-y', 'int', 'flat', 'linear-decimal', 'flat-start', 'end-hook'])
    if fam == 'end-hook':
        # the curve turns round in x within the first (or last) percent of its parameter: x(t) has its extreme at ts in (0.0015, 0.009)
        a = rng.uniform(50, 400); ts = rng.uniform(0.0015, 0.009); x0 = rng.uniform(-100, 100); y0 = rng.uniform(-100, 100)
        # x(t) = x0 + a ((t - ts)^2 - ts^2)  ->  control abscissae x0, x0 - a ts, x0 + a (1 - 2 ts)
        q = QuadraticBezier(P(x0, y0), P(x0 - a * ts, y0 + rng.uniform(20, 200)), P(x0 + a * (1 - 2 * ts), y0 + rng.uniform(-100, 300)))
        if rng.random() < 0.5: q = QuadraticBezier(*[P(p.y, p.x) for p in q.points])
        if rng.random() < 0.5: q = QuadraticBezier(q[2], q[1], q[0])
        return fam, q
    if fam == 'flat-start':
        # the control point has EXACTLY the abscissa (or ordinate) of the start (or end) point: the linear coefficient of that coordinate's quadratic is 0.0
        a = P(float(rng.randint(-200, 200)), float(rng.randint(-200, 200))) if rng.random() < 0.6 else P(rng.uniform(-200, 200), rng.uniform(-200, 200))
        q = QuadraticBezier(a, P(a.x, a.y + rng.choice([-1, 1]) * rng.uniform(20, 300)), P(a.x + rng.choice([-1, 1]) * rng.uniform(20, 300), a.y + rng.uniform(-300, 300)))
        if rng.random() < 0.5: q = QuadraticBezier(*[P(p.y, p.x) for p in q.points])
        if rng.random() < 0.5: q = QuadraticBezier(q[2], q[1], q[0])
        return fam, q
    if fam == 'linear-decimal':
        # control point midway in one coordinate, with decimal (non-dyadic) coordinates: p0 - 2 p1 + p2 is rounding noise, not 0.0
        d = lambda: rng.randint(-3000, 3000) / rng.choice([10.0, 100.0, 1000.0])
        x0 = d(); st = rng.randint(1, 900) / rng.choice([10.0, 100.0]); ys = [d(), d(), d()]
        xs = [x0, x0 + st, x0 + 2 * st]
        q = QuadraticBezier(*[P(x, y) for x, y in zip(xs, ys)])
        if rng.random() < 0.5: q = QuadraticBezier(*[P(p.y, p.x) for p in q.points])
        return fam, q
    r = lambda: P(rng.uniform(-300, 300), rng.uniform(-300, 300))
    if fam == 'random': return fam, QuadraticBezier(r(), r(), r())
    if fam == 'int': return fam, gen.segment(rng, order=3, fam='int')[0]
    a, b = r(), r()
    if fam == 'linear-x': return fam, QuadraticBezier(a, P((a.x + b.x) / 2, rng.uniform(-300, 300)), b)
    if fam == 'linear-y': return fam, QuadraticBezier(a, P(rng.uniform(-300, 300), (a.y + b.y) / 2), b)
    m = a.lerp(b, 0.5)
    return fam, QuadraticBezier(a, m + P(rng.uniform(-3, 3), rng.uniform(-3, 3)), b)


def line_class(l, t, fails):
    """known class: the query point is within 1e-9 (in t) of an END of the line and the only failure is a returned
    parameter that leaves [0,1] by at most 1e-9 (rounding of the point before the end, inverted faithfully)"""
    if len(fails) == 1 and 'is not in [0,1]' in fails[0] and (t <= 1e-9 or t >= 1 - 1e-9):
        tau = l.tOfPoint(l.pointAtTime(t))
        if -1e-9 <= tau < 0 or 1 < tau <= 1 + 1e-9: return 'C15-line-end-rounding'
    return 'C15-line'


def check_quad(q, t):
    cps = [(p.x, p.y) for p in q.points]
    for k in (0, 1):
        a = cps[0][k] - 2 * cps[1][k] + cps[2][k]; b = 2 * (cps[1][k] - cps[0][k])
        if a != 0:
            ts = -b / (2 * a)
            if abs(ts - t) < 1e-3: return None
            if 1e-9 * abs(b) < abs(a) <= 1e-6 * abs(b): return None      # genuinely present but tiny leading coefficient: outside the clean statement (noise-level |a| <= 1e-9|b| is solved as linear and IS checked)
        elif b == 0: return None
    mag = max(1.0, max(abs(v) for p in cps for v in p))
    pt = q.pointAtTime(t)
    tau = q.tOfPoint(pt)
    if not (0 <= tau <= 1): return [f'tOfPoint(pointAtTime({t!r})) = {tau!r} is not in [0,1]']
    p2 = q.pointAtTime(tau)
    d = math.hypot(p2.x - pt.x, p2.y - pt.y)
    if d > 1e-6 * mag: return [f'point at the returned parameter {tau!r} is {d:.3g} from the query (tol {1e-6 * mag:.3g})']
    return []


def gen_straight_cubic(rng):
    a = P(rng.uniform(-300, 300), rng.uniform(-300, 300)); b = P(rng.uniform(-300, 300), rng.uniform(-300, 300))
    u, v = sorted([rng.choice([0.0, 0.05, rng.uniform(0, 0.5)]), rng.choice([1.0, 0.5, rng.uniform(0.5, 1)])])
    return CubicBezier(a, a.lerp(b, u), a.lerp(b, v), b)


def gen_cubic(rng):
    if rng.random() < 0.3: return gen_straight_cubic(rng)
    # fan-like cubics without self-overlap: x strictly increasing control points
    xs = sorted(rng.uniform(-300, 300) for _ in range(4))
    if xs[3] - xs[0] < 10: xs[3] += 50
    return CubicBezier(*[P(x, rng.uniform(-200, 200)) for x in xs])


SHORT_CUBIC = 15.0      # below this length the coarse search of CubicBezier.tOfPoint is coarser than the clause allows (recorded finding C15-cubic-short-lookup)


def true_length(c, n=400):
    pts = [(p.x, p.y) for p in c.points]
    qs = [ref.bern(pts, i / n) for i in range(n + 1)]
    return sum(math.hypot(b[0] - a[0], b[1] - a[1]) for a, b in zip(qs, qs[1:]))


def cubic_class(c):
    """known class, from the input alone: a cubic shorter than SHORT_CUBIC units (its true length; the look-up table of regularSampleTValue has only
    floor(length)+1 entries, one per 1/length of the parameter, and the bisection can move at most 0.02 away from the best of them)"""
    return 'C15-cubic-short-lookup' if true_length(c) < SHORT_CUBIC else 'C15-cubic'


def check_cubic(c, t):
    L = c.length
    if not (L > 0): return None
    pt = c.pointAtTime(t)
    try:
        tau = c.tOfPoint(pt)
    except Exception as e:
        return [f'tOfPoint raised {type(e).__name__}: {e}']
    if not (0 <= tau <= 1): return [f'tOfPoint = {tau!r} not in [0,1]']
    p2 = c.pointAtTime(tau)
    d = math.hypot(p2.x - pt.x, p2.y - pt.y)
    if d > 0.02 * L: return [f'point at the returned parameter {tau!r} is {d:.4g} from the query, more than 2% of the length {L:.4g}']
    return []


def search(ctx):
    rng = ctx.rng
    fails, seen, dist, samples, ev = [], set(), {}, [], 0
    for _ in range(ctx.n(800, 20000)):
        fam, l = gen_line(rng); t = gen.tvalue(rng); off = 10 ** rng.uniform(-6, -1) * rng.choice([-1, 1])
        f = check_line(l, t, off)
        if f is None: continue
        ev += 1; dist['line/' + fam] = dist.get('line/' + fam, 0) + 1; seen.add((gen.seg_key(l), t))
        if len(samples) < 1: samples.append({'segment': gen.seg_json(l), 't': t})
        if f: fails.append({'class': line_class(l, t, f), 'what': f[0], 'input': {'kind': 'line', 'segment': gen.seg_json(l), 't': t, 'off': off}, 'observed': f, 'expected': 'C15 line clauses'})
    for _ in range(ctx.n(500, 12000)):
        fam, q = gen_quad(rng); t = gen.tvalue(rng)
        if fam == 'end-hook' and rng.random() < 0.8:
            t = rng.choice([rng.uniform(0.0, 0.02), rng.uniform(0.98, 1.0)])          # in the sliver next to the end where the curve turns round (either end: the curve may be reversed)
        f = check_quad(q, t)
        if f is None: dist['quad/skipped-stationary'] = dist.get('quad/skipped-stationary', 0) + 1; continue
        ev += 1; dist['quad/' + fam] = dist.get('quad/' + fam, 0) + 1; seen.add((gen.seg_key(q), t))
        if len(samples) < 2: samples.append({'segment': gen.seg_json(q), 't': t})
        if f: fails.append({'class': 'C15-quad-endpoint' if (t > 1 - 1e-9 or t < 1e-9) else 'C15-quad', 'what': f[0], 'input': {'kind': 'quad', 'segment': gen.seg_json(q), 't': t}, 'observed': f, 'expected': 'C15 quadratic clause'})
    for _ in range(ctx.n(40, 800)):
        c = gen_cubic(rng); t = gen.tvalue(rng)
        f = check_cubic(c, t)
        if f is None: continue
        ev += 1; dist['cubic'] = dist.get('cubic', 0) + 1; seen.add((gen.seg_key(c), t))
        if f: fails.append({'class': cubic_class(c), 'what': f[0], 'input': {'kind': 'cubic', 'segment': gen.seg_json(c), 't': t}, 'observed': f, 'expected': 'within 2% of the length'})
    # short cubics (1 .. 40 units): the recorded finding below 15 units, the clause itself above
    for _ in range(ctx.n(60, 1200)):
        c0 = gen_cubic(rng); L0 = c0.length
        if not (L0 > 0): continue
        k = 10 ** rng.uniform(0, 1.6) / L0; o = c0[0]
        c = CubicBezier(*[P(o.x + (q.x - o.x) * k, o.y + (q.y - o.y) * k) for q in c0.points]); t = gen.tvalue(rng)
        f = check_cubic(c, t)
        if f is None: continue
        ev += 1; dist['cubic/short'] = dist.get('cubic/short', 0) + 1
        if f: fails.append({'class': cubic_class(c), 'what': f[0], 'input': {'kind': 'cubic', 'segment': gen.seg_json(c), 't': t}, 'observed': f, 'expected': 'within 2% of the length'})
    # handles bunched at one end: the curve is traversed very unevenly in t (the last tenth of the parameter covers most of the length); queries in the fast part
    for _ in range(ctx.n(25, 400)):
        a = P(rng.uniform(-100, 100), rng.uniform(-100, 100)); far = P(rng.uniform(400, 1200) * rng.choice([-1, 1]), rng.uniform(200, 800) * rng.choice([-1, 1]))
        c = CubicBezier(a, a + P(rng.uniform(2, 8), rng.uniform(1, 5)), a + P(rng.uniform(9, 16), rng.uniform(3, 8)), a + far)
        t = rng.choice([rng.uniform(0.85, 0.999), (rng.randint(42, 49) + rng.uniform(0.35, 0.65)) / 50.0])       # also: midway between multiples of 1/50
        if rng.random() < 0.5: c = CubicBezier(c[3], c[2], c[1], c[0]); t = 1 - t
        f = check_cubic(c, t)
        if f is None: continue
        ev += 1; dist['cubic/bunched-handles'] = dist.get('cubic/bunched-handles', 0) + 1; seen.add((gen.seg_key(c), t))
        if f: fails.append({'class': 'C15-cubic', 'what': f[0], 'input': {'kind': 'cubic', 'segment': gen.seg_json(c), 't': t}, 'observed': f, 'expected': 'within 2% of the length'})
    # stale state: look up, edit the segment in place, look up again (a cached lookup table must not survive the edit)
    for _ in range(ctx.n(40, 800)):
        s0 = gen_cubic(rng) if rng.random() < 0.6 else gen_quad(rng)[1]
        tq = rng.choice([0.3, 0.5, 0.72])
        ff = gen.freshness(rng, s0, {'tOfPoint(pointAtTime(t))': lambda x: x.tOfPoint(x.pointAtTime(tq)), 'tOfPoint(end)': lambda x: x.tOfPoint(x[len(x.points) - 1])})
        ev += 1; dist['stale-state'] = dist.get('stale-state', 0) + 1
        if ff: fails.append({'class': 'C15-stale-state', 'what': ff[0], 'input': {'kind': 'stale', 'segment': gen.seg_json(s0), 't': tq}, 'observed': ff[:3], 'expected': 'the answer of a freshly constructed segment with the same control points'})
    return {'evaluations': ev, 'distinct_nontrivial': len(seen), 'failures': fails, 'distribution': dist, 'samples': samples}


def replay(ctx, payload):
    i = payload['input']
    s = gen.seg_from_json(i['segment'])
    f = check_line(s, i['t'], i['off']) if i['kind'] == 'line' else check_quad(s, i['t']) if i['kind'] == 'quad' else check_cubic(s, i['t'])
    return {'fails': bool(f), 'observed': f}


def check_known(ctx, finding):
    return replay(ctx, {'input': finding['input']})['fails']
