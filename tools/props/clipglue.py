"""Shared by C12 and C13: recording harness around BooleanOperationsMixin.clip (no repo edits: everything is
monkey-patched from outside for the duration of one call), Coq rendering of the recorded run for the hand model
coq/Hand/Clip.v, shape/configuration generators, and independent reference computations (even-odd region, areas)."""
import math, json
import vlib, gen, ref
import pyclipper as _pyclipper
from beziers.point import Point
from beziers.line import Line
from beziers.quadraticbezier import QuadraticBezier
from beziers.cubicbezier import CubicBezier
from beziers.path import BezierPath
import beziers.utils.booleanoperationsmixin as bom
from beziers.path.geometricshapes import Rectangle, Ellipse, Circle

P = Point
OPS = {'union': _pyclipper.CT_UNION, 'intersection': _pyclipper.CT_INTERSECTION, 'difference': _pyclipper.CT_DIFFERENCE}
CT_COQ = {_pyclipper.CT_INTERSECTION: 'CT_INTERSECTION', _pyclipper.CT_UNION: 'CT_UNION', _pyclipper.CT_DIFFERENCE: 'CT_DIFFERENCE',
          _pyclipper.CT_XOR: 'CT_XOR'}
HAND_FINGERPRINTS = [('utils/booleanoperationsmixin.py', 'BooleanOperationsMixin.clip'), ('utils/booleanoperationsmixin.py', 'BooleanOperationsMixin.union'),
                     ('utils/booleanoperationsmixin.py', 'BooleanOperationsMixin.intersection'), ('utils/booleanoperationsmixin.py', 'BooleanOperationsMixin.difference'),
                     ('path/__init__.py', 'BezierPath.splitAtPoints'), ('path/__init__.py', 'BezierPath.clone'), ('path/__init__.py', 'BezierPath.fromSegments'),
                     ('line.py', 'Line.flatten'), ('cubicbezier.py', 'CubicBezier.flatten'), ('quadraticbezier.py', 'QuadraticBezier.flatten'),
                     ('segment.py', 'Segment.__eq__'), ('segment.py', 'Segment.__ne__'), ('segment.py', 'Segment.reversed'), ('segment.py', 'Segment.clone'),
                     ('point.py', 'Point.__hash__'), ('point.py', 'Point.rounded')]

# AST fingerprints of the transcribed Python functions at the time the hand model was written (clip: after d254ad7);
# a change escalates the run to the larger budgets (DESIGN 2.3)
GOLDEN_FINGERPRINTS = {
 "utils/booleanoperationsmixin.py:BooleanOperationsMixin.clip": "fac4dfb9eb9d5c9a",
 "utils/booleanoperationsmixin.py:BooleanOperationsMixin.union": "7b78c55a9200734a",
 "utils/booleanoperationsmixin.py:BooleanOperationsMixin.intersection": "bd27f9f5762d68fb",
 "utils/booleanoperationsmixin.py:BooleanOperationsMixin.difference": "df5c6940cde87237",
 "path/__init__.py:BezierPath.splitAtPoints": "38d18ff1ee6ed9d2",
 "path/__init__.py:BezierPath.clone": "4ad8a017443a7ce1",
 "path/__init__.py:BezierPath.fromSegments": "4da10ed54b8536e2",
 "line.py:Line.flatten": "ba5e5ec5b6e19034",
 "cubicbezier.py:CubicBezier.flatten": "13cb24c0ab541d5f",
 "quadraticbezier.py:QuadraticBezier.flatten": "b1ff31723bac3bf8",
 "segment.py:Segment.__eq__": "d819c7b26d05b684",
 "segment.py:Segment.__ne__": "103a2b7f162962a7",
 "segment.py:Segment.reversed": "91aa52a414560518",
 "segment.py:Segment.clone": "00b6b892a7c376f4",
 "point.py:Point.__hash__": "e1e21b872447fdf0",
 "point.py:Point.rounded": "c2aab68e9ee68420"
}


# ----------------------------------------------------------------------------------------------- recording
class _Rec:
    def __init__(self):
        self.addpath, self.execute, self.split, self.flatten = [], [], [], []


class _PyclipperProxy:
    """stands in for the module name `pyclipper` inside booleanoperationsmixin"""

    def __init__(self, rec):
        self._rec = rec
        rec_ = rec

        class Pyclipper:
            def __init__(self):
                self._pc = _pyclipper.Pyclipper()

            def AddPath(self, path, poly_type, closed=True):
                rec_.addpath.append({'path': [tuple(p) for p in path], 'poly_type': poly_type, 'closed': closed})
                return self._pc.AddPath(path, poly_type, closed)

            def Execute(self, clip_type, subj_fill=_pyclipper.PFT_EVENODD, clip_fill=_pyclipper.PFT_EVENODD):
                e = {'clip_type': clip_type, 'subj_fill': subj_fill, 'clip_fill': clip_fill, 'result': None}
                rec_.execute.append(e)
                r = self._pc.Execute(clip_type, subj_fill, clip_fill)
                e['result'] = [[(int(v[0]), int(v[1])) for v in poly] for poly in r]
                return r
        self.Pyclipper = Pyclipper

    def __getattr__(self, name):
        return getattr(_pyclipper, name)


def seg_pts(s): return [(p.x, p.y) for p in s.points]
def path_pts(path): return [seg_pts(s) for s in path.asSegments()]
def deep_repr(path): return (path.closed, repr([(type(s).__name__, [(p.x.hex(), p.y.hex()) for p in s.points], getattr(s, '_orig', 'n/a') is None) for s in path.asSegments()]))


def record_clip(a, b, op, flat):
    """runs a.<op>(b, flat=flat) on the real implementation with recorders installed.
    Returns dict: result (list of BezierPath) or exception name; the pyclipper traffic; the splitAtPoints calls
    (segments before, splitlist, segments after); every Segment.flatten(2) call made by clip (segment, edges)."""
    rec = _Rec()
    saved = (bom.pyclipper, BezierPath.splitAtPoints, Line.flatten, QuadraticBezier.flatten, CubicBezier.flatten)
    real_split = BezierPath.splitAtPoints

    def split_wrap(self, splitlist):
        before = [s for s in self.asSegments()]
        e = {'before': [(type(s).__name__, seg_pts(s)) for s in before], 'splitlist': [(seg_pts(s), t) for s, t in splitlist], 'after': None, 'raised': None}
        rec.split.append(e)
        try:
            r = real_split(self, splitlist)
        except Exception as ex:
            e['raised'] = type(ex).__name__
            raise
        e['after'] = [(type(s).__name__, seg_pts(s)) for s in self.asSegments()]
        return r

    def mk_flat(real):
        def flat_wrap(self, degree=8):
            r = real(self, degree)
            rec.flatten.append({'seg': self, 'degree': degree, 'edges': list(r), 'orig_is_self': [e._orig is self for e in r], 'is_self': [e is self for e in r]})
            return r
        return flat_wrap
    try:
        bom.pyclipper = _PyclipperProxy(rec)
        BezierPath.splitAtPoints = split_wrap
        Line.flatten = mk_flat(saved[2]); QuadraticBezier.flatten = mk_flat(saved[3]); CubicBezier.flatten = mk_flat(saved[4])
        try:
            res = a.clip(b, OPS[op], flat) if False else getattr(a, op)(b, flat=flat)
            exc = None
        except Exception as ex:
            res, exc = None, type(ex).__name__
    finally:
        bom.pyclipper, BezierPath.splitAtPoints, Line.flatten, QuadraticBezier.flatten, CubicBezier.flatten = saved
    return {'result': res, 'raised': exc, 'rec': rec}


# ----------------------------------------------------------------------------------------------- Coq rendering
PREAMBLE = '''Definition segment_feq (a b : segment float) : bool :=
  match a, b with SLine x, SLine y => seg2_feq x y | SQuad x, SQuad y => seg3_feq x y | SCubic x, SCubic y => seg4_feq x y | _, _ => false end.
Definition segs_feq := list_eqb segment_feq.
Definition path_feq (a b : list (segment float) * bool) : bool := segs_feq (fst a) (fst b) && Bool.eqb (snd a) (snd b).
Definition zpoly_eqb := list_eqb zpt_eqb.
Definition exc_eqb (a b : exc) : bool :=
  match a, b with EIndex, EIndex | EClipper, EClipper | EConvert, EConvert | EZeroDiv, EZeroDiv | EOracle, EOracle => true | _, _ => false end.
'''
IMPORTS = ['Gen.Point', 'Gen.Line', 'Gen.Quad', 'Gen.Cubic', 'Hand.Clip']
EXC = {'IndexError': 'EIndex', 'ClipperException': 'EClipper', 'ValueError': 'EConvert', 'OverflowError': 'EConvert', 'ZeroDivisionError': 'EZeroDiv'}


def cptt(p): return f'(P {vlib.fhex(p[0])} {vlib.fhex(p[1])})'
def csegpts(pts):
    n = len(pts)
    return f'({ {2: "SLine", 3: "SQuad", 4: "SCubic"}[n]} ({ {2: "L2", 3: "Q3", 4: "C4"}[n]} ' + ' '.join(cptt(p) for p in pts) + '))'
def cline_pts(pts): return '(L2 ' + ' '.join(cptt(p) for p in pts) + ')'
def csegs(ptslist): return vlib.clist([csegpts(p) for p in ptslist])
def czpt(v): return f'(({v[0]})%Z, ({v[1]})%Z)'
def czpoly(p): return vlib.clist([czpt(v) for v in p])
def czpolys(ps): return vlib.clist([czpoly(p) for p in ps])


def recorded_roles(rec):
    """(subject polygon, clip polygon) as Clipper received them (int() of the recorded floats), by the poly_type they were
    added with; None unless exactly one closed PT_SUBJECT and one closed PT_CLIP path were added and Execute used even-odd twice"""
    subj = [a for a in rec.addpath if a['poly_type'] == _pyclipper.PT_SUBJECT]
    clp = [a for a in rec.addpath if a['poly_type'] == _pyclipper.PT_CLIP]
    if len(subj) != 1 or len(clp) != 1 or not subj[0]['closed'] or not clp[0]['closed']: return None
    if any(e['subj_fill'] != _pyclipper.PFT_EVENODD or e['clip_fill'] != _pyclipper.PFT_EVENODD for e in rec.execute): return None
    if len(rec.execute) > 1: return None
    return [(int(x), int(y)) for x, y in subj[0]['path']], [(int(x), int(y)) for x, y in clp[0]['path']]


def coq_case(a_pts, b_pts, op, flat, run):
    """closed Coq boolean: the float instance of Hand/Clip.v, fed the recorded oracles (split lists, flatten(2) of the curved
    pieces, Clipper's answer), reproduces the real run: final values of the four path variables, the two integer polygons
    handed to Clipper, and the result paths (kinds, control points bit for bit, order, closed flag) or the exception kind."""
    rec = run['rec']
    ct = CT_COQ[OPS[op]]
    sl = [vlib.clist([f'({csegpts(s)}, {vlib.fhex(t)})' for s, t in sp['splitlist']]) for sp in rec.split]
    while len(sl) < 2: sl.append('[]')
    ftbl = vlib.clist([f'({csegpts(seg_pts(f["seg"]))}, {vlib.clist([cline_pts(seg_pts(e)) for e in f["edges"]])})'
                       for f in rec.flatten if f['degree'] == 2 and len(f['seg'].points) > 2])
    ctbl = '[]'
    subj_z = clip_z = None
    if len(rec.addpath) == 2:
        roles = recorded_roles(rec)
        if roles is None: return 'false'          # not one closed SUBJECT + one closed CLIP path with even-odd filling: the model cannot agree
        subj_z, clip_z = roles
        res = rec.execute[0]['result'] if rec.execute and rec.execute[0]['result'] is not None else None
        if rec.execute and rec.execute[0]['clip_type'] != OPS[op]: return 'false'
        ctbl = f'[({ct}, [{czpoly(subj_z)}], [{czpoly(clip_z)}], {"Some " + czpolys(res) if res is not None else "None"})]'
    head = (f"(let ctbl := {ctbl} in let ftbl := {ftbl} in\n   let self_ := {csegs(a_pts)} in let other_ := {csegs(b_pts)} in let sl1 := {sl[0]} in let sl2 := {sl[1]} in\n"
            f"   let '(st, r) := clip_run FOps F_toZ (clipper_tbl ctbl) (flatten_tbl ftbl) self_ other_ sl1 sl2 {ct} {vlib.cbool(flat)} in\n"
            f"   let pr := snd (prepare FOps F_toZ (flatten_tbl ftbl) self_ other_ sl1 sl2) in\n   ")
    if run['raised'] is not None:
        return head + f"match r with Raise e => exc_eqb e {EXC.get(run['raised'], 'EOracle')} | Ok _ => false end)"
    checks = ["segs_feq (st_self st) self_", "segs_feq (st_other st) other_",
              f"segs_feq (st_cloned st) {csegs([p for _, p in rec.split[0]['after']])}",
              f"segs_feq (st_clipclone st) {csegs([p for _, p in rec.split[1]['after']])}",
              f"match pr with Ok (s, c, _) => zpoly_eqb s {czpoly(subj_z)} && zpoly_eqb c {czpoly(clip_z)} | Raise _ => false end",
              "match r with Ok paths => list_eqb path_feq paths " +
              vlib.clist([f'({csegs(path_pts(p))}, {vlib.cbool(p.closed)})' for p in run['result']]) + " | Raise _ => false end"]
    return head + ' &&\n   '.join(checks) + ')'


# ----------------------------------------------------------------------------------------------- generators
def path_json(p): return {'closed': p.closed, 'segments': [gen.seg_json(s) for s in p.asSegments()]}
def path_from_json(j):
    p = BezierPath.fromSegments([gen.seg_from_json(s) for s in j['segments']]); p.closed = j['closed']; return p


def star_contour(rng, c, rmin, rmax, kinds=(2, 3, 4)):
    """simple star-shaped contour of mixed segments around c, every point between rmin*0.9 and rmax*1.2 from c"""
    n = rng.randint(3, 7)
    angs = [2 * math.pi * i / n + rng.uniform(-0.3, 0.3) / n for i in range(n)]
    rad = [rng.uniform(rmin, rmax) for _ in range(n)]
    vs = [P(c.x + r * math.cos(a), c.y + r * math.sin(a)) for a, r in zip(angs, rad)]
    segs = []
    for i in range(n):
        a, b = vs[i], vs[(i + 1) % n]
        k = rng.choice(kinds)
        if k == 2: segs.append(Line(a, b))
        elif k == 3:
            m = a.lerp(b, 0.5); out = (m - c) * rng.uniform(-0.1, 0.25)
            segs.append(QuadraticBezier(a, m + out, b))
        else:
            m1, m2 = a.lerp(b, 1 / 3.0), a.lerp(b, 2 / 3.0)
            segs.append(CubicBezier(a, m1 + (m1 - c) * rng.uniform(-0.1, 0.2), m2 + (m2 - c) * rng.uniform(-0.1, 0.2), b))
    return BezierPath.fromSegments(segs)


def random_closed(rng, c, r, kinds=(2, 3, 4)):
    """random closed contour (usually self-intersecting) with control points within r of c"""
    if rng.random() < 0.35:
        # star polygon {n/2}: its core has winding number 2, so the even-odd interior excludes it (the non-zero rule would not)
        n = rng.choice([5, 7]); ph = rng.uniform(0, 2 * math.pi)
        vs = [P(c.x + r * math.cos(ph + 4 * math.pi * i / n), c.y + r * math.sin(ph + 4 * math.pi * i / n)) for i in range(n)]
        segs = []
        for i in range(n):
            a, b = vs[i], vs[(i + 1) % n]
            k = rng.choice(kinds)
            if k == 2: segs.append(Line(a, b))
            elif k == 3: segs.append(QuadraticBezier(a, a.lerp(b, 0.5) + (a.lerp(b, 0.5) - c) * rng.uniform(-0.15, 0.15), b))
            else: segs.append(CubicBezier(a, a.lerp(b, 1 / 3.0) + (a - c) * rng.uniform(-0.05, 0.05), a.lerp(b, 2 / 3.0) + (b - c) * rng.uniform(-0.05, 0.05), b))
        return BezierPath.fromSegments(segs)
    n = rng.randint(3, 6)
    def pt(): return P(c.x + rng.uniform(-r, r), c.y + rng.uniform(-r, r))
    ps = [pt() for _ in range(n)]
    segs = []
    for i in range(n):
        a, b = ps[i], ps[(i + 1) % n]
        k = rng.choice(kinds)
        segs.append(gen.KINDS[k](a, *[pt() for _ in range(k - 2)], b))
    return BezierPath.fromSegments(segs)


SHAPES = ['rect', 'ellipse', 'circle', 'star', 'selfx', 'rect', 'ellipse', 'star', 'selfx', 'balloon', 'spiral2', 'lens', 'dshape', 'teardrop', 'scurve']


def make_shape(rng, kind, c, size, integer=False):
    """a closed path of the given kind centred at c, contained in the disc of radius `size` about c (selfx: the square)"""
    if integer: c = P(round(c.x), round(c.y)); size = float(max(2, round(size)))
    if kind == 'rect':
        w, h = rng.uniform(0.4, 1.4) * size, rng.uniform(0.4, 1.4) * size
        if integer: w, h = float(max(2, round(w))), float(max(2, round(h)))
        return Rectangle(w, h, origin=c), max(w, h) / 2
    if kind == 'ellipse':
        rx, ry = rng.uniform(0.3, 1.0) * size, rng.uniform(0.3, 1.0) * size
        if integer: rx, ry = float(max(2, round(rx))), float(max(2, round(ry)))
        return Ellipse(rx, ry, origin=c), max(rx, ry)
    if kind == 'circle':
        return Circle(size, origin=c), size
    if kind == 'star':
        return star_contour(rng, c, 0.45 * size, 0.8 * size), size
    if kind == 'selfx':
        return random_closed(rng, c, 0.7 * size), size
    if kind == 'balloon':
        # a rectangle with a long lobe (one cubic) attached through a neck narrower than the 2-unit flattening step
        w, h = rng.uniform(0.5, 0.9) * size, rng.uniform(0.4, 0.8) * size
        eps = rng.uniform(0.3, 0.95)
        x0, x1, y0, y1 = c.x - w / 2, c.x + w / 2, c.y - h / 2, c.y + h / 2
        mx = c.x + rng.uniform(-0.3, 0.3) * w
        lobe = rng.uniform(0.5, 1.0) * size
        segs = [Line(P(x0, y0), P(x1, y0)), Line(P(x1, y0), P(x1, y1)), Line(P(x1, y1), P(mx + eps, y1)),
                CubicBezier(P(mx + eps, y1), P(mx + lobe, y1 + lobe), P(mx - lobe, y1 + lobe), P(mx - eps, y1)),
                Line(P(mx - eps, y1), P(x0, y1)), Line(P(x0, y1), P(x0, y0))]
        return BezierPath.fromSegments(segs), max(w, h) / 2 + lobe
    if kind == 'scurve':
        # a contour one of whose edges is a point-symmetric S-curve: its two handles lie on opposite sides of the chord at equal distance
        def Q(x, y): return P(c.x + x * size, c.y + y * size)
        a_, b_ = Q(0.6, 0.35), Q(-0.6, 0.35); h = rng.uniform(0.25, 0.6); u = rng.uniform(0.15, 0.35)
        segs = [CubicBezier(a_, Q(0.6 - 1.2 * u, 0.35 + h), Q(-0.6 + 1.2 * u, 0.35 - h), b_), Line(b_, Q(-0.6, -0.6)), Line(Q(-0.6, -0.6), Q(0.6, -0.6)), Line(Q(0.6, -0.6), a_)]
        if rng.random() < 0.5:
            ang = rng.uniform(0, 2 * math.pi); segs = [s_.rotated(c, ang) for s_ in segs]
            for i_ in range(len(segs)): segs[i_].points[0] = segs[i_ - 1].points[-1].clone()
        path = BezierPath.fromSegments(segs); path.closed = True
        return path, size
    if kind in ('lens', 'dshape', 'teardrop'):
        # contours of ONE or TWO segments (possible only with curves): a lens of two arcs, a D of one curve and one line, a one-cubic teardrop
        def Q(x, y): return P(c.x + x * size, c.y + y * size)
        if kind == 'lens':
            if rng.random() < 0.5: segs = [QuadraticBezier(Q(-0.9, 0), Q(0, -1.0), Q(0.9, 0)), QuadraticBezier(Q(0.9, 0), Q(0, 1.0), Q(-0.9, 0))]
            else: segs = [CubicBezier(Q(-0.9, 0), Q(-0.4, -0.7), Q(0.4, -0.7), Q(0.9, 0)), CubicBezier(Q(0.9, 0), Q(0.4, 0.7), Q(-0.4, 0.7), Q(-0.9, 0))]
        elif kind == 'dshape': segs = [CubicBezier(Q(-0.3, -0.7), Q(0.9, -0.7), Q(0.9, 0.7), Q(-0.3, 0.7)), Line(Q(-0.3, 0.7), Q(-0.3, -0.7))]
        else: segs = [CubicBezier(Q(0, -0.8), Q(1.2, 0.9), Q(-1.2, 0.9), Q(0, -0.8))]
        if rng.random() < 0.5: segs = [type(s_)(*reversed(s_.points)) for s_ in reversed(segs)]
        path = BezierPath.fromSegments(segs); path.closed = True
        return path, size
    if kind == 'spiral2':
        # a contour that winds TWICE round its centre: the core has winding number 2 (outside by the even-odd rule, inside by non-zero)
        n = 8; ph = rng.uniform(0, 2 * math.pi)
        vs = [P(c.x + size * (1.0 - 0.05 * i) * math.cos(ph + math.pi / 2 * i), c.y + size * (1.0 - 0.05 * i) * math.sin(ph + math.pi / 2 * i)) for i in range(n)]
        segs = []
        for i in range(n):
            a, b = vs[i], vs[(i + 1) % n]
            k = rng.choice([2, 2, 3, 4])
            m = a.lerp(b, 0.5)
            if k == 2: segs.append(Line(a, b))
            elif k == 3: segs.append(QuadraticBezier(a, m + (m - c) * rng.uniform(0.0, 0.1), b))
            else: segs.append(CubicBezier(a, a.lerp(b, 1 / 3.0) + (m - c) * rng.uniform(0.0, 0.1), a.lerp(b, 2 / 3.0) + (m - c) * rng.uniform(0.0, 0.1), b))
        return BezierPath.fromSegments(segs), size
    raise ValueError(kind)


def bbox_of(path):
    pts = [p for s in path.asSegments() for p in s.points]
    return min(p.x for p in pts), min(p.y for p in pts), max(p.x for p in pts), max(p.y for p in pts)


CONFIGS = ['disjoint', 'nested', 'touching', 'crossing']


def gen_pair(rng, kinds=None, config=None, big=None):
    """a pair of closed paths in one of the four configurations, everything within +-5000"""
    kinds = kinds or (rng.choice(SHAPES), rng.choice(SHAPES))
    config = config or rng.choice(CONFIGS)
    big = rng.random() < 0.15 if big is None else big
    integer = rng.random() < 0.3
    sa = rng.uniform(300, 1500) if big else rng.uniform(20, 300)
    ca = P(rng.uniform(-3000, 3000), rng.uniform(-3000, 3000)) if rng.random() < 0.7 else P(0, 0)
    A, ra = make_shape(rng, kinds[0], ca, sa, integer)
    if config == 'nested':
        # B well inside A: A's kinds all contain the disc of radius 0.2*sa about ca except selfx (then B is merely small and near)
        B, rb = make_shape(rng, kinds[1], ca, rng.uniform(0.05, 0.18) * sa, integer)
    elif config == 'disjoint':
        sb = rng.uniform(0.3, 1.5) * sa
        ang = rng.uniform(0, 2 * math.pi)
        d = (1.5 * sa + 1.5 * sb) * rng.uniform(1.05, 1.6)
        B, rb = make_shape(rng, kinds[1], P(ca.x + d * math.cos(ang), ca.y + d * math.sin(ang)), sb, integer)
    elif config == 'crossing':
        sb = rng.uniform(0.5, 1.3) * sa
        ang = rng.uniform(0, 2 * math.pi)
        d = rng.uniform(0.3, 0.9) * (ra + 0.7 * sb)
        B, rb = make_shape(rng, kinds[1], P(ca.x + d * math.cos(ang), ca.y + d * math.sin(ang)), sb, integer)
    else:  # touching: the bounding boxes share a side (rect/rect: an edge or part of it; circle/ellipse: tangent at an axis extreme)
        sb = rng.uniform(0.4, 1.2) * sa
        B0, rb = make_shape(rng, kinds[1], P(0, 0), sb, integer)
        ax0, ay0, ax1, ay1 = bbox_of(A); bx0, by0, bx1, by1 = bbox_of(B0)
        inner = rng.random() < 0.3          # touching from the inside: the bounding boxes share a side, B's box inside A's
        if inner:
            B0, rb = make_shape(rng, kinds[1], P(0, 0), rng.uniform(0.15, 0.4) * sa, integer)
            bx0, by0, bx1, by1 = bbox_of(B0)
        if inner and rng.random() < 0.5:
            dx = ax1 - bx1; dy = (ay0 + ay1) / 2 - (by0 + by1) / 2
        elif inner:
            dy = ay1 - by1; dx = (ax0 + ax1) / 2 - (bx0 + bx1) / 2
        elif rng.random() < 0.5:
            dx = ax1 - bx0
            dy = ((ay0 + ay1) / 2 - (by0 + by1) / 2) + (rng.choice([0.0, 0.0, rng.uniform(-0.3, 0.3) * sa]) if kinds[0] == 'rect' or kinds[1] == 'rect' else 0.0)
        else:
            dy = ay1 - by0
            dx = ((ax0 + ax1) / 2 - (bx0 + bx1) / 2) + (rng.choice([0.0, 0.0, rng.uniform(-0.3, 0.3) * sa]) if kinds[0] == 'rect' or kinds[1] == 'rect' else 0.0)
        B = B0.translate(P(dx, dy)) if hasattr(B0, 'translate') else B0
    meta = {'kinds': list(kinds), 'config': config, 'big': big, 'integer': integer}
    if config == 'nested' and rng.random() < 0.5:
        A, B = B, A; meta['kinds'] = [kinds[1], kinds[0]]; meta['swapped'] = True       # the small shape is the receiver
        if kinds[0] == 'spiral2' and kinds[1] in ('rect', 'circle', 'ellipse', 'star'): meta['expect_empty'] = True    # receiver inside the doubly wound core
    if rng.random() < 0.12:
        # an operand that is itself the product of an earlier flatten(): straight edges that remember the curve they came from
        which = rng.choice(['A', 'B']); meta['prepare'] = {which: ['flatten', rng.choice([20.0, 40.0, 60.0])]}
    return A, B, meta


def core_pair(rng=None):
    """a small rectangle inside the doubly wound core of a two-turn spiral: outside the spiral's even-odd interior, so the
    intersection is empty, the union is both outlines and the difference is the rectangle"""
    import random as _r
    rng = rng or _r.Random(7)
    c = P(float(rng.randint(-200, 200)), float(rng.randint(-200, 200)))
    B, _ = make_shape(rng, 'spiral2', c, float(rng.randint(80, 200)))
    A = Rectangle(30.0, 20.0, origin=c)
    return A, B, {'kinds': ['rect', 'spiral2'], 'config': 'in-core', 'expect_empty': True}


def prepared(A, B, m):
    """apply the history recorded in the case (m['prepare']) to freshly built operands"""
    pr = (m or {}).get('prepare') or {}
    out = []
    for name, p in (('A', A), ('B', B)):
        step = pr.get(name)
        if step and step[0] == 'flatten':
            q = p.flatten(step[1])
            if len(q.asSegments()) >= 3: p = q          # a lens flattened with a step longer than its arcs is a two-sided 'polygon': not a contour
        out.append(p)
    return out[0], out[1]


# ----------------------------------------------------------------------------------------------- references (independent of beziers)
def dense_poly(segs_pts, sag=0.005):
    """dense polyline of a closed chain of control polygons; n per curve chosen so that the chord deviation is below `sag`
    (deviation of a degree-n Bezier from the chord over a parameter step h is at most h^2/8 * max|B''|, and
    |B''| <= n(n-1) * max second difference of the control points)"""
    out = []
    for pts in segs_pts:
        if len(pts) == 2:
            out.append((float(pts[0][0]), float(pts[0][1]))); continue
        n = len(pts) - 1
        d2 = max(math.hypot(pts[i + 2][0] - 2 * pts[i + 1][0] + pts[i][0], pts[i + 2][1] - 2 * pts[i + 1][1] + pts[i][1]) for i in range(n - 1))
        k = max(4, min(2000, int(math.ceil(math.sqrt(n * (n - 1) * d2 / (8 * sag))))))
        for i in range(k): out.append(ref.bern(pts, i / k))
    return out


class Outline:
    """a closed polygon with chunked bounding boxes: fast 'within distance' and even-odd queries"""
    CH = 12

    def __init__(self, poly):
        self.poly = poly
        n = len(poly)
        self.edges = [(poly[i], poly[(i + 1) % n]) for i in range(n)]
        self.chunks = []
        for k in range(0, n, self.CH):
            es = self.edges[k:k + self.CH]
            xs = [p[0] for e in es for p in e]; ys = [p[1] for e in es for p in e]
            self.chunks.append((min(xs), min(ys), max(xs), max(ys), es))

    def within(self, p, thr):
        """is p within distance thr of the outline"""
        x, y = p
        for x0, y0, x1, y1, es in self.chunks:
            if x < x0 - thr or x > x1 + thr or y < y0 - thr or y > y1 + thr: continue
            for a, b in es:
                dx, dy = b[0] - a[0], b[1] - a[1]
                L2 = dx * dx + dy * dy
                u = 0.0 if L2 == 0 else max(0.0, min(1.0, ((x - a[0]) * dx + (y - a[1]) * dy) / L2))
                if math.hypot(x - a[0] - u * dx, y - a[1] - u * dy) <= thr: return True
        return False

    def dist(self, p):
        x, y = p
        best = float('inf')
        for x0, y0, x1, y1, es in self.chunks:
            ddx = max(x0 - x, 0.0, x - x1); ddy = max(y0 - y, 0.0, y - y1)
            if math.hypot(ddx, ddy) >= best: continue
            for a, b in es:
                dx, dy = b[0] - a[0], b[1] - a[1]
                L2 = dx * dx + dy * dy
                u = 0.0 if L2 == 0 else max(0.0, min(1.0, ((x - a[0]) * dx + (y - a[1]) * dy) / L2))
                d = math.hypot(x - a[0] - u * dx, y - a[1] - u * dy)
                if d < best: best = d
        return best

    def inside(self, p):
        """even-odd, half-open rule (as ref.even_odd)"""
        x, y = p
        c = False
        for x0, y0, x1, y1, es in self.chunks:
            if y < y0 or y > y1 or x > x1: continue
            for a, b in es:
                if (a[1] > y) != (b[1] > y):
                    xi = a[0] + (y - a[1]) * (b[0] - a[0]) / (b[1] - a[1])
                    if xi > x: c = not c
        return c

    def perimeter(self):
        return sum(math.hypot(b[0] - a[0], b[1] - a[1]) for a, b in self.edges)


def eo_area(polys):
    """exact area of the even-odd region of a set of closed polygons (slab decomposition at every vertex ordinate and
    every edge-edge crossing ordinate; inside a slab the edges do not cross, so the region is a union of trapezoids
    whose area is height * width at mid-height)"""
    edges = []
    for poly in polys:
        n = len(poly)
        for i in range(n):
            a, b = poly[i], poly[(i + 1) % n]
            if a[1] != b[1]: edges.append((a, b) if a[1] < b[1] else (b, a))
    ys = {p[1] for a, b in edges for p in (a, b)}
    # crossings
    byx = sorted(range(len(edges)), key=lambda i: min(edges[i][0][0], edges[i][1][0]))
    for ii, i in enumerate(byx):
        a, b = edges[i]
        xmax = max(a[0], b[0])
        for j in byx[ii + 1:]:
            c, d = edges[j]
            if min(c[0], d[0]) > xmax: break
            if c[1] >= b[1] or d[1] <= a[1]: continue
            r = (b[0] - a[0], b[1] - a[1]); s = (d[0] - c[0], d[1] - c[1])
            den = r[0] * s[1] - r[1] * s[0]
            if den == 0: continue
            t = ((c[0] - a[0]) * s[1] - (c[1] - a[1]) * s[0]) / den
            u = ((c[0] - a[0]) * r[1] - (c[1] - a[1]) * r[0]) / den
            if 0 < t < 1 and 0 < u < 1: ys.add(a[1] + t * r[1])
    ys = sorted(ys)
    edges.sort(key=lambda e: e[0][1])
    tot = 0.0
    active = []
    k = 0
    for y0, y1 in zip(ys, ys[1:]):
        h = y1 - y0
        if h <= 0: continue
        ym = (y0 + y1) / 2
        while k < len(edges) and edges[k][0][1] <= y0:
            active.append(edges[k]); k += 1
        active = [e for e in active if e[1][1] > y0]
        xs = sorted(a[0] + (ym - a[1]) * (b[0] - a[0]) / (b[1] - a[1]) for a, b in active if a[1] < ym < b[1])
        for i in range(0, len(xs) - 1, 2): tot += h * (xs[i + 1] - xs[i])
    return tot


def chord_deviation(seg_pts_, edges_pts, per_edge=6):
    """one-sided Hausdorff distance from the curve to the polyline s.flatten(2) returned (the polyline's vertices lie on
    the curve in parameter order, so a pointer walk over the edges suffices)"""
    if len(seg_pts_) == 2: return 0.0
    E = [(e[0], e[1]) for e in edges_pts]
    m = max(8, per_edge * len(E))
    j = 0
    worst = 0.0
    for i in range(m + 1):
        p = ref.bern(seg_pts_, i / m)
        best, bj = float('inf'), j
        for jj in range(max(0, j - 1), min(len(E), j + 4)):
            a, b = E[jj]
            dx, dy = b[0] - a[0], b[1] - a[1]
            L2 = dx * dx + dy * dy
            u = 0.0 if L2 == 0 else max(0.0, min(1.0, ((p[0] - a[0]) * dx + (p[1] - a[1]) * dy) / L2))
            d = math.hypot(p[0] - a[0] - u * dx, p[1] - a[1] - u * dy)
            if d < best: best, bj = d, jj
        j = bj
        if best > worst: worst = best
    return worst
