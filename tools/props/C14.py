"""C14: curve fitting honours its error bound, interpolates the end points, stays within its segment budget."""
import math, sys
import vlib, gen, kernels, ref
from beziers.point import Point
from beziers.cubicbezier import CubicBezier
from beziers.utils.curvefitter import CurveFit
from beziers.path import BezierPath

RULE = ('point sequences of length 2..60 from the families of the quantifier: samples of smooth curves (ellipse arcs, sine, spiral, cubic), the '
        'same with gaussian noise, random polylines with sharp corners (zigzags, random walks, uniformly random), collinear points (ordered and '
        'shuffled), integer grids (+-500 and +-4), sequences with consecutive repeats, non-consecutive repeats and last == first (polygonal and '
        'smooth closed strokes), the -1/-2 coordinate pairs whose CPython hashes collide (regression for c16e58b), coordinates of magnitude 1e6 '
        'and 1e-3; x error in {0.01, 1, 50, 1e4} or log-uniform in [0.01, 1e4] x cornerTolerance in {0.1, 1, 20, 100} or log-uniform in '
        '[0.1, 100] x budget in {n, n+1, n+5, 2n, n+200}; every 4th case through BezierPath.fromPoints; non-trivial = the fitter had to split '
        '(more than one cubic returned).  Correspondence additionally: budgets 1..3, all points coincident, and CurveFit._fitCurve called '
        'directly with tangents None / Point(0,0) / unit vectors on sequences that were not deduplicated, of length 0, 1, 2, ...')
NOT_PROVED = [
    'float rounding: the theorems about the numeric core are over the reals (those about the recursion skeleton hold for any carrier and any '
    'numeric core); that the binary64 run takes the same decisions as the real-number model is not proved -- the float instance of the same '
    'model text is compared bit for bit with CPython (result and the decision log of every _fitCurve call) by the correspondence',
    'termination of the corner re-entry: a corner reported at index 0 of a sub-sequence whose tangent1 is already Point(0,0) re-enters '
    '_fitCurve with identical arguments for ever (C14_reentry_diverges: RecursionError); C14_fuel_suffices / C14_fitCurve_terminates_R show this '
    'is the ONLY way not to terminate, but that the numeric core never reports such a corner is a hypothesis, not a theorem (search only)',
    'every control point is finite: no theorem (overflow / NaN are float phenomena); search only',
    '"within sqrt(error)" is proved as "within sqrt(error + 1e-9) at a parameter in [0,1]" (C14_accepted_within_tolerance_num, '
    'C14_fitCurve_sound_R): the 1e-9 in the radicand is the implementation\'s own slack; the search allows 1e-6 relative',
]
ASSUMPTIONS = ['Python float = IEEE binary64 round-to-nearest; int operands (3 * u, ret * -1, the literals 0 and 1, v = 0) behave as the equal float',
               'libm cos/sin/atan2 (centerTangent\'s rotate by pi/2) are oracle values recorded from the run',
               'recursion depth is not modelled: RecursionError is the model\'s OutOfFuel',
               'coordinates whose squared differences underflow to 0 or overflow (|dx| < 1e-162 or > 1e154) are outside the families: there '
               'chordLengthParameterize raises ZeroDivisionError resp. the control points are NaN']
HAND_FINGERPRINTS = [('utils/curvefitter.py', q) for q in
                     ['B0', 'B1', 'B2', 'B3', 'CurveFit.fitCurve', 'CurveFit._fitCurve', 'CurveFit.fitLine', 'CurveFit.estimateBi',
                      'CurveFit._leftTangent', 'CurveFit._rightTangent', 'CurveFit.centerTangent', 'CurveFit.leftTangent', 'CurveFit.rightTangent',
                      'CurveFit.generateBezier', 'CurveFit.estimateLengths', 'CurveFit.chordLengthParameterize', 'CurveFit.newtonRaphsonFind',
                      'CurveFit.reparameterize', 'CurveFit.computeHook', 'CurveFit.computeMaxError']] + [('path/__init__.py', 'BezierPath.fromPoints')]
# sha256 of ast.dump of the functions Hand/Fit.v transcribes, at the time the model was written (a change escalates the run)
GOLDEN_FINGERPRINTS = {
    'utils/curvefitter.py:B0': '2b5b76ae12708474', 'utils/curvefitter.py:B1': 'ef82eb683423dc41', 'utils/curvefitter.py:B2': '1d0485b196d65203',
    'utils/curvefitter.py:B3': '5d20e6fbf2fd98e3', 'utils/curvefitter.py:CurveFit.fitCurve': 'fdcb623e2b8fbc2b',
    'utils/curvefitter.py:CurveFit._fitCurve': 'b39525a19cf60a1a', 'utils/curvefitter.py:CurveFit.fitLine': 'c7d7cae290263254',
    'utils/curvefitter.py:CurveFit.estimateBi': '446f5e1cd8de5cea', 'utils/curvefitter.py:CurveFit._leftTangent': '08c5935b4b66ae4b',
    'utils/curvefitter.py:CurveFit._rightTangent': 'd7c7dffba8f0bd68', 'utils/curvefitter.py:CurveFit.centerTangent': '466c10de4f51f407',
    'utils/curvefitter.py:CurveFit.leftTangent': '5afab89d4edddf4f', 'utils/curvefitter.py:CurveFit.rightTangent': '9bc72261dfe79602',
    'utils/curvefitter.py:CurveFit.generateBezier': '3c95f3e3ef644d53', 'utils/curvefitter.py:CurveFit.estimateLengths': 'e0d1c926eedb3cdd',
    'utils/curvefitter.py:CurveFit.chordLengthParameterize': '022f06fe42c7612d', 'utils/curvefitter.py:CurveFit.newtonRaphsonFind': '86218756bb1af981',
    'utils/curvefitter.py:CurveFit.reparameterize': '628c86c9e82b3515', 'utils/curvefitter.py:CurveFit.computeHook': 'aacbd9725bc88850',
    'utils/curvefitter.py:CurveFit.computeMaxError': '90727da3df09b98b', 'path/__init__.py:BezierPath.fromPoints': 'ff86ad6a371bdd54'}
P = Point
SLACK = 1e-6      # relative slack on sqrt(error): the code accepts against sqrt(error + 1e-9) (<= sqrt(error) * (1 + 5e-8) for error >= 0.01)
                  # evaluated in binary64 at the Newton-refined parameter; 1e-6 covers that radicand term and the rounding of bez(u_i)


# ----------------------------------------------------------------------------- generators
def _smooth(rng, n):
    k = rng.randrange(4)
    if k == 0:
        a, b, ph, sp = rng.uniform(20, 400), rng.uniform(20, 400), rng.uniform(0, 6.3), rng.uniform(0.5, 6.2)
        return [(a * math.cos(ph + sp * i / n), b * math.sin(ph + sp * i / n)) for i in range(n)]
    if k == 1:
        w, a, f = rng.uniform(50, 800), rng.uniform(5, 200), rng.uniform(0.5, 4)
        return [(w * i / n, a * math.sin(f * 6.283 * i / n)) for i in range(n)]
    if k == 2:
        r0, r1, turns = rng.uniform(5, 50), rng.uniform(60, 400), rng.uniform(0.5, 3)
        return [((r0 + (r1 - r0) * i / n) * math.cos(turns * 6.283 * i / n), (r0 + (r1 - r0) * i / n) * math.sin(turns * 6.283 * i / n)) for i in range(n)]
    c = [(rng.uniform(-400, 400), rng.uniform(-400, 400)) for _ in range(4)]
    return [ref.bern(c, i / max(1, n - 1)) for i in range(n)]


def points_family(rng, fam=None, n=None):
    fams = ['smooth', 'noisy', 'polyline', 'zigzag', 'walk', 'collinear', 'collinear-shuffled', 'int', 'int-small', 'consecutive-repeats', 'long-jitter',
            'revisits', 'closed', 'closed-smooth', 'hash-pairs', 'near-equal', 'two', 'three', 'big', 'tiny']
    fam = fam or rng.choice(fams)
    n = n or rng.choice([2, 3, 3, 4, 5, 6, 8, 10, 13, 17, 24, 30, 40, 59, 60, rng.randint(2, 60)])
    if fam == 'two': n = 2
    if fam == 'three': n = 3
    if fam == 'smooth': pts = _smooth(rng, n)
    elif fam == 'noisy':
        s = 10 ** rng.uniform(-1, 1.5)
        pts = [(x + rng.gauss(0, s), y + rng.gauss(0, s)) for x, y in _smooth(rng, n)]
    elif fam == 'polyline' or fam in ('two', 'three'): pts = [(rng.uniform(-500, 500), rng.uniform(-500, 500)) for _ in range(n)]
    elif fam == 'long-jitter':
        # a stroke tens of thousands of units long with a few sub-unit jitter steps (a fitted piece far shorter than 1/50000 of the whole)
        n = min(n, 12); st = rng.uniform(5000, 20000)
        pts = [(i * st, (rng.uniform(2000, 6000) if i % 2 else 0.0)) for i in range(n)]
        for _j in range(rng.randint(1, 2)):
            i = rng.randrange(1, max(2, len(pts))); pts.insert(i, (pts[i - 1][0] + rng.uniform(0.1, 0.5), pts[i - 1][1] + rng.uniform(0.1, 0.5)))
    elif fam == 'zigzag':
        w, h = rng.uniform(1, 60), rng.uniform(1, 300)
        pts = [(i * w, (h if i % 2 else 0.0) + rng.uniform(-1, 1) * (rng.random() < 0.3)) for i in range(n)]
    elif fam == 'walk':
        x = y = 0.0; pts = []
        st = 10 ** rng.uniform(0, 2)
        for _ in range(n):
            pts.append((x, y)); a = rng.uniform(0, 6.283); x += st * math.cos(a); y += st * math.sin(a)
    elif fam in ('collinear', 'collinear-shuffled'):
        ax, ay, dx, dy = rng.uniform(-200, 200), rng.uniform(-200, 200), rng.uniform(-20, 20), rng.uniform(-20, 20)
        if rng.random() < 0.4: ax, ay, dx, dy = float(round(ax)), float(round(ay)), float(round(dx)) or 1.0, float(round(dy))
        ks = list(range(n))
        if fam == 'collinear-shuffled': rng.shuffle(ks)
        pts = [(ax + dx * k, ay + dy * k) for k in ks]
    elif fam == 'int': pts = [(float(rng.randint(-500, 500)), float(rng.randint(-500, 500))) for _ in range(n)]
    elif fam == 'int-small': pts = [(float(rng.randint(-4, 4)), float(rng.randint(-4, 4))) for _ in range(n)]
    elif fam == 'consecutive-repeats':
        base = points_family(rng, rng.choice(['smooth', 'polyline', 'int', 'walk']), max(2, n // 2))[1]
        pts = []
        for p in base:
            pts += [p] * rng.choice([1, 1, 2, 3])
        pts = pts[:60]
    elif fam == 'revisits':
        pts = points_family(rng, rng.choice(['smooth', 'polyline', 'int', 'walk', 'int-small']), n)[1]
        for _ in range(rng.randint(1, 4)):
            i, j = rng.randrange(len(pts)), rng.randrange(len(pts)); pts[j] = pts[i]
    elif fam == 'closed':
        pts = points_family(rng, rng.choice(['polyline', 'int', 'walk', 'noisy']), n)[1]
        if len(pts) > 2: pts[-1] = pts[0]
    elif fam == 'closed-smooth':
        a, b, ph = rng.uniform(20, 400), rng.uniform(20, 400), rng.uniform(0, 6.3)
        m = max(3, n)
        pts = [(a * math.cos(ph + 2 * math.pi * i / (m - 1)), b * math.sin(ph + 2 * math.pi * i / (m - 1))) for i in range(m - 1)]
        pts.append(pts[0])
    elif fam == 'near-equal':   # adjacent points that are distinct but equal under Point.__eq__ (1e-9 relative), in particular the last two
        pts = [(rng.uniform(50, 500), rng.uniform(50, 500)) for _ in range(max(2, n - 1))]
        j = rng.choice([len(pts) - 1, len(pts) - 1, rng.randrange(len(pts))])
        pts.insert(j + 1, (pts[j][0] * (1 + rng.choice([1e-10, -2e-10, 5e-11])), pts[j][1] * (1 + rng.choice([1e-10, 0.0]))))
    elif fam == 'hash-pairs':   # hash(-1.0) == hash(-2.0): adjacent points differing only by -1 <-> -2
        pts = [(float(rng.choice([-1, -2, -1, -2, 0, 3])), float(rng.choice([-1, -2, 5]))) for _ in range(n)]
    elif fam in ('big', 'tiny'): pts = gen.coords(rng, fam, n)      # +-1e6 and +-1e-3: the framework's float ranges
    else: raise ValueError(fam)
    pts = [(float(x), float(y)) for x, y in pts][:60]
    return fam, pts


def settings(rng, n):
    error = rng.choice([0.01, 1e4, 1.0, 50.0]) if rng.random() < 0.25 else 10 ** rng.uniform(-2, 4)
    ct = rng.choice([0.1, 100.0, 20.0, 1.0]) if rng.random() < 0.25 else 10 ** rng.uniform(-1, 2)
    B = n + rng.choice([0, 0, 0, 1, 5, n, 200])
    return error, ct, B


def distinct2(pts): return len(set(pts)) >= 2


# ----------------------------------------------------------------------------- tracing the real implementation
class Tracer:
    """records every _fitCurve call (arguments, result, exception, children) and every computeMaxError result, without touching /repo"""
    def __enter__(self):
        self.frames, self.stack = [], []
        self.o_fit = CurveFit.__dict__['_fitCurve']; self.o_cme = CurveFit.__dict__['computeMaxError']
        tr = self

        def fit(cls, points, t1, t2, error, ct, B):
            fr = {'n': len(points), 't1': None if t1 is None else (t1.x, t1.y), 't2': None if t2 is None else (t2.x, t2.y), 'B': B,
                  'cme': [], 'children': [], 'exc': None, 'ret': 'unset'}
            if tr.stack: tr.stack[-1]['children'].append(fr)
            tr.frames.append(fr); tr.stack.append(fr)
            try:
                r = tr.o_fit.__func__(cls, points, t1, t2, error, ct, B)
                fr['ret'] = None if r is None else len(r)
                return r
            except BaseException as e:
                fr['exc'] = type(e).__name__; raise
            finally:
                tr.stack.pop()

        def cme(cls, bez, points, params, tolerance, cornerTolerance):
            r = tr.o_cme.__func__(cls, bez, points, params, tolerance, cornerTolerance)
            if tr.stack: tr.stack[-1]['cme'].append((float(r[0]), int(r[1])))
            return r
        CurveFit._fitCurve = classmethod(fit); CurveFit.computeMaxError = classmethod(cme)
        return self

    def __exit__(self, *a):
        CurveFit._fitCurve = self.o_fit; CurveFit.computeMaxError = self.o_cme


def run_traced(pts, error, ct, B):
    proxy = kernels.proxy(); proxy.take()
    with Tracer() as tr:
        try:
            r = CurveFit.fitCurve([P(x, y) for x, y in pts], error, ct, B); exc = None
        except RecursionError:
            r, exc = None, 'RecursionError'
        except Exception as e:
            r, exc = None, type(e).__name__
    return r, exc, tr.frames, proxy.take()


def run_traced_inner(pts, t1, t2, error, ct, B):
    proxy = kernels.proxy(); proxy.take()
    with Tracer() as tr:
        try:
            r = CurveFit._fitCurve([P(x, y) for x, y in pts], None if t1 is None else P(*t1), None if t2 is None else P(*t2), error, ct, B); exc = None
        except RecursionError:
            r, exc = None, 'RecursionError'
        except Exception as e:
            r, exc = None, type(e).__name__
    return r, exc, tr.frames, proxy.take()


EXN = {'ZeroDivisionError': 'ZeroDivisionError', 'IndexError': 'IndexError', 'TypeError': 'TypeError', 'ValueError': 'ValueError', 'RecursionError': 'OutOfFuel'}


def copt(t): return 'None' if t is None else f'(Some (P {vlib.fhex(t[0])} {vlib.fhex(t[1])}))'


def decision(fr):
    """the decision of one traced frame, derived from what was observed (result, children, last computeMaxError value); returns (coq, kind)
    and raises AssertionError when the observations do not fit any branch of _fitCurve"""
    n, kids = fr['n'], fr['children']
    if n == 0: assert fr['ret'] is None and not kids; return 'DNone', 'none'
    if n == 2: assert fr['ret'] == 1 and not kids; return 'DLine', 'line'
    kid_raised = any(k['exc'] for k in kids)
    if fr['exc'] and not kid_raised and len(kids) < 2:
        assert not kids
        return f"(DRaise {EXN[fr['exc']]})", 'raise'
    if not fr['cme']:
        assert fr['ret'] == 0 and not kids; return 'DDegenerate', 'degenerate'
    r, sp = fr['cme'][-1]
    rs = f'{vlib.fhex(r)} ({sp})%Z'
    if not kids:
        if fr['ret'] == 1: assert abs(r) <= 1.0; return f'(DAccept {rs})', 'accept'
        assert fr['ret'] == 0
        corner = r < 0
        if corner:
            if sp == 0: assert fr['t1'] is None; sp += 1
            elif sp == n - 1: assert fr['t2'] is None; sp -= 1
        rs = f'{vlib.fhex(r)} ({sp})%Z'
        if fr['B'] > 1: assert corner and not (0 < sp < n - 1); return f'(DBadCorner {rs})', 'bad-corner'
        return f'(DNoBudget {rs})', 'no-budget'
    if len(kids) == 1 and kids[0]['n'] == n and r < 0 and ((sp == 0 and fr['t1'] is not None) or (sp == n - 1 and fr['t2'] is not None)):
        if sp == 0: assert kids[0]['t1'] == (0.0, 0.0) and kids[0]['B'] == fr['B']; return f'(DReenter1 {rs})', 'reenter'
        assert kids[0]['t2'] == (0.0, 0.0) and kids[0]['B'] == fr['B']; return f'(DReenter2 {rs})', 'reenter'
    corner = r < 0
    sp2 = kids[0]['n'] - 1                      # lPoints = points[: splitPoint + 1]
    if corner: assert kids[0]['t2'] == (0.0, 0.0)
    assert kids[0]['B'] == fr['B'] - 1
    if len(kids) == 2: assert kids[1]['n'] == n - sp2
    return f'(DSplit {vlib.cbool(corner)} {vlib.fhex(r)} ({sp2})%Z)', 'corner-split' if corner else 'split'


def ccubic(s): return '(C4 ' + ' '.join(vlib.cpt(p) for p in s.points) + ')'


def coq_case(pts, error, ct, B, r, exc, frames, table, inner=None):
    kinds = []
    if exc: res = f'(RRaise {EXN[exc]})'
    elif r is None: res = 'RNone'
    else: res = 'RList ' + vlib.clist([ccubic(s) for s in r])
    evs = []
    if exc != 'RecursionError':
        for fr in frames:
            d, k = decision(fr); kinds.append(k)
            evs.append(f"(Ev {fr['n']}%nat {copt(fr['t1'])} {copt(fr['t2'])} ({fr['B']})%Z {d})")
    else: kinds.append('recursion')
    fuel = 3 * len(pts) + 12
    data = vlib.clist([f'(P {vlib.fhex(x)} {vlib.fhex(y)})' for x, y in pts])
    if inner is None:
        call = f'fitCurve (FOpsT {vlib.clibm(table)}) {fuel}%nat {data} {vlib.fhex(error)} {vlib.fhex(ct)} ({B})%Z'
    else:
        call = f'fitCurve_inner (FOpsT {vlib.clibm(table)}) {fuel}%nat {data} {copt(inner[0])} {copt(inner[1])} {vlib.fhex(error)} {vlib.fhex(ct)} ({B})%Z'
    case = f'(res_feq ({call}) ({res}, {vlib.clist(evs)}))'
    return case, kinds


def correspond(ctx):
    rng = ctx.rng
    cases, meta, dist, kinds_all = [], [], {}, {}
    for i in range(ctx.n(260, 4000)):
        fam, pts = points_family(rng)
        error, ct, B = settings(rng, len(pts))
        if rng.random() < 0.08: B = rng.choice([1, 2, 3, len(pts) // 2 + 1])     # model and code must agree outside the quantifier too
        if rng.random() < 0.03: pts = [pts[0]] * rng.randint(1, 4)               # all points coincide
        r, exc, frames, table = run_traced(pts, error, ct, B)
        try:
            case, kinds = coq_case(pts, error, ct, B, r, exc, frames, table)
        except AssertionError as e:
            case, kinds = 'false', ['harness-assertion']
        cases.append(case); dist[fam] = dist.get(fam, 0) + 1
        for k in kinds: kinds_all[k] = kinds_all.get(k, 0) + 1
        meta.append({'family': fam, 'points': pts, 'error': error, 'cornerTolerance': ct, 'maxSegments': B,
                     'python': exc or (None if r is None else [[[p.x, p.y] for p in s.points] for s in r])})
    # _fitCurve called directly: arbitrary tangents, sequences that were NOT deduplicated (zero-length chords, all points coincident,
    # one point, no point), small budgets -- the exception branches of the model
    for i in range(ctx.n(90, 1500)):
        fam, pts = points_family(rng, rng.choice(['consecutive-repeats', 'revisits', 'int-small', 'polyline', 'zigzag', 'smooth', 'hash-pairs', 'three']))
        k = rng.random()
        if k < 0.12: pts = [pts[0]] * rng.randint(1, 5)
        elif k < 0.16: pts = []
        elif k < 0.3: pts = pts[:rng.randint(1, 4)]
        error, ct, B = settings(rng, len(pts))
        if rng.random() < 0.15: B = rng.choice([0, 1, 2, 3])
        def tan():
            a = rng.uniform(0, 6.283)
            return rng.choice([None, (0.0, 0.0), (math.cos(a), math.sin(a)), (1.0, 0.0)])
        t1, t2 = tan(), tan()
        r, exc, frames, table = run_traced_inner(pts, t1, t2, error, ct, B)
        try:
            case, kinds = coq_case(pts, error, ct, B, r, exc, frames, table, inner=(t1, t2))
        except AssertionError as e:
            case, kinds = 'false', ['harness-assertion']
        cases.append(case); dist['_fitCurve/' + fam] = dist.get('_fitCurve/' + fam, 0) + 1
        for k in kinds: kinds_all[k] = kinds_all.get(k, 0) + 1
        meta.append({'family': '_fitCurve/' + fam, 'points': pts, 'tangent1': t1, 'tangent2': t2, 'error': error, 'cornerTolerance': ct, 'maxSegments': B,
                     'python': exc or (None if r is None else [[[p.x, p.y] for p in s.points] for s in r])})
    rr = vlib.run_case_files('C14', 'fit', ['Gen.Point', 'Gen.Cubic', 'Hand.Fit'], '', cases, per_file=20)
    out = {'n': rr['n'], 'agree': rr['agree'], 'failing': rr['failing'], 'errors': rr['errors'],
           'distribution': dict(dist, **{'decision/' + k: v for k, v in kinds_all.items()}),
           'samples': [{k: (v if k != 'points' else v[:4]) for k, v in m.items() if k != 'python'} for m in meta[:2]], 'kinds': {'hand_models': 1}}
    if rr['failing']: out['first_disagreement'] = [meta[i] for i in rr['failing'][:2]]
    # the parts of the numeric core that are also REGENERATED from the source (Gen/Fit.v; equal to the hand model by Proofs/Bridge.v)
    kernels.merge_cross_check(out, 'C14', ['curvefitter_B0', 'curvefitter_B1', 'curvefitter_B2', 'curvefitter_B3', 'CurveFit_computeHook',
                                           'CurveFit_estimateBi', 'CurveFit_chordLengthParameterize'], ctx.n(25, 300), rng)
    # the WHOLE fitter as regenerated from utils/curvefitter.py and path/__init__.py (round 6: tangents, generateBezier, Newton re-parameterisation, computeMaxError
    # with the hook/corner logic, the recursion with its budget arithmetic and re-entry, fitCurve, fromPoints), proved to return what the hand model returns (Proofs/Bridge6.v)
    kernels.merge_cross_check(out, 'C14', ['CurveFit_leftTangent', 'CurveFit_rightTangent', 'CurveFit_centerTangent', 'CurveFit_estimateLengths', 'CurveFit_generateBezier',
                                           'CurveFit_newtonRaphsonFind', 'CurveFit_reparameterize', 'CurveFit_computeMaxError', 'CurveFit__fitCurve', 'CurveFit_fitCurve', 'Path_fromPoints'],
                              ctx.n(12, 120), rng, label='regenerated-kernels-round6')
    return out


# ----------------------------------------------------------------------------- the property on the real implementation
def dist_to_chain(p, polys, samples):
    """distance from p to the union of the cubics (control polygons `polys`), by dense sampling and golden-section refinement"""
    best = float('inf')
    order = []
    for k, c in enumerate(polys):
        x0, x1 = min(q[0] for q in c), max(q[0] for q in c); y0, y1 = min(q[1] for q in c), max(q[1] for q in c)
        dx = max(x0 - p[0], 0.0, p[0] - x1); dy = max(y0 - p[1], 0.0, p[1] - y1)
        order.append((math.hypot(dx, dy), k))
    order.sort()
    for lb, k in order:
        if lb > best: break
        sm = samples[k]; N = len(sm) - 1
        ds = [(q[0] - p[0]) ** 2 + (q[1] - p[1]) ** 2 for q in sm]
        cand = sorted(range(N + 1), key=lambda i: ds[i])[:3]
        for i in cand:
            a, b = max(0, i - 1) / N, min(N, i + 1) / N
            f = lambda t: (lambda q: (q[0] - p[0]) ** 2 + (q[1] - p[1]) ** 2)(ref.bern(polys[k], t))
            g = 0.6180339887498949
            c1, c2 = b - g * (b - a), a + g * (b - a); f1, f2 = f(c1), f(c2)
            for _ in range(40):
                if f1 < f2: b, c2, f2 = c2, c1, f1; c1 = b - g * (b - a); f1 = f(c1)
                else: a, c1, f1 = c1, c2, f2; c2 = a + g * (b - a); f2 = f(c2)
            best = min(best, math.sqrt(min(f1, f2, ds[i])))
    return best


def check_property(pts, error, ct, B, via):
    """the statement of C14 on the real implementation; returns list of (class, what, observed)"""
    fails = []
    try:
        if via == 'fromPoints':
            r = BezierPath.fromPoints([P(x, y) for x, y in pts], error=error, cornerTolerance=ct, maxSegments=B).asSegments()
        else:
            r = CurveFit.fitCurve([P(x, y) for x, y in pts], error, ct, B)
    except RecursionError:
        return [('C14-reentry-recursion', 'RecursionError: _fitCurve re-enters itself for ever', 'RecursionError')], None
    except Exception as e:
        return [(f'C14-exception-{type(e).__name__}', f'{type(e).__name__}: {e}', repr(e))], None
    if r is None: return [('C14-none', 'fitCurve returned None for a sequence with two distinct points', None)], None
    if not isinstance(r, list) or not all(isinstance(s, CubicBezier) for s in r):
        return [('C14-not-cubics', f'result is not a list of cubics: {r!r}'[:200], None)], r
    if len(r) == 0: return [('C14-empty-return', 'an empty list of segments was returned', [])], r
    if (r[0][0].x, r[0][0].y) != pts[0]: fails.append(('C14-start', f'chain starts at {r[0][0]}, first point is {pts[0]}', [r[0][0].x, r[0][0].y]))
    if (r[-1][3].x, r[-1][3].y) != pts[-1]: fails.append(('C14-end', f'chain ends at {r[-1][3]}, last point is {pts[-1]}', [r[-1][3].x, r[-1][3].y]))
    for i, (a, b) in enumerate(zip(r, r[1:])):
        if (a[3].x, a[3].y) != (b[0].x, b[0].y):
            fails.append(('C14-gap', f'segment {i} ends at {a[3]} but segment {i + 1} starts at {b[0]}', [[a[3].x, a[3].y], [b[0].x, b[0].y]])); break
    if len(r) > B: fails.append(('C14-over-budget', f'{len(r)} segments for a budget of {B}', len(r)))
    if not all(math.isfinite(c) for s in r for p in s.points for c in (p.x, p.y)):
        fails.append(('C14-nonfinite', 'a control point is not finite', None)); return fails, r
    polys = [[(p.x, p.y) for p in s.points] for s in r]
    samples = [[ref.bern(c, i / 48) for i in range(49)] for c in polys]
    tol = math.sqrt(error) * (1 + SLACK)
    worst = 0.0
    for p in pts:
        d = dist_to_chain(p, polys, samples)
        worst = max(worst, d / math.sqrt(error))
        if d > tol:
            fails.append(('C14-error-exceeded', f'input point {p} is {d} from the chain, sqrt(error) = {math.sqrt(error)}', d)); break
    check_property.worst = max(getattr(check_property, 'worst', 0.0), worst)
    return fails, r


def search(ctx):
    rng = ctx.rng
    fails, seen, dist, samples, ev = [], set(), {}, [], 0
    check_property.worst = 0.0
    nseg = {}
    for i in range(ctx.n(450, 20000)):
        fam, pts = points_family(rng)
        if not distinct2(pts): continue
        error, ct, B = settings(rng, len(pts))
        via = 'fromPoints' if i % 4 == 0 else 'fitCurve'
        f, r = check_property(pts, error, ct, B, via)
        ev += 1; dist[fam] = dist.get(fam, 0) + 1
        if B == len(pts): dist['budget==n'] = dist.get('budget==n', 0) + 1
        if r and len(r) > 1: seen.add((fam, len(pts), len(r), pts[0], pts[-1]))
        if r: nseg[min(len(r), 5)] = nseg.get(min(len(r), 5), 0) + 1
        if len(samples) < 2 and r and len(r) > 1: samples.append({'family': fam, 'n': len(pts), 'error': error, 'cornerTolerance': ct, 'maxSegments': B, 'segments': len(r)})
        for cls, what, obs in f:
            fails.append({'class': cls, 'what': what, 'input': {'family': fam, 'points': pts, 'error': error, 'cornerTolerance': ct, 'maxSegments': B, 'via': via},
                          'observed': obs, 'expected': 'connected chain of <= budget finite cubics from the first to the last point within sqrt(error) of every input point'})
    # fromPoints on long strokes with sub-unit jitter (post-processing of the fitted path must not drop fitted pieces)
    for i in range(ctx.n(60, 1000)):
        fam, pts = points_family(rng, 'long-jitter')
        if not distinct2(pts): continue
        error = rng.choice([0.01, 0.05, 1.0, 10 ** rng.uniform(-2, 1)]); ct = 10 ** rng.uniform(-1, 2); B = len(pts) + rng.choice([0, 5, 200])
        f, r = check_property(pts, error, ct, B, 'fromPoints')
        ev += 1; dist['long-jitter/fromPoints'] = dist.get('long-jitter/fromPoints', 0) + 1
        for cls, what, obs in f:
            fails.append({'class': cls, 'what': what, 'input': {'family': fam, 'points': pts, 'error': error, 'cornerTolerance': ct, 'maxSegments': B, 'via': 'fromPoints'},
                          'observed': obs, 'expected': 'connected chain of <= budget finite cubics from the first to the last point within sqrt(error) of every input point'})
    fails.sort(key=lambda f: len(f['input']['points']))
    # watch on the one hypothesis of C14_fitCurve_terminates_R (not part of the property as written, reported as a measurement only):
    # does _fitCurve, entered with tangent1 = Point(0,0) as a right-hand sub-call after a re-entry would be, ever recurse without end?
    stuck = tried = 0
    lim = sys.getrecursionlimit()
    try:
        sys.setrecursionlimit(400)
        for i in range(ctx.n(300, 8000)):
            fam, pts = points_family(rng)
            d = [p for k, p in enumerate(pts) if k == 0 or p != pts[k - 1]]
            if len(d) < 3: continue
            error, ct, B = settings(rng, len(d))
            a = rng.uniform(0, 6.283)
            t2 = rng.choice([None, P(0.0, 0.0), P(math.cos(a), math.sin(a))])
            tried += 1
            try: CurveFit._fitCurve([P(x, y) for x, y in d], P(0.0, 0.0), t2, error, ct, B + 200)
            except RecursionError: stuck += 1
            except Exception: pass
    finally:
        sys.setrecursionlimit(lim)
    return {'evaluations': ev, 'distinct_nontrivial': len(seen), 'failures': fails, 'distribution': dist, 'samples': samples,
            'measured': {'worst distance / sqrt(error)': check_property.worst, 'segments returned (5 = 5 or more)': nseg,
                         'direct _fitCurve calls with tangent1 = Point(0,0)': tried, 'of which recursed without end (stuck corner at index 0)': stuck}}


def replay(ctx, payload):
    i = payload['input']
    if i is None: return {'fails': True, 'observed': 'no concrete input recorded'}
    f, r = check_property([tuple(p) for p in i['points']], i['error'], i['cornerTolerance'], i['maxSegments'], i.get('via', 'fitCurve'))
    return {'fails': bool(f), 'observed': [list(x[:2]) for x in f], 'segments': None if r is None else len(r)}


def check_known(ctx, finding):
    return replay(ctx, {'input': finding['input']})['fails']
