"""C04: arc length is accurate, additive and invariant under rigid motion."""
import math
import vlib, gen, ref, kernels
from beziers.point import Point
from beziers.line import Line
from beziers.quadraticbezier import QuadraticBezier
from beziers.cubicbezier import CubicBezier
from beziers.path import BezierPath

RULE = ('line/quadratic/cubic segments from families random, cusped (control points placed so the hodograph passes through 0), looping, '
        'collinear self-retracing, well-parametrised; x split parameters x rotations/translations/scale factors; reference = adaptive '
        'Gauss-Kronrod split at the zeros of the hodograph; non-trivial = true length > 1e-6')
NOT_PROVED = ['length_accuracy: |length - true arc length| <= 2% (0.01% when well parametrised) -- a quadrature error bound for the non-smooth integrand |B\'|; measured only',
              'additivity under splitting of curve lengths within that tolerance (consequence of the above); measured only',
              'a line\'s length in floating point: PROVED (Proofs/C15float.v): |binary64 length - Euclidean length| <= (3 + 1/32)*2^-53*length + 2^-535 for finite coordinates up to 2^500']
ASSUMPTIONS = ['reference arc length by adaptive Gauss-Kronrod (tolerance 1e-11) is the truth']
HAND_FINGERPRINTS = [('path/__init__.py', 'BezierPath.length')]
P = Point


def pts(s): return [(p.x, p.y) for p in s.points]


def correspond(ctx):
    rng = ctx.rng
    names = ['Line_length', 'Quad_length', 'Cubic_length', 'Line_lengthAtTime', 'Quad_lengthAtTime', 'Cubic_lengthAtTime', 'Point_distanceFrom']
    res = kernels.cross_check('C04', names, ctx.n(40, 600), rng)
    # BezierPath.length: left fold from int 0 over the segment lengths
    cases, meta = [], []
    for _ in range(ctx.n(60, 800)):
        segs = [gen.segment(rng)[0] for _ in range(rng.randint(1, 6))]
        path = BezierPath.fromSegments(segs)
        terms = []
        for s in segs:
            terms.append(f'{ {2: "Line", 3: "Quad", 4: "Cubic"}[len(s.points)]}_length FOps {vlib.cseg(s)}')
        e = '0%float'
        for t in terms: e = f'(PrimFloat.add {e} ({t}))'
        cases.append(f'feq {e} {vlib.fhex(path.length)}')
        meta.append({'path': [gen.seg_json(s) for s in segs], 'length': path.length})
    r2 = vlib.run_case_files('C04', 'path', ['Gen.Point', 'Gen.Line', 'Gen.Quad', 'Gen.Cubic'], '', cases)
    out = {'n': res['n'] + r2['n'], 'agree': res['agree'] + r2['agree'], 'failing': res['failing'] + r2['failing'], 'errors': res['errors'] + r2['errors'],
           'distribution': dict(res['distribution'], path_length=r2['n']), 'samples': res['samples'] + meta[:1], 'kinds': {'kernels': len(names), 'hand_models': 1}}
    if r2['failing']: out['first_disagreement'] = [meta[i] for i in r2['failing'][:3]]
    elif res['failing']: out['first_disagreement'] = res.get('first_disagreement')
    return out


def gen_seg(rng):
    fam = rng.choice(['random', 'random', 'line', 'cusp', 'loop', 'retrace', 'smooth', 'quad', 'int', 'smallint', 'closedseg', 'uniform-moved', 'even-three'])
    if fam == 'even-three':
        # three consecutive control points collinear and EXACTLY equally spaced (the hodograph's middle control point equals one of its ends), or both handles
        # retracted onto the same end
        a = P(float(rng.randint(-100, 100)), float(rng.randint(-100, 100))); d = P(float(rng.randint(-40, 40)), float(rng.randint(-40, 40)))
        if d.x == 0 and d.y == 0: d = P(10.0, 5.0)
        far = P(float(rng.randint(-150, 150)), float(rng.randint(-150, 150)))
        k_ = rng.randrange(3)
        ps = [a, a + d, a + d * 2, far] if k_ == 0 else [far, a, a + d, a + d * 2] if k_ == 1 else [a, P(a.x, a.y), P(a.x, a.y), far]
        return fam, CubicBezier(*ps)
    r = lambda: P(rng.uniform(-300, 300), rng.uniform(-300, 300))
    if fam == 'line':
        if rng.random() < 0.4:
            # short oblique line far from the origin: comparisons relative to the coordinates must not decide its direction
            o = P(rng.choice([1e5, 1e6, 1e7, -3e7]), rng.choice([1e5, 1e7, -2e6])); e = 10.0 ** rng.randint(-4, 0)
            return 'line-far-short', Line(o, P(o.x + 3 * e * rng.choice([1, -1]), o.y + 4 * e * rng.choice([1, -1])))
        return fam, Line(r(), r())
    if fam == 'quad': return fam, QuadraticBezier(r(), r(), r())
    if fam == 'int': return fam, gen.segment(rng, order=rng.choice([3, 4]), fam='int')[0]
    if fam == 'smallint': return fam, gen.segment(rng, order=rng.choice([3, 4]), fam='smallint')[0]
    if fam == 'uniform-moved':
        a, b = r(), r()
        s = QuadraticBezier(a, a.lerp(b, 0.5), b) if rng.random() < 0.6 else CubicBezier(a, a.lerp(b, 1 / 3.0), a.lerp(b, 2 / 3.0), b)
        if rng.random() < 0.7: s = s.rotated(r(), rng.uniform(-3, 3))
        if rng.random() < 0.7: s = s.translated(P(rng.uniform(-1000, 1000), rng.uniform(-1000, 1000)))
        if rng.random() < 0.3: s = s.splitAtTime(rng.uniform(0.2, 0.8))[rng.randrange(2)]
        return fam, s
    if fam == 'closedseg':
        a = r(); return fam, CubicBezier(a, r(), r(), a)
    if fam == 'cusp':
        a, d = r(), P(rng.uniform(50, 200), rng.uniform(50, 200))
        return fam, CubicBezier(a, a + d, a + P(d.x, 0) * 0.0 + P(0, d.y), a + P(d.x, 0))   # (0,0),(d),(0,dy),(dx,0): cusp-like
    if fam == 'loop':
        a = r(); w, h = rng.uniform(50, 200), rng.uniform(50, 200)
        return fam, CubicBezier(a, a + P(w * 2, h), a + P(-w, h), a + P(w, 0))
    if fam == 'retrace':
        a, d = r(), P(rng.uniform(-1, 1), rng.uniform(-1, 1))
        ks = [rng.uniform(-200, 200) for _ in range(4)]
        return fam, CubicBezier(*[a + d * k for k in ks])
    if fam == 'smooth':
        a = r(); d = P(rng.uniform(50, 150), rng.uniform(-30, 30))
        n = P(-d.y, d.x) * rng.uniform(-0.2, 0.2)
        return fam, CubicBezier(a, a + d + n, a + d * 2 + n, a + d * 3)
    return fam, CubicBezier(r(), r(), r(), r())


def well_parametrised(cps):
    n = len(cps) - 1
    sp = [ref.speed(cps, i / 200) for i in range(201)]
    mean = sum(sp) / len(sp)
    return mean > 0 and min(sp) >= 0.5 * mean


def check(s, t, rng):
    fails = []
    cps = pts(s)
    true = ref.arc_length(cps)
    L = s.length
    meas = {}
    if true > 1e-6:
        rel = abs(L - true) / true
        meas['rel_err'] = rel
        tol = 0.02
        if len(cps) == 2: tol = 1e-12
        elif well_parametrised(cps): tol = 1e-4
        if rel > tol: fails.append(f'length {L!r} vs true arc length {true!r}: relative error {rel:.3g} > {tol}')
    if len(cps) == 2:
        e = math.hypot(cps[1][0] - cps[0][0], cps[1][1] - cps[0][1])
        if abs(L - e) > 1e-12 * max(1, e): fails.append('line length is not Euclidean')
    tolabs = 0.02 * true + 1e-9
    # the transformed control points are rounded to the grid of doubles at their own magnitude: a short segment far from the origin changes by a few
    # ulps of its COORDINATES, not of its length (that is the stated float tolerance of C01, not a defect of length)
    mag = max(abs(c) for p in cps for c in p)
    cs = lambda m: 32 * math.ulp(max(1.0, m))
    a, b = s.splitAtTime(t)
    if abs(a.length + b.length - L) > 2 * tolabs: fails.append(f'not additive under splitting at {t}: {a.length + b.length!r} vs {L!r}')
    if abs(s.reversed().length - L) > 1e-9 * max(1, L): fails.append('changed by reversal')
    v = P(rng.uniform(-500, 500), rng.uniform(-500, 500))
    if abs(s.translated(v).length - L) > 1e-7 * max(1, L) + cs(mag + 500): fails.append(f'changed by translation: {s.translated(v).length!r} vs {L!r}')
    ang = rng.uniform(-6, 6)
    if abs(s.rotated(P(rng.uniform(-100, 100), rng.uniform(-100, 100)), ang).length - L) > 1e-7 * max(1, L) + cs(2 * mag + 200): fails.append('changed by rotation')
    k = rng.choice([2.0, -0.5, rng.uniform(-3, 3)])
    if abs(s.scaled(k).length - abs(k) * L) > 1e-9 * max(1, L) * max(1, abs(k)) + cs(mag * max(1, abs(k))): fails.append(f'scaling by {k}')
    chord = math.hypot(cps[-1][0] - cps[0][0], cps[-1][1] - cps[0][1])
    poly = sum(math.hypot(q[0] - p[0], q[1] - p[1]) for p, q in zip(cps, cps[1:]))
    if L < chord - 1e-9 * max(1, poly): fails.append(f'length {L!r} less than the chord {chord!r}')
    if L > poly + 1e-9 * max(1, poly): fails.append(f'length {L!r} more than the control polygon {poly!r}')
    return fails, meas


def search(ctx):
    import random as _r
    rng = ctx.rng
    fails, seen, dist, samples, worst = [], set(), {}, [], {}
    n = ctx.n(350, 8000)
    for _ in range(n):
        fam, s = gen_seg(rng)
        t = rng.choice([0.5, rng.random(), rng.random()])
        seed2 = rng.randrange(1 << 30)
        f, meas = check(s, t, _r.Random(seed2))
        if not f and s.scaled(2.0).length != 2.0 * s.length and abs(s.scaled(2.0).length - 2.0 * s.length) > 1e-9 * max(1.0, s.length):
            f = [f'scaling by 2: {s.scaled(2.0).length!r} vs {2.0 * s.length!r}']
        if not f and rng.random() < 0.25:
            f = gen.freshness(rng, s, {'length': lambda x: x.length, 'lengthAtTime': lambda x: x.lengthAtTime(t)})
        dist[fam] = dist.get(fam, 0) + 1
        if 'rel_err' in meas:
            seen.add(gen.seg_key(s)); worst[fam] = max(worst.get(fam, 0.0), meas['rel_err'])
        if len(samples) < 3: samples.append({'family': fam, 'segment': gen.seg_json(s), 't': t})
        if f: fails.append({'class': 'C04-length', 'what': f[0], 'input': {'segment': gen.seg_json(s), 't': t, 'seed2': seed2}, 'observed': f, 'expected': 'C04 clauses'})
    # path length is the sum
    for _ in range(ctx.n(40, 500)):
        segs = [gen.segment(rng)[0] for _ in range(rng.randint(1, 6))]
        if rng.random() < 0.4:
            a = P(rng.uniform(-200, 200), rng.uniform(-200, 200))
            segs.insert(rng.randrange(len(segs) + 1), CubicBezier(a, a + P(150, 80), a + P(-150, 80), a))   # a segment that ends where it starts
        p = BezierPath.fromSegments(segs)
        if abs(p.length - sum(s.length for s in segs)) > 1e-9 * max(1, p.length):
            fails.append({'class': 'C04-path', 'what': 'path length is not the sum of its segments', 'input': {'path': [gen.seg_json(s) for s in segs]}, 'observed': p.length, 'expected': sum(s.length for s in segs)})
    # rigid motions through the PATH's own mutating API, on paths whose neighbouring segments share their node as one Point object (directly, or because
    # addExtremes / splitAtPoints left them so): length is unchanged by translate / rotate and multiplied by |k| by scale
    for _ in range(ctx.n(30, 500)):
        segs = gen.shared_node_path(rng, ints=rng.random() < 0.3)
        p = BezierPath.fromSegments(segs); p.closed = segs[-1].end is segs[0].start
        if rng.random() < 0.5:
            try: p.addExtremes()
            except Exception: pass
        L0 = p.length
        if not (L0 == L0) or L0 <= 0: continue
        op = rng.choice(['translate', 'rotate', 'scale'])
        try:
            if op == 'translate': p.translate(P(rng.uniform(-500, 500), rng.uniform(-500, 500))); want = L0
            elif op == 'rotate': p.rotate(P(rng.uniform(-100, 100), rng.uniform(-100, 100)), rng.uniform(-3.1, 3.1)); want = L0
            else:
                k = rng.choice([0.5, 2.0, -1.5, rng.uniform(0.2, 3)]); p.scale(k); want = abs(k) * L0
            L1 = p.length
        except Exception as e:
            fails.append({'class': 'C04-path', 'what': f'path.{op} / length raised {type(e).__name__}: {e}', 'input': None, 'observed': str(e), 'expected': 'no exception'}); continue
        n += 1; dist['path/' + op] = dist.get('path/' + op, 0) + 1
        if abs(L1 - want) > 1e-6 * max(1.0, want):
            fails.append({'class': 'C04-path', 'what': f'a path of {len(segs)} segments sharing their nodes: length {L0!r} became {L1!r} after path.{op} (expected {want!r})', 'input': None,
                          'observed': L1, 'expected': want})
    # path-level stale state: asking must not change later answers, and an in-place edit of a segment through the path's own
    # segment list (or of its Point objects) must be seen by the next query
    import gen as _gq
    from beziers.point import Point as _PQ
    for _ in range(ctx.n(25, 500)):
        _segs = _gq.closed_contour(rng, ints=rng.random() < 0.3)
        _qp = _PQ(_segs[0][0].x + rng.uniform(-150, 150), _segs[0][0].y + rng.uniform(-150, 150))
        _ff = _gq.path_freshness(rng, _segs, {'length': lambda p: p.length}, closed=True, disturb=[lambda p: p.pointIsInside(_qp), lambda p: p.bounds(), lambda p: p.length, lambda p: p.area])
        n += 1; dist['stale-state/path'] = dist.get('stale-state/path', 0) + 1
        if _ff: fails.append({'class': 'C04-stale-state', 'what': _ff[0], 'input': None, 'observed': _ff[:3], 'expected': 'the answers of a freshly built path with the same control points'})
    return {'evaluations': n, 'distinct_nontrivial': len(seen), 'failures': fails, 'distribution': dist, 'samples': samples, 'measured': {'worst_relative_error_by_family': worst}}


def replay(ctx, payload):
    import random as _r
    i = payload['input']
    if 'path' in i:
        segs = [gen.seg_from_json(s) for s in i['path']]; p = BezierPath.fromSegments(segs)
        bad = abs(p.length - sum(s.length for s in segs)) > 1e-9 * max(1, p.length)
        return {'fails': bad, 'observed': p.length}
    f, _ = check(gen.seg_from_json(i['segment']), i['t'], _r.Random(i['seed2']))
    return {'fails': bool(f), 'observed': f}


def check_known(ctx, finding):
    return replay(ctx, {'input': finding['input']})['fails']
