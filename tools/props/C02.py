"""C02: bounding boxes enclose the curve and are tight."""
import math
import vlib, gen, ref, kernels
from beziers.point import Point
from beziers.line import Line
from beziers.quadraticbezier import QuadraticBezier
from beziers.cubicbezier import CubicBezier
from beziers.path import BezierPath

RULE = ('line/quadratic/cubic segments from families int/float/grid/collinear, symmetric arches, degree-elevated quadratics, curves with an '
        'extremum at 0.5% or 99.5% of the parameter range, derivative with a double root; every curve is sampled at 2001 parameters plus its exact '
        'critical points; paths of 1..8 segments; non-trivial = non-degenerate control polygon')
NOT_PROVED = ['floating-point placement of the derivative roots (a root misplaced by 1 ulp protrudes by O(ulp^2)); measured']
ASSUMPTIONS = ['Python float = IEEE binary64']
HAND_FINGERPRINTS = [('boundingbox.py', 'BoundingBox.extend'), ('segment.py', 'Segment.bounds'), ('path/__init__.py', 'BezierPath.bounds')]
P = Point
PFX = {2: 'Line', 3: 'Quad', 4: 'Cubic'}


def gen_seg(rng):
    fam = rng.choice(['int', 'float', 'grid', 'collinear', 'arch', 'elevated', 'sliver', 'double', 'quad-linear', 'origin', 'elevated-scaled', 'cubic-scaled', 'even-three'])
    if fam == 'even-three':
        # three consecutive control points EXACTLY evenly spaced on one axis (the derivative's linear coefficient is exactly 0 there) and the fourth turning
        # back: an interior extremum at t = sqrt(d / (d - e))
        x0 = float(rng.randint(-200, 200)); d = float(rng.randint(5, 120)) * rng.choice([-1, 1]); e = -math.copysign(float(rng.randint(5, 300)), d)
        xs = [x0, x0 + d, x0 + 2 * d, x0 + 2 * d + e]
        ys = [float(rng.randint(-300, 300)) for _ in range(4)] if rng.random() < 0.6 else [rng.uniform(-300, 300) for _ in range(4)]
        ps = [P(x, y) for x, y in zip(xs, ys)]
        if rng.random() < 0.5: ps = [P(q.y, q.x) for q in ps]
        if rng.random() < 0.5: ps.reverse()
        return fam, CubicBezier(*ps)
    if fam in ('elevated-scaled', 'cubic-scaled'):
        # the same shapes at other magnitudes: relative tests must not turn into absolute ones (coordinates 1e-10 .. 1e8)
        sc = 10.0 ** rng.choice([-10, -8, -5, 3, 4, 5, 7, 8]); rr = lambda: P(rng.uniform(-3, 3) * sc, rng.uniform(-3, 3) * sc)
        return fam, (QuadraticBezier(rr(), rr(), rr()).toCubicBezier() if fam == 'elevated-scaled' else CubicBezier(rr(), rr(), rr(), rr()))
    if fam == 'origin':
        # the running box gets a corner exactly at (0,0): the start point is the origin and the curve goes into one quadrant
        sx, sy = rng.choice([-1, 1]), rng.choice([-1, 1])
        k = rng.choice([2, 3, 4])
        ps = [P(0.0, 0.0)] + [P(sx * rng.uniform(1, 300), sy * rng.uniform(1, 300)) for _ in range(k - 1)]
        if rng.random() < 0.5: ps.reverse()
        return fam, gen.KINDS[k](*ps)
    r = lambda: P(rng.uniform(-300, 300), rng.uniform(-300, 300))
    if fam in ('int', 'float', 'grid', 'collinear'): return fam, gen.segment(rng, fam=fam)[0]
    if fam == 'arch':
        x0, x1 = sorted([rng.randint(-300, 300), rng.randint(-300, 300)]); y0 = rng.randint(-300, 300); h = rng.choice([-1, 1]) * rng.randint(10, 300)
        c = CubicBezier(P(x0, y0), P(x0, y0 + h), P(x1, y0 + h), P(x1, y0))
        if rng.random() < 0.5: c = CubicBezier(*[P(p.y, p.x) for p in c.points])
        return fam, c
    if fam == 'elevated': return fam, QuadraticBezier(r(), r(), r()).toCubicBezier()
    if fam == 'quad-linear':
        a, b = r(), r(); return fam, QuadraticBezier(a, P((a.x + b.x) / 2, rng.uniform(-300, 300)), b)
    if fam == 'sliver':
        # quadratic/cubic whose y has its extremum at t* = 0.005 or 0.995: y'(t*) = 0
        ts = rng.choice([0.005, 0.995, 0.002, 0.0099, 0.9901])
        a = rng.uniform(50, 300)
        # y(t) = a (t - ts)^2  => quadratic control values: y0 = a ts^2, y1 = y0 - a ts, y2 = a (1-ts)^2
        y0 = a * ts * ts; y1 = y0 - a * ts; y2 = a * (1 - ts) ** 2
        q = QuadraticBezier(P(rng.uniform(-100, 100), y0), P(rng.uniform(-100, 100), y1), P(rng.uniform(-100, 100), y2))
        return fam, (q if rng.random() < 0.5 else q.toCubicBezier())
    # double root of the derivative in one coordinate: y(t) = (t - t0)^3
    t0 = rng.uniform(0.1, 0.9); k = rng.uniform(50, 500)
    f = lambda t: k * (t - t0) ** 3
    # Bernstein coefficients of a cubic polynomial from power basis: c0 + c1 t + c2 t^2 + c3 t^3
    c0, c1, c2, c3 = -k * t0 ** 3, 3 * k * t0 * t0, -3 * k * t0, k
    b0 = c0; b1 = c0 + c1 / 3; b2 = c0 + 2 * c1 / 3 + c2 / 3; b3 = c0 + c1 + c2 + c3
    return fam, CubicBezier(P(rng.uniform(-100, 100), b0), P(rng.uniform(-100, 100), b1), P(rng.uniform(-100, 100), b2), P(rng.uniform(-100, 100), b3))


def pts(s): return [(p.x, p.y) for p in s.points]


def cbox_eq(got, b):
    return f'match {got} with Some b_ => pt_feq (bl b_) {vlib.cpt(b.bl)} && pt_feq (tr b_) {vlib.cpt(b.tr)} | None => false end'


def correspond(ctx):
    rng = ctx.rng
    names = ['utils_quadraticRoots', 'Quad__findDRoots', 'Quad_findExtremes', 'Cubic__findDRoots', 'Cubic_findExtremes_False', 'BBox_includes',
             'BBox_extend_Point', 'BBox_extend_BBox', 'Line_bounds', 'Quad_bounds', 'Cubic_bounds']     # the last five: regenerated twins of the hand model (Proofs/Bridge.v)
    res = kernels.cross_check('C02', names, ctx.n(40, 600), rng)
    cases, meta = [], []
    for _ in range(ctx.n(250, 4000)):
        fam, s = gen_seg(rng)
        b = s.bounds()
        cases.append(cbox_eq(f'{PFX[len(s.points)]}_bounds FOps {vlib.cseg(s)}', b))
        meta.append({'family': fam, 'segment': gen.seg_json(s), 'bounds': [b.left, b.bottom, b.right, b.top]})
    for _ in range(ctx.n(50, 800)):
        segs = [gen_seg(rng)[1] for _ in range(rng.randint(1, 8))]
        path = BezierPath.fromSegments(segs)
        b = path.bounds()
        boxes = [s.bounds() for s in segs]
        cases.append(cbox_eq('path_bounds FOps ' + vlib.clist([f'(BB {vlib.cpt(x.bl)} {vlib.cpt(x.tr)})' for x in boxes]), b))
        meta.append({'path_of': len(segs), 'bounds': [b.left, b.bottom, b.right, b.top]})
    r2 = vlib.run_case_files('C02', 'bounds', ['Gen.Point', 'Gen.Line', 'Gen.Quad', 'Gen.Cubic', 'Hand.Bounds'], '', cases)
    out = {'n': res['n'] + r2['n'], 'agree': res['agree'] + r2['agree'], 'failing': res['failing'] + r2['failing'], 'errors': res['errors'] + r2['errors'],
           'distribution': dict(res['distribution'], bounds=r2['n']), 'samples': res['samples'] + meta[:1], 'kinds': {'kernels': len(names), 'hand_models': 2}}
    if r2['failing']: out['first_disagreement'] = [meta[i] for i in r2['failing'][:3]]
    elif res['failing']: out['first_disagreement'] = res.get('first_disagreement')
    return out


def crit_params(cps):
    """exact critical parameters of both coordinates in [0,1]"""
    out = []
    n = len(cps) - 1
    for k in (0, 1):
        ws = [n * (b[k] - a[k]) for a, b in zip(cps, cps[1:])]
        if len(ws) > 1: out += [(r, k) for r, _ in ref.poly_roots_01(ref.power_coeffs(ws))]
    return out


def check_segment(s):
    fails = []
    cps = pts(s)
    b = s.bounds()
    ext = [max(p[k] for p in cps) - min(p[k] for p in cps) for k in (0, 1)]
    crit = crit_params(cps)
    ts = [i / 2000 for i in range(2001)] + [r for r, _ in crit]
    for k, (lo, hi) in enumerate(((b.left, b.right), (b.bottom, b.top))):
        sliver = any((0 < r < 0.01 or 0.99 < r < 1) and kk == k for r, kk in crit)
        slack = (6e-4 * ext[k] if sliver else 0.0) + 1e-9 * max(1.0, max(abs(p[k]) for p in cps))
        vals = [ref.bern(cps, t)[k] for t in ts]
        mn, mx = min(vals), max(vals)
        if mn < lo - slack or mx > hi + slack:
            fails.append(f'{"xy"[k]}-range of the curve [{mn!r},{mx!r}] is not inside the box [{lo!r},{hi!r}] (allowed protrusion {slack:.3g})')
        # tightness: each side touched by the curve (to within sampling resolution)
        tol = 1e-6 * max(1.0, ext[k]) + (6e-4 * ext[k] if sliver else 0)
        if abs(mn - lo) > tol and lo < mn: fails.append(f'{"xy"[k]}-low side {lo!r} is not touched by the curve (min {mn!r})')
        if abs(mx - hi) > tol and hi > mx: fails.append(f'{"xy"[k]}-high side {hi!r} is not touched by the curve (max {mx!r})')
    return fails


def check_path(segs):
    path = BezierPath.fromSegments(segs)
    b = path.bounds()
    bs = [s.bounds() for s in segs]
    want = (min(x.left for x in bs), min(x.bottom for x in bs), max(x.right for x in bs), max(x.top for x in bs))
    if (b.left, b.bottom, b.right, b.top) != want: return [f'path box {(b.left, b.bottom, b.right, b.top)} is not the smallest box containing the segment boxes {want}']
    return []


def search(ctx):
    rng = ctx.rng
    fails, seen, dist, samples = [], set(), {}, []
    n = ctx.n(300, 8000)
    for _ in range(n):
        fam, s = gen_seg(rng)
        dist[fam] = dist.get(fam, 0) + 1
        if gen.nondegenerate(s): seen.add(gen.seg_key(s))
        if len(samples) < 3: samples.append({'family': fam, 'segment': gen.seg_json(s)})
        f = check_segment(s)
        if not f and rng.random() < 0.3:
            f = gen.freshness(rng, s, {'bounds': lambda x: x.bounds(), 'findExtremes': lambda x: x.findExtremes()})
        if f: fails.append({'class': 'C02-segment', 'what': f[0], 'input': {'segment': gen.seg_json(s)}, 'observed': f, 'expected': 'box encloses the curve (0.06% slack only for end-sliver extrema) and is tight'})
    for _ in range(ctx.n(60, 1500)):
        segs = [gen_seg(rng)[1] for _ in range(rng.randint(1, 8))]
        if rng.random() < 0.3: segs.insert(0, gen_seg(rng)[1].__class__ and Line(P(0.0, 0.0), P(rng.uniform(5, 200), rng.uniform(5, 200))))
        f = check_path(segs)
        dist['path'] = dist.get('path', 0) + 1
        if f: fails.append({'class': 'C02-path', 'what': f[0], 'input': {'path': [gen.seg_json(s) for s in segs]}, 'observed': f, 'expected': 'join of the segment boxes'})
    # path-level stale state: asking must not change later answers, and an in-place edit of a segment through the path's own
    # segment list (or of its Point objects) must be seen by the next query
    import gen as _gq
    from beziers.point import Point as _PQ
    for _ in range(ctx.n(25, 500)):
        _segs = _gq.closed_contour(rng, ints=rng.random() < 0.3)
        _qp = _PQ(_segs[0][0].x + rng.uniform(-150, 150), _segs[0][0].y + rng.uniform(-150, 150))
        _ff = _gq.path_freshness(rng, _segs, {'bounds': lambda p: p.bounds()}, closed=True, disturb=[lambda p: p.pointIsInside(_qp), lambda p: p.bounds(), lambda p: p.length, lambda p: p.area])
        n += 1; dist['stale-state/path'] = dist.get('stale-state/path', 0) + 1
        if _ff: fails.append({'class': 'C02-stale-state', 'what': _ff[0], 'input': None, 'observed': _ff[:3], 'expected': 'the answers of a freshly built path with the same control points'})
    return {'evaluations': n, 'distinct_nontrivial': len(seen), 'failures': fails, 'distribution': dist, 'samples': samples}


def replay(ctx, payload):
    i = payload['input']
    f = check_segment(gen.seg_from_json(i['segment'])) if 'segment' in i else check_path([gen.seg_from_json(s) for s in i['path']])
    return {'fails': bool(f), 'observed': f}


def check_known(ctx, finding):
    return replay(ctx, {'input': finding['input']})['fails']
