"""C10: signed area is exact per segment and consistent for closed paths."""
import math
from fractions import Fraction as Fr
import vlib, gen, ref, kernels
from beziers.point import Point
from beziers.line import Line
from beziers.quadraticbezier import QuadraticBezier
from beziers.cubicbezier import CubicBezier
from beziers.path import BezierPath
from beziers.path.geometricshapes import Rectangle, Ellipse, Circle, Square

RULE = ('segments (families int/float/grid/collinear/coincident) x split parameters; closed paths of 3..7 mixed segments (simple star-shaped '
        'ccw contours and random self-intersecting ones), Rectangle/Square/Ellipse/Circle for sizes 1..5000 and random origins, x rigid motions '
        'and scale factors; non-trivial = non-degenerate segment / path with non-zero area')
NOT_PROVED = ['|signed_area - exact Green area| <= 10*length for curved closed paths (flattening error; measured)',
              'positivity for EVERY simple counter-clockwise contour: proved for star-shaped (about any centre), fan, convex and ear-built polygons '
              '(Proofs/C10pos.v) -- that every simple polygon is ear-built (two-ears theorem) is not formalised; for Ellipse/Circle the sign and the exact value '
              '-K(s)*rx*ry of the Green area (-sum of the cubic areas) and of the control polygon are proved (Proofs/C10shapes.v), the sign of the flattened '
              'signed_area of a curved contour is measured']
ASSUMPTIONS = ['flatten()/regularSample produce on-curve vertices in order (C17, checked separately)']
HAND_FINGERPRINTS = [('path/__init__.py', 'BezierPath.signed_area'), ('path/__init__.py', 'BezierPath.area'), ('path/__init__.py', 'BezierPath.direction'),
                     ('path/geometricshapes.py', 'Rectangle'), ('path/geometricshapes.py', 'Ellipse'), ('path/geometricshapes.py', 'Circle'),
                     ('path/geometricshapes.py', 'Square')]
P = Point


def pts(s): return [(p.x, p.y) for p in s.points]


def exact_ydx(cps):
    """exact integral of y dx along a control polygon (Fractions)"""
    xs = ref.power_coeffs([p[0] for p in cps]); ys = ref.power_coeffs([p[1] for p in cps])
    dxs = [k * c for k, c in enumerate(xs)][1:]
    tot = Fr(0)
    for i, a in enumerate(ys):
        for j, b in enumerate(dxs):
            tot += a * b / (i + j + 1)
    return tot


def correspond(ctx):
    rng = ctx.rng
    names = ['Line_area', 'Quad_area', 'Cubic_area', 'Quad_toCubicBezier', 'Line_reversed', 'Quad_reversed', 'Cubic_reversed',
             'geometricshapes_CIRCULAR_SUPERNESS', 'geometricshapes_Rectangle', 'geometricshapes_Square', 'geometricshapes_Ellipse', 'geometricshapes_Circle',
             'geometricshapes_Ellipse@default', 'geometricshapes_Circle@default']     # regenerated twins of Hand/Shoelace.v, Hand/Shapes.v (Proofs/Bridge.v)
    res = kernels.cross_check('C10', names, ctx.n(30, 500), rng)
    # hand model: shoelace over an edge list, and Rectangle
    cases, meta = [], []
    for _ in range(ctx.n(120, 2000)):
        n = rng.randint(0, 8)
        fam = rng.choice(['int', 'float', 'big'])
        ps = [P(*c) for c in gen.coords(rng, fam, n)]
        lines = [Line(ps[i], ps[(i + 1) % n]) for i in range(n)] if n else []
        if not lines: continue
        path = BezierPath.fromSegments(lines)
        sa = path.signed_area; ar = path.area; di = path.direction
        ls = vlib.clist([vlib.cseg(l) for l in lines])
        cases.append(f'(feq (signed_area_lines FOps {ls}) {vlib.fhex(sa)} && feq (area_lines FOps {ls}) {vlib.fhex(ar)} && feq (direction_lines FOps {ls}) {vlib.fhex(di)})')
        meta.append({'polygon': [[p.x, p.y] for p in ps], 'signed_area': sa})
    for _ in range(ctx.n(60, 1000)):
        w, h = rng.choice([float(rng.randint(1, 5000)), rng.uniform(0.5, 5000)]), rng.choice([float(rng.randint(1, 5000)), rng.uniform(0.5, 5000)])
        o = P(rng.uniform(-5000, 5000), rng.uniform(-5000, 5000)) if rng.random() < 0.8 else None
        r = Rectangle(w, h, origin=o)
        segs = r.asSegments()
        oo = o or P(0, 0)
        cases.append(f'(list_eqb seg2_feq (Rectangle_lines FOps {vlib.fhex(w)} {vlib.fhex(h)} {vlib.cpt(oo)}) {vlib.clist([vlib.cseg(s) for s in segs])} && feq (signed_area_lines FOps (Rectangle_lines FOps {vlib.fhex(w)} {vlib.fhex(h)} {vlib.cpt(oo)})) {vlib.fhex(r.signed_area)})')
        meta.append({'rectangle': [w, h, [oo.x, oo.y]], 'signed_area': r.signed_area})
    # hand model: the curved shape constructors (Hand/Shapes.v), bit for bit, incl. the keyword defaults
    nrect = len(cases)
    from beziers.path import geometricshapes as GS
    cases.append(f'feq (circular_superness FOps) {vlib.fhex(GS.CIRCULAR_SUPERNESS)}'); meta.append({'constant': 'CIRCULAR_SUPERNESS'})
    copt = lambda v, f: 'None' if v is None else f'(Some {f(v)})'
    for _ in range(ctx.n(60, 1000)):
        kind = rng.choice(['ellipse', 'ellipse', 'circle', 'square'])
        size = lambda: rng.choice([float(rng.randint(1, 5000)), rng.uniform(0.5, 5000), rng.uniform(-50, 50), 0.0])
        o = P(rng.uniform(-5000, 5000), rng.uniform(-5000, 5000)) if rng.random() < 0.75 else None
        sup = rng.choice([None, None, rng.uniform(0.1, 1.2), 1.0, 0.0])
        if kind == 'ellipse':
            xr, yr = size(), size()
            segs = (Ellipse(xr, yr, origin=o) if sup is None else Ellipse(xr, yr, origin=o, superness=sup)).asSegments()
            cases.append(f'list_eqb seg4_feq (Ellipse_cubics_opt FOps {vlib.fhex(xr)} {vlib.fhex(yr)} {copt(o, vlib.cpt)} {copt(sup, vlib.fhex)}) {vlib.clist([vlib.cseg(x) for x in segs])}')
            meta.append({'ellipse': [xr, yr, o and [o.x, o.y], sup]})
        elif kind == 'circle':
            xr = size()
            segs = (Circle(xr, origin=o) if sup is None else Circle(xr, origin=o, superness=sup)).asSegments()
            cases.append(f'list_eqb seg4_feq (Circle_cubics_opt FOps {vlib.fhex(xr)} {copt(o, vlib.cpt)} {copt(sup, vlib.fhex)}) {vlib.clist([vlib.cseg(x) for x in segs])}')
            meta.append({'circle': [xr, o and [o.x, o.y], sup]})
        else:
            wd = size()
            segs = Square(wd, origin=o).asSegments()
            cases.append(f'list_eqb seg2_feq (Square_lines_opt FOps {vlib.fhex(wd)} {copt(o, vlib.cpt)}) {vlib.clist([vlib.cseg(x) for x in segs])}')
            meta.append({'square': [wd, o and [o.x, o.y]]})
    r2 = vlib.run_case_files('C10', 'hand', ['Gen.Point', 'Gen.Line', 'Hand.Shoelace', 'Hand.Shapes'], '', cases)
    out = {'n': res['n'] + r2['n'], 'agree': res['agree'] + r2['agree'], 'failing': res['failing'] + r2['failing'], 'errors': res['errors'] + r2['errors'],
           'distribution': dict(res['distribution'], shoelace_and_rectangle=nrect, shape_constructors=r2['n'] - nrect), 'samples': res['samples'] + meta[:1], 'kinds': {'kernels': len(names), 'hand_models': 3}}
    if r2['failing']: out['first_disagreement'] = [meta[i] for i in r2['failing'][:3]]
    elif res['failing']: out['first_disagreement'] = res.get('first_disagreement')
    # BezierPath.signed_area / area / direction as regenerated from path/__init__.py (flatten(8) + shoelace; Gen/PathOps.v, Proofs/Bridge5.v)
    kernels.merge_cross_check(out, 'C10', ['Path_signed_area', 'Path_area', 'Path_direction'], ctx.n(25, 300), rng, label='regenerated-kernels-round5')
    return out


def star_contour(rng, ccw=True):
    """simple star-shaped contour of mixed segments around a centre"""
    n = rng.randint(3, 7)
    cx, cy = rng.uniform(-500, 500), rng.uniform(-500, 500)
    angs = sorted(rng.uniform(0, 2 * math.pi) for _ in range(n))
    # keep the angles apart
    angs = [2 * math.pi * i / n + rng.uniform(-0.3, 0.3) / n for i in range(n)]
    rad = [rng.uniform(60, 300) for _ in range(n)]
    vs = [P(cx + r * math.cos(a), cy + r * math.sin(a)) for a, r in zip(angs, rad)]
    segs = []
    for i in range(n):
        a, b = vs[i], vs[(i + 1) % n]
        k = rng.choice([2, 3, 4])
        if k == 2: segs.append(Line(a, b))
        elif k == 3:
            m = a.lerp(b, 0.5); out = (m - P(cx, cy)) * rng.uniform(-0.1, 0.25)
            segs.append(QuadraticBezier(a, m + out, b))
        else:
            m1, m2 = a.lerp(b, 1 / 3.0), a.lerp(b, 2 / 3.0)
            segs.append(CubicBezier(a, m1 + (m1 - P(cx, cy)) * rng.uniform(-0.1, 0.2), m2 + (m2 - P(cx, cy)) * rng.uniform(-0.1, 0.2), b))
    path = BezierPath.fromSegments(segs)
    if not ccw: path.reverse()
    return path


def random_closed(rng):
    n = rng.randint(2, 6)
    ps = [P(rng.uniform(-400, 400), rng.uniform(-400, 400)) for _ in range(n)]
    segs = []
    for i in range(n):
        a, b = ps[i], ps[(i + 1) % n]
        k = rng.choice([2, 3, 4])
        extra = [P(rng.uniform(-400, 400), rng.uniform(-400, 400)) for _ in range(k - 2)]
        segs.append(gen.KINDS[k](a, *extra, b))
    return BezierPath.fromSegments(segs)


def path_json(p): return {'closed': p.closed, 'segments': [gen.seg_json(s) for s in p.asSegments()]}
def path_from_json(j):
    p = BezierPath.fromSegments([gen.seg_from_json(s) for s in j['segments']]); p.closed = j['closed']; return p


def check_segment(s, t):
    fails = []
    cps = pts(s)
    mag = max(1.0, max(abs(v) for p in cps for v in p))
    tol = 1e-9 * mag * mag
    ex = float(exact_ydx(cps))
    if abs(s.area - ex) > tol: fails.append(f'area {s.area!r} is not the integral of y dx {ex!r}')
    a, b = s.splitAtTime(t)
    if abs(a.area + b.area - s.area) > tol: fails.append(f'area not additive under splitting at {t}: {a.area + b.area!r} vs {s.area!r}')
    if abs(s.reversed().area + s.area) > tol: fails.append('area not negated by reversal')
    if len(cps) == 2:
        q = QuadraticBezier(s[0], s[0].lerp(s[1], 0.5), s[1])
        if abs(q.area - s.area) > tol: fails.append('line vs its quadratic elevation')
        if abs(q.toCubicBezier().area - s.area) > tol: fails.append('line vs its cubic elevation')
    if len(cps) == 3 and abs(s.toCubicBezier().area - s.area) > tol: fails.append('quadratic vs its cubic elevation')
    return fails


def check_path(path, simple_ccw, rng):
    fails = []
    segs = path.asSegments()
    L = path.length
    green = ref.green_area([pts(s) for s in segs])
    minus_sum = -sum(s.area for s in segs)
    mag = max(1.0, max(abs(v) for s in segs for p in pts(s) for v in p))
    if abs(green - minus_sum) > 1e-9 * mag * mag: fails.append(f'Green area {green!r} vs minus the sum of segment areas {minus_sum!r}')
    sa = path.signed_area
    tol = 10 * L
    if abs(sa - green) > tol: fails.append(f'signed_area {sa!r} differs from the exact enclosed area {green!r} by more than 10*length={tol:.6g}')
    if simple_ccw and not sa > 0: fails.append(f'simple counter-clockwise contour has signed_area {sa!r}')
    if path.area != abs(sa): fails.append('area is not |signed_area|')
    if path.direction != math.copysign(1, sa): fails.append('direction is not the sign of signed_area')
    rev = path.clone().reverse().signed_area if False else path_from_json(path_json(path)).reverse().signed_area
    if abs(rev + sa) > 2 * tol: fails.append(f'reversal: {rev!r} vs {-sa!r}')
    v = P(rng.uniform(-1000, 1000), rng.uniform(-1000, 1000))
    tr = path_from_json(path_json(path)).translate(v).signed_area
    if abs(tr - sa) > 2 * tol: fails.append(f'translation changed signed_area: {tr!r} vs {sa!r}')
    ro = path_from_json(path_json(path)).rotate(P(rng.uniform(-300, 300), rng.uniform(-300, 300)), rng.uniform(-6, 6)).signed_area
    if abs(ro - sa) > 2 * tol: fails.append(f'rotation changed signed_area: {ro!r} vs {sa!r}')
    k = rng.choice([2.0, 0.5, -1.5, rng.uniform(0.2, 4)])
    scd = path_from_json(path_json(path)).scale(k)
    if abs(scd.signed_area - k * k * sa) > (1 + k * k) * 10 * max(L, scd.length): fails.append(f'scaling by {k}: {scd.signed_area!r} vs {k * k * sa!r}')
    return fails


def check_shape(kind, a, b, o):
    fails = []
    if kind == 'rect':
        r = Rectangle(a, b, origin=o)
        if abs(abs(r.signed_area) - a * b) > 1e-9 * a * b + 1e-9: fails.append(f'Rectangle({a},{b}) |signed_area| = {abs(r.signed_area)!r}, expected {a * b!r}')
        if r.area != abs(r.signed_area): fails.append('area != |signed_area|')
        g = ref.green_area([pts(s) for s in r.asSegments()])
        if abs(r.signed_area - g) > 1e-9 * a * b + 1e-9: fails.append(f'Rectangle signed_area {r.signed_area!r} vs Green {g!r}')
    else:
        e = Ellipse(a, b, origin=o) if kind == 'ellipse' else Circle(a, origin=o)
        if kind == 'circle': b = a
        g = ref.green_area([pts(s) for s in e.asSegments()])
        L = e.length
        if abs(e.signed_area - g) > 10 * L: fails.append(f'{kind}({a},{b}) signed_area {e.signed_area!r} vs exact {g!r} (tol {10 * L:.5g})')
        if abs(abs(g) - math.pi * a * b) > 0.01 * math.pi * a * b: fails.append(f'{kind} exact area {g!r} is not pi*a*b')
        if e.direction != math.copysign(1, g) and abs(g) > 10 * L: fails.append(f'{kind} direction {e.direction} but exact area {g}')
    # rigid motions and scaling applied to the constructor's own objects (no clone): the constructors share Point objects between neighbours
    def mk(): return Rectangle(a, b, origin=o) if kind == 'rect' else (Ellipse(a, b, origin=o) if kind == 'ellipse' else Circle(a, origin=o))
    base = mk(); sa = base.signed_area; L0 = base.length
    tol = 2 * 10 * L0 + 1e-9
    for name, f, want in (('rotate', lambda q: q.rotate(P(37.0, -11.0), 1.0471975511965976), sa), ('translate', lambda q: q.translate(P(123.5, -77.25)), sa), ('scale', lambda q: q.scale(2.0), 4 * sa)):
        q = mk(); f(q)
        got = q.signed_area
        g2 = ref.green_area([pts(s) for s in q.asSegments()])
        t2 = tol * (4 if name == 'scale' else 1)
        if abs(got - want) > t2: fails.append(f'{kind}({a},{b}): signed_area after {name} is {got!r}, expected {want!r} (tol {t2:.5g})')
        elif abs(g2 - want) > t2: fails.append(f'{kind}({a},{b}): exact enclosed area after {name} is {g2!r}, expected {want!r}: the shape was distorted')
    return fails


def search(ctx):
    rng = ctx.rng
    fails, seen, dist, samples, ev = [], set(), {}, [], 0
    for _ in range(ctx.n(500, 15000)):
        s, fam = gen.segment(rng, fam=rng.choice(['int', 'float', 'grid', 'collinear', 'coincident']))
        t = gen.tvalue(rng); ev += 1
        dist['segment/' + fam] = dist.get('segment/' + fam, 0) + 1
        if gen.nondegenerate(s): seen.add((gen.seg_key(s), t))
        f = check_segment(s, t)
        if not f and rng.random() < 0.2: f = gen.freshness(rng, s, {'area': lambda x: x.area})
        if len(samples) < 1: samples.append({'segment': gen.seg_json(s), 't': t})
        if f: fails.append({'class': 'C10-segment', 'what': f[0], 'input': {'segment': gen.seg_json(s), 't': t}, 'observed': f, 'expected': 'area = integral of y dx; additive; negated by reversal; elevation-invariant'})
    for _ in range(ctx.n(40, 400)):
        simple = rng.random() < 0.6
        path = star_contour(rng, ccw=True) if simple else random_closed(rng)
        ev += 1
        dist['path/' + ('simple-ccw' if simple else 'random')] = dist.get('path/' + ('simple-ccw' if simple else 'random'), 0) + 1
        seed2 = rng.randrange(1 << 30)
        import random as _r
        f = check_path(path, simple, _r.Random(seed2))
        seen.add(('path', tuple(gen.seg_key(s) for s in path.asSegments())))
        if len(samples) < 2: samples.append({'path': path_json(path), 'simple_ccw': simple})
        if f: fails.append({'class': 'C10-path', 'what': f[0], 'input': {'path': path_json(path), 'simple_ccw': simple, 'seed2': seed2}, 'observed': f, 'expected': 'C10 closed-path clauses'})
    # TrueType-style rounded shapes: quadratics whose two handles are exactly axis-aligned (one vertical, one horizontal), radius 150..2500
    for _ in range(ctx.n(12, 200)):
        R = float(rng.randint(150, 2500)); cx, cy = float(rng.randint(-500, 500)), float(rng.randint(-500, 500))
        sx = rng.choice([1.0, 0.6]); sy = rng.choice([1.0, 1.4])
        q = [((1, 0), (1, 1), (0, 1)), ((0, 1), (-1, 1), (-1, 0)), ((-1, 0), (-1, -1), (0, -1)), ((0, -1), (1, -1), (1, 0))]
        segs = [QuadraticBezier(*[P(cx + R * sx * x, cy + R * sy * y) for x, y in tri]) for tri in q]
        path = BezierPath.fromSegments(segs)
        ev += 1; dist['path/tt-rounded'] = dist.get('path/tt-rounded', 0) + 1
        seed2 = rng.randrange(1 << 30)
        import random as _r2
        f = check_path(path, True, _r2.Random(seed2))
        if f: fails.append({'class': 'C10-path', 'what': f[0], 'input': {'path': path_json(path), 'simple_ccw': True, 'seed2': seed2}, 'observed': f, 'expected': 'C10 closed-path clauses'})
    # contours far from the origin: an error in WHERE the flattened polygon closes is multiplied by the distance from the origin
    for _ in range(ctx.n(25, 300)):
        w, h = rng.uniform(100, 400), rng.uniform(60, 200)
        dshape = BezierPath.fromSegments([CubicBezier(P(0, 0), P(w, 0), P(w, h), P(0, h)), Line(P(0, h), P(0, 0))])
        v = P(rng.choice([-1, 1]) * rng.uniform(2e4, 3e5), rng.choice([-1, 1]) * rng.uniform(2e4, 3e5))
        far = path_from_json(path_json(dshape)).translate(v)
        ev += 1; dist['path/far-from-origin'] = dist.get('path/far-from-origin', 0) + 1
        g = ref.green_area([pts(s) for s in far.asSegments()]); sa = far.signed_area; L = far.length
        f = []
        if abs(sa - g) > 10 * L: f.append(f'D-shaped contour translated to ({v.x:.0f},{v.y:.0f}): signed_area {sa!r} vs exact enclosed area {g!r} (10*length = {10 * L:.5g})')
        elif not sa > 0: f.append(f'counter-clockwise D-shaped contour at ({v.x:.0f},{v.y:.0f}) has signed_area {sa!r}')
        if f: fails.append({'class': 'C10-path', 'what': f[0], 'input': {'path': path_json(far), 'simple_ccw': True, 'seed2': 1}, 'observed': f, 'expected': 'C10 closed-path clauses'})
    # the same with quadratics (a lens of two quadratic arcs / a TrueType-style blob), and contours made of few LONG curves whose ends are
    # close together or coincide: a one-cubic teardrop, a cubic returning next to its start closed by a short line
    for k in range(ctx.n(30, 300)):
        v = P(rng.choice([-1, 1]) * rng.uniform(2e4, 3e5), rng.choice([-1, 1]) * rng.uniform(2e4, 3e5)) if k % 2 == 0 else P(float(rng.randint(-300, 300)), float(rng.randint(-300, 300)))
        kind = rng.choice(['quad-lens', 'quad-blob', 'teardrop', 'returning-cubic'])
        w, h = rng.uniform(60, 400), rng.uniform(60, 300)
        if kind == 'quad-lens':      # NOT point-symmetric: errors at the two ends of the arcs must not cancel
            b = P(w, rng.uniform(-0.2, 0.2) * h)
            segs = [QuadraticBezier(P(0, 0), P(w * rng.uniform(0.2, 0.8), -h * rng.uniform(0.3, 1)), b), QuadraticBezier(b, P(w * rng.uniform(0.2, 0.8), h * rng.uniform(0.3, 1)), P(0, 0))]
        elif kind == 'quad-blob':
            e, n_, w_, s_ = w, h, w * rng.uniform(0.3, 1.5), h * rng.uniform(0.3, 1.5)
            segs = [QuadraticBezier(P(e, 0), P(e, n_), P(0, n_)), QuadraticBezier(P(0, n_), P(-w_, n_), P(-w_, 0)), QuadraticBezier(P(-w_, 0), P(-w_, -s_), P(0, -s_)), QuadraticBezier(P(0, -s_), P(e, -s_), P(e, 0))]
        elif kind == 'teardrop': segs = [CubicBezier(P(0, 0), P(w, h * rng.uniform(0.2, 1)), P(-w, h), P(0, 0))]
        else:
            gap = rng.uniform(0.5, 7.5)
            segs = [CubicBezier(P(0, 0), P(w, h * rng.uniform(0.2, 1)), P(-w, h), P(-gap, 0)), Line(P(-gap, 0), P(0, 0))]
        far = BezierPath.fromSegments(segs).translate(v)
        far.closed = True
        ev += 1; dist['path/' + kind + ('-far' if k % 2 == 0 else '')] = dist.get('path/' + kind + ('-far' if k % 2 == 0 else ''), 0) + 1
        g = ref.green_area([pts(s) for s in far.asSegments()]); sa = far.signed_area; L = far.length
        f = []
        if abs(sa - g) > 10 * L: f.append(f'{kind} contour translated to ({v.x:.0f},{v.y:.0f}): signed_area {sa!r} vs exact enclosed area {g!r} (10*length = {10 * L:.5g})')
        elif not sa > 0: f.append(f'counter-clockwise {kind} contour at ({v.x:.0f},{v.y:.0f}) has signed_area {sa!r}')
        if f: fails.append({'class': 'C10-path', 'what': f[0], 'input': {'path': path_json(far), 'simple_ccw': True, 'seed2': 1}, 'observed': f, 'expected': 'C10 closed-path clauses'})
    for _ in range(ctx.n(30, 250)):
        kind = rng.choice(['rect', 'ellipse', 'circle'])
        # flatten() costs O(length^2): the quick tier draws most sizes below 600 and one in eight up to 5000 (thorough: all sizes uniformly)
        top = 5000 if (ctx.tier == 'thorough' or rng.random() < 0.125 or kind == 'rect') else 600
        a = rng.choice([float(rng.randint(1, top)), rng.uniform(1, top)]); b = rng.choice([float(rng.randint(1, top)), rng.uniform(1, top)])
        o = rng.choice([None, P(rng.uniform(-5000, 5000), rng.uniform(-5000, 5000))])
        ev += 1; dist['shape/' + kind] = dist.get('shape/' + kind, 0) + 1
        f = check_shape(kind, a, b, o)
        seen.add((kind, a, b))
        if f: fails.append({'class': 'C10-shape', 'what': f[0], 'input': {'shape': kind, 'a': a, 'b': b, 'origin': None if o is None else [o.x, o.y]}, 'observed': f, 'expected': 'constructor areas'})
    # path-level stale state: asking must not change later answers, and an in-place edit of a segment through the path's own
    # segment list (or of its Point objects) must be seen by the next query
    import gen as _gq
    from beziers.point import Point as _PQ
    for _ in range(ctx.n(25, 500)):
        _segs = _gq.closed_contour(rng, ints=rng.random() < 0.3)
        _qp = _PQ(_segs[0][0].x + rng.uniform(-150, 150), _segs[0][0].y + rng.uniform(-150, 150))
        _ff = _gq.path_freshness(rng, _segs, {'signed_area': lambda p: p.signed_area, 'area': lambda p: p.area, 'direction': lambda p: p.direction}, closed=True, disturb=[lambda p: p.pointIsInside(_qp), lambda p: p.bounds(), lambda p: p.length, lambda p: p.area])
        ev += 1; dist['stale-state/path'] = dist.get('stale-state/path', 0) + 1
        if _ff: fails.append({'class': 'C10-stale-state', 'what': _ff[0], 'input': None, 'observed': _ff[:3], 'expected': 'the answers of a freshly built path with the same control points'})
    return {'evaluations': ev, 'distinct_nontrivial': len(seen), 'failures': fails, 'distribution': dist, 'samples': samples}


def replay(ctx, payload):
    import random as _r
    i = payload['input']
    if 'segment' in i: f = check_segment(gen.seg_from_json(i['segment']), i['t'])
    elif 'path' in i: f = check_path(path_from_json(i['path']), i['simple_ccw'], _r.Random(i['seed2']))
    else: f = check_shape(i['shape'], i['a'], i['b'], None if i['origin'] is None else P(*i['origin']))
    return {'fails': bool(f), 'observed': f}


def check_known(ctx, finding):
    return replay(ctx, {'input': finding['input']})['fails']
