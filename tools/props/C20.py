"""C20: reported minimum distances are realised distances (utils/curvedistance.py, BezierPath.distanceToPath)."""
import math, sys, time, signal
import vlib, gen
from beziers.point import Point
from beziers.line import Line
from beziers.quadraticbezier import QuadraticBezier
from beziers.cubicbezier import CubicBezier
from beziers.path import BezierPath
import beziers.utils.curvedistance as CD
from beziers.utils.curvedistance import MinimumCurveDistanceFinder, curveDistance

RULE = ('segment pairs of all 9 kind pairs (line/quadratic/cubic x line/quadratic/cubic) and path pairs of 1..4 mixed segments, integer and float '
        'coordinates, in the configurations random-disjoint, touching at an end point, touching at an interior point, crossing, sharing the start point, '
        'identical, reversed copy, collinear-overlapping, degenerate (zero-length operand); reference = dense 200x200 sampling of both operands + '
        'coordinate-descent refinement (true minimum) and the control-polygon diameter bound (greatest distance); non-trivial = both operands of '
        'positive length')
NOT_PROVED = ['termination: PROVED over the reals (Proofs/C20term.v: for every pair of segments the recursion never nests deeper than 76 levels -- the selected split index is level-independent and never (0,0), so the product of the interval widths shrinks by 5/6 per level and must stay above 1e-6 -- hence curveDistance with fuel >= 80 returns Ok and more fuel does not change the result; the hypothesis D(0,0) = S(0,0) is necessary: termination_needs_D00); and the SAME for binary64 (Proofs/C20termF.v, Flocq): for all control coordinates that are finite with |c| <= 2^400 the float recursion never nests deeper than 80 levels -- the split computed with four roundings stays inside its interval and shrinks it to at most 0.84 of its width, S and the D table are finite (exponent tracking through the generated formulas for all nine order pairs), D(0,0) and S(0,0) have the same real value -- so curveDistance on floats with fuel >= 81 never raises RecursionError and does not depend on the fuel',
              'accuracy of the float S(u,v) for operands at distance 0 (rounding can leave it slightly below zero; curveDistance clamps it with '
              'max(dist, 0.0) since the fix 73d2744, and clamp_not_below shows math.sqrt then cannot raise): the float result is only '
              'compared with references by the search',
              'finiteness of the float result (no overflow) -- watched by the search']
ASSUMPTIONS = ['Coq.Floats.FloatAxioms / Uint63 specification axioms (stdlib) for the binary64 termination theorem', 'theorems are over the reals; the float control flow of minDist/curveDistance/distanceToPath is tied to the model by the correspondence '
               'on recorded S values (CPython `**` = libm pow is not reproduced bit for bit by the generated S)']
HAND_FINGERPRINTS = [('utils/curvedistance.py', 'MinimumCurveDistanceFinder.minDist'), ('utils/curvedistance.py', 'curveDistance'),
                     ('utils/curvedistance.py', 'MinimumCurveDistanceFinder.__init__'),
                     ('utils/samplemixin.py', 'SampleMixin.sample'), ('path/__init__.py', 'BezierPath.distanceToPath')]
GOLDEN_FINGERPRINTS = {'utils/curvedistance.py:MinimumCurveDistanceFinder.minDist': '897b8fdae06860a5', 'utils/curvedistance.py:curveDistance': '80dc5121fb544c4f',
                       'utils/curvedistance.py:MinimumCurveDistanceFinder.__init__': '88e0645a449f90cb', 'utils/samplemixin.py:SampleMixin.sample': '6bf990c8491494e5',
                       'path/__init__.py:BezierPath.distanceToPath': '920da62a52013ad3'}
P = Point

PRE = '''Fixpoint s_lookup (tbl : list (float * float * float)) (u v : float) : option float :=
  match tbl with nil => None | (a, b, r) :: rest => if fbits_eq a u && fbits_eq b v then Some r else s_lookup rest u v end.
Fixpoint d_lookup (tbl : list (nat * nat * float)) (r k : nat) : option float :=
  match tbl with nil => None | (a, b, x) :: rest => if Nat.eqb a r && Nat.eqb b k then Some x else d_lookup rest r k end.
(* |x - y| <= tol, tol = 1e-12 * the largest |D(r,k)|: S is a convex combination of the D(r,k), so this is a relative tolerance
   on the terms of the sum (S itself can cancel to 0 for touching operands) *)
Definition aclose (tol x y : float) : bool := feq x y || PrimFloat.leb (PrimFloat.abs (PrimFloat.sub x y)) tol.
Definition of_eq (a : option float) (b : option float) : bool :=
  match a, b with Some x, Some y => feq x y | None, None => true | _, _ => false end.
Definition segment_feq (a b : segment float) : bool :=
  match a, b with SLine x, SLine y => seg2_feq x y | SQuad x, SQuad y => seg3_feq x y | SCubic x, SCubic y => seg4_feq x y | _, _ => false end.
(* result of curveDistance_state against the recorded (distance, t1, t2), final bestAlpha and iteration count *)
Definition cd_ok (r : res (float * float * float) * (option float * nat)) (d t1 t2 : float) (best : option float) (iters : nat) : bool :=
  match r with
  | (Ok (d', t1', t2'), (b, k)) => feq d' d && feq t1' t1 && feq t2' t2 && of_eq b best && Nat.eqb k iters
  | _ => false
  end.
Definition cd_outoffuel (r : res (float * float * float) * (option float * nat)) : bool :=
  match r with (OutOfFuel, _) => true | _ => false end.
Definition dp_ok (r : res (float * float * float * segment float * segment float)) (d t1 t2 : float) (s1 s2 : segment float) : bool :=
  match r with Ok (d', t1', t2', a, b) => feq d' d && feq t1' t1 && feq t2' t2 && segment_feq a s1 && segment_feq b s2 | _ => false end.
Definition pair_ok (r : res (option float * option (segment float * segment float))) (d : float) (s1 s2 : segment float) : bool :=
  match r with Ok (Some d', Some (a, b)) => feq d' d && segment_feq a s1 && segment_feq b s2 | _ => false end.
'''


# ------------------------------------------------------------------ recording harness (monkey-patch from outside)
class Recorder:
    """wraps MinimumCurveDistanceFinder.S / .D / .minDist: records every S(u,v) and D(r,k) value the real run used and the
    maximal recursion depth; the real methods do all the work"""

    def __enter__(self):
        self.s, self.d, self.depth, self.maxdepth, self.finder = {}, {}, 0, 0, None
        self.o_S, self.o_D, self.o_min = MinimumCurveDistanceFinder.S, MinimumCurveDistanceFinder.D, MinimumCurveDistanceFinder.minDist
        rec = self

        def S(self_, u, v):
            r = rec.o_S(self_, u, v)
            rec.s.setdefault((float(u).hex(), float(v).hex()), (float(u), float(v), float(r)))
            return r

        def D(self_, r, k):
            x = rec.o_D(self_, r, k)
            rec.d.setdefault((r, k), float(x))
            return x

        def minDist(self_, *a, **kw):
            rec.finder = self_
            rec.depth += 1; rec.maxdepth = max(rec.maxdepth, rec.depth)
            try:
                return rec.o_min(self_, *a, **kw)
            finally:
                rec.depth -= 1
        MinimumCurveDistanceFinder.S, MinimumCurveDistanceFinder.D, MinimumCurveDistanceFinder.minDist = S, D, minDist
        return self

    def __exit__(self, *a):
        MinimumCurveDistanceFinder.S, MinimumCurveDistanceFinder.D, MinimumCurveDistanceFinder.minDist = self.o_S, self.o_D, self.o_min

    def s_table(self):
        return vlib.clist([f'({vlib.fhex(u)}, {vlib.fhex(v)}, {vlib.fhex(r)})' for u, v, r in self.s.values()])

    def d_table(self):
        return vlib.clist([f'({r}%nat, {k}%nat, {vlib.fhex(x)})' for (r, k), x in self.d.items()])


class Timeout(Exception):
    pass


def _alarm(*a):
    raise Timeout()


def limited(f, seconds):
    """run f() under a wall-clock limit (the unpruned recursion is exponential for some touching operands)"""
    old = signal.signal(signal.SIGALRM, _alarm)
    signal.setitimer(signal.ITIMER_REAL, seconds)
    try:
        return f()
    finally:
        signal.setitimer(signal.ITIMER_REAL, 0)
        signal.signal(signal.SIGALRM, old)


def fl(s):
    """the same segment with float coordinates (what the model sees)"""
    return gen.KINDS[len(s.points)](*[P(float(p.x), float(p.y)) for p in s.points])


def copt(x):
    return 'None' if x is None else f'(Some {vlib.fhex(x)})'


# ------------------------------------------------------------------ generators
def rpt(rng, ints, lo=-300, hi=300):
    return P(rng.randint(lo, hi), rng.randint(lo, hi)) if ints else P(rng.uniform(lo, hi), rng.uniform(lo, hi))


def rseg(rng, k, ints, lo=-300, hi=300):
    return gen.KINDS[k](*[rpt(rng, ints, lo, hi) for _ in range(k)])


MODES = ['disjoint', 'touch-end', 'touch-mid', 'cross', 'shared-start', 'identical', 'reversed', 'overlap', 'degenerate', 'near', 'far-gap']


def seg_pair(rng, k1, k2, ints, mode):
    a = rseg(rng, k1, ints)
    if mode == 'identical':
        b = gen.KINDS[k1](*[p.clone() for p in a.points])
    elif mode == 'reversed':
        b = gen.KINDS[k1](*[p.clone() for p in a.points[::-1]])
    elif mode == 'overlap':     # collinear overlapping lines / a sub-curve of the same curve
        t0, t1 = sorted([rng.choice([0.0, 0.25, 0.5, rng.random()]), rng.choice([0.5, 0.75, 1.0, rng.random()])])
        if t0 == t1: t1 = 1.0 if t0 < 1.0 else 0.0
        if k1 == 2:
            b = Line(a.pointAtTime(t0), a.pointAtTime(t1))
        else:
            b = a.splitAtTime(t0)[1] if t0 > 0 else gen.KINDS[k1](*[p.clone() for p in a.points])
        if ints: b = gen.KINDS[len(b.points)](*[P(round(p.x), round(p.y)) for p in b.points])
    elif mode == 'degenerate':
        p = rpt(rng, ints) if rng.random() < 0.6 else a.pointAtTime(rng.choice([0.0, 1.0, 0.5]))
        b = gen.KINDS[k2](*[p.clone() for _ in range(k2)])
        if rng.random() < 0.5: a, b = b, a
    elif mode == 'shared-start':
        b = rseg(rng, k2, ints); b.points[0] = a.points[0].clone()
    elif mode == 'touch-end':
        b = rseg(rng, k2, ints); b.points[-1] = a.points[rng.choice([0, -1])].clone()
    elif mode == 'touch-mid':
        b = rseg(rng, k2, ints); b.points[rng.choice([0, -1])] = a.pointAtTime(rng.choice([0.5, 0.25, rng.random()]))
    elif mode == 'cross':
        b = rseg(rng, k2, ints)
        sh = a.pointAtTime(rng.choice([0.5, rng.random()])) - b.pointAtTime(rng.choice([0.5, rng.random()]))
        if ints: sh = P(round(sh.x), round(sh.y))
        b = gen.KINDS[k2](*[q + sh for q in b.points])
    elif mode == 'far-gap':
        # disjoint operands far from the origin whose gap is small relative to their coordinates (0.003..0.04 units at ~1000..3000)
        off = P(rng.uniform(800, 3000) * rng.choice([1, -1]), rng.uniform(800, 3000) * rng.choice([1, -1]))
        g = rng.uniform(0.003, 0.04)
        if k1 == 2 or rng.random() < 0.5:
            a = Line(rpt(rng, False) + off, rpt(rng, False) + off)
            d = a[1] - a[0]; L = d.magnitude or 1.0; nrm = P(-d.y / L, d.x / L)
            b = Line(a[0] + nrm * g + d * rng.uniform(0.0, 0.3), a[1] + nrm * g - d * rng.uniform(0.0, 0.3))
            if k2 == 4: b = CubicBezier(b[0], b[0].lerp(b[1], 1 / 3.0), b[0].lerp(b[1], 2 / 3.0), b[1])
        else:
            # an arch standing g above a straight piece
            x0 = off.x; y0 = off.y; w = rng.uniform(50, 300)
            b = Line(P(x0, y0), P(x0 + w, y0)) if k2 == 2 else CubicBezier(P(x0, y0), P(x0 + w / 3, y0), P(x0 + 2 * w / 3, y0), P(x0 + w, y0))
            h = rng.uniform(20, 100)
            a = QuadraticBezier(P(x0 + 0.1 * w, y0 + g + h), P(x0 + 0.5 * w, y0 + g - h), P(x0 + 0.9 * w, y0 + g + h))   # vertex at height y0 + g
    elif mode == 'near':
        b = rseg(rng, k2, ints)
        sh = a.pointAtTime(rng.random()) - b.pointAtTime(rng.random()) + P(rng.uniform(-3, 3), rng.uniform(-3, 3))
        if ints: sh = P(round(sh.x), round(sh.y))
        b = gen.KINDS[k2](*[q + sh for q in b.points])
    else:
        b = rseg(rng, k2, ints)
        if rng.random() < 0.5:
            sh = P(rng.choice([-700, 700]), rng.randint(-300, 300)) if ints else P(rng.choice([-700.0, 700.0]), rng.uniform(-300, 300))
            b = gen.KINDS[k2](*[q + sh for q in b.points])
    return a, b


def rpath(rng, nseg, ints, lo=-300, hi=300):
    cur = rpt(rng, ints, lo, hi)
    segs = []
    for _ in range(nseg):
        k = rng.choice([2, 3, 4])
        pts = [cur] + [rpt(rng, ints, lo, hi) for _ in range(k - 1)]
        segs.append(gen.KINDS[k](*pts)); cur = pts[-1]
    return segs


# ------------------------------------------------------------------ correspondence
def run_recorded(a, b, seconds=4.0):
    """the real curveDistance under the recorder; returns (outcome, value, recorder)"""
    with Recorder() as rec:
        try:
            val = limited(lambda: curveDistance(a, b), seconds)
            out = 'ok'
        except ValueError:
            val, out = None, 'ValueError'
        except RecursionError:
            val, out = None, 'RecursionError'
        except Timeout:
            val, out = None, 'timeout'
    return out, val, rec


def correspond(ctx):
    rng = ctx.rng
    import kernels
    dist, samples = {}, []
    # (a) generated S and D tables against the real finder's S(u,v) / D(r,k)
    casesA, metaA = [], []
    for k1 in (2, 3, 4):
        for k2 in (2, 3, 4):
            n, m = k1 - 1, k2 - 1
            made = 0
            while made < ctx.n(6, 60):
                ints = rng.random() < 0.4
                mode = rng.choice(MODES)
                a, b = seg_pair(rng, k1, k2, ints, mode)
                if len(a.points) != k1 or len(b.points) != k2: continue
                made += 1
                f = MinimumCurveDistanceFinder(a, b)
                fa, fb = fl(a), fl(b)
                sa, sb = vlib.csegment(fa), vlib.csegment(fb)
                parts = []
                rows = [[float(f.D(r, k)) for k in range(max(2 * m, 2 * n) + 1)] for r in range(2 * n + 1)]
                tol = 1e-12 * max(1.0, max(abs(x) for row in rows for x in row))
                for _ in range(4):
                    u, v = gen.tvalue(rng), gen.tvalue(rng)
                    parts.append(f'aclose {vlib.fhex(tol)} (seg_S FOps {sa} {sb} {vlib.fhex(u)} {vlib.fhex(v)}) {vlib.fhex(f.S(u, v))}')
                tbl = vlib.clist([vlib.clist([vlib.fhex(x) for x in row]) for row in rows])
                parts.append(f'list_eqb (list_eqb feq) (seg_Dtable FOps {sa} {sb}) {tbl}')
                parts.append(f'Nat.eqb (seg_order {sa}) {n} && Nat.eqb (seg_order {sb}) {m}')
                casesA.append('(' + ' && '.join(parts) + ')')
                metaA.append({'kind': 'S-and-D-table', 'bez1': gen.seg_json(a), 'bez2': gen.seg_json(b)})
                dist[f'S,D {k1}x{k2}'] = dist.get(f'S,D {k1}x{k2}', 0) + 1
    rA = vlib.run_case_files('C20', 'sd', ['Gen.CurveDist', 'Hand.MinDist'], PRE, casesA, per_file=40)

    # (b) minDist / curveDistance: the model is fed the S values recorded from the real run (bit-exact keys; a missing key is an
    #     error value) and the GENERATED D table; exact agreement of (distance, t1, t2), final bestAlpha, number of calls
    casesB, metaB = [], []
    want = ctx.n(8, 60)
    for k1 in (2, 3, 4):
        for k2 in (2, 3, 4):
            made = tries = 0
            while made < want and tries < want * 4:
                tries += 1
                ints = rng.random() < 0.4
                mode = rng.choice(MODES)
                a, b = seg_pair(rng, k1, k2, ints, mode)
                if len(a.points) != k1 or len(b.points) != k2: continue
                out, val, rec = run_recorded(a, b, 2.0)
                f = rec.finder
                key = f'minDist {out}'
                if out in ('timeout', 'RecursionError') or f.iterations > 1500:
                    dist['minDist skipped (python timeout / > 1500 calls)'] = dist.get('minDist skipped (python timeout / > 1500 calls)', 0) + 1
                    continue
                fa, fb = fl(a), fl(b)
                sa, sb = vlib.csegment(fa), vlib.csegment(fb)
                call = (f'(curveDistance_state FOps (seg_order {sa}) (seg_order {sb}) (s_lookup {rec.s_table()}) '
                        f'(Dtab (seg_Dtable FOps {sa} {sb})) {rec.maxdepth + 1})')
                if out == 'ok':
                    e = f'cd_ok {call} {vlib.fhex(val[0])} {vlib.fhex(val[1])} {vlib.fhex(val[2])} {copt(f.bestAlpha)} {f.iterations}'
                    # with one level of fuel less than the real recursion depth the model must say OutOfFuel
                    if rec.maxdepth > 1 and made % 4 == 0:
                        e = f'({e} && cd_outoffuel (curveDistance_state FOps (seg_order {sa}) (seg_order {sb}) (s_lookup {rec.s_table()}) (Dtab (seg_Dtable FOps {sa} {sb})) {rec.maxdepth - 1}))'
                else:
                    e = 'false'      # the model has no ValueError outcome: a ValueError of the real code is a disagreement
                casesB.append(e)
                metaB.append({'kind': 'curveDistance', 'mode': mode, 'bez1': gen.seg_json(a), 'bez2': gen.seg_json(b), 'python': out, 'value': val,
                              'calls': f.iterations, 'depth': rec.maxdepth})
                dist[key] = dist.get(key, 0) + 1
                dist[f'mode {mode}'] = dist.get(f'mode {mode}', 0) + 1
                made += 1
    rB = vlib.run_case_files('C20', 'mind', ['Gen.CurveDist', 'Hand.MinDist'], PRE, casesB, per_file=6)

    # (c) distanceToPath: closest_pair (sampling, first-smallest selection) bit for bit; the final curveDistance with recorded S
    casesC, metaC = [], []
    for _ in range(ctx.n(30, 300)):
        ints = rng.random() < 0.4
        s1 = rpath(rng, rng.randint(1, 3), ints)
        s2 = rpath(rng, rng.randint(1, 3), ints)
        r = rng.random()
        if r < 0.2: s2[0].points[0] = s1[-1].points[-1].clone()                         # touching paths (0.0 = "unset" in the selection)
        elif r < 0.3: s2 = [gen.KINDS[len(s.points)](*[p.clone() for p in s.points]) for s in s1]
        p1, p2 = BezierPath.fromSegments(s1), BezierPath.fromSegments(s2)
        segs1, segs2 = p1.asSegments(), p2.asSegments()
        with Recorder() as rec:
            try:
                val = limited(lambda: p1.distanceToPath(p2), 3.0); out = 'ok'
            except ValueError: val, out = None, 'ValueError'
            except (Timeout, RecursionError): val, out = None, 'timeout'
        if out == 'timeout' or rec.finder.iterations > 1500:
            dist['distanceToPath skipped'] = dist.get('distanceToPath skipped', 0) + 1; continue
        f = rec.finder
        l1 = vlib.clist([vlib.csegment(fl(s)) for s in segs1]); l2 = vlib.clist([vlib.csegment(fl(s)) for s in segs2])
        c1, c2 = vlib.csegment(fl(f.bez1)), vlib.csegment(fl(f.bez2))
        cd = (f'(fun a b => fst (curveDistance_state FOps (seg_order a) (seg_order b) (s_lookup {rec.s_table()}) (Dtab (seg_Dtable FOps a b)) {rec.maxdepth + 1}))')
        call = f'(distanceToPath_gen FOps {cd} 32 10 {l1} {l2})'
        if out == 'ok':
            ok_member = any(val[3] is s for s in segs1) and any(val[4] is s for s in segs2)
            e = f'(dp_ok {call} {vlib.fhex(val[0])} {vlib.fhex(val[1])} {vlib.fhex(val[2])} {c1} {c2} && {vlib.cbool(ok_member and val[3] is f.bez1 and val[4] is f.bez2)})'
        else:
            e = 'false'          # no ValueError outcome in the model
        casesC.append(e)
        metaC.append({'kind': 'distanceToPath', 'path1': [gen.seg_json(s) for s in segs1], 'path2': [gen.seg_json(s) for s in segs2], 'python': out,
                      'value': None if val is None else list(val[:3])})
        dist[f'distanceToPath {out}'] = dist.get(f'distanceToPath {out}', 0) + 1
    # a path without segments: CPython raises UnboundLocalError (closestPair never assigned) = the model's UnboundErr
    one = [Line(P(0.0, 0.0), P(1.0, 1.0))]
    for e1, e2 in (([], one), (one, [])):
        try:
            BezierPath.fromSegments(list(e1)).distanceToPath(BezierPath.fromSegments(list(e2))); raised = False
        except UnboundLocalError:
            raised = True
        l1 = vlib.clist([vlib.csegment(x) for x in e1]); l2 = vlib.clist([vlib.csegment(x) for x in e2])
        casesC.append(f'(match distanceToPath FOps 64 ({l1} : list (segment float)) {l2} with UnboundErr => {vlib.cbool(raised)} | _ => false end)')
        metaC.append({'kind': 'distanceToPath-empty', 'path1': len(e1), 'path2': len(e2), 'python': 'UnboundLocalError' if raised else 'returned'})
        dist['distanceToPath empty path'] = dist.get('distanceToPath empty path', 0) + 1
    rC = vlib.run_case_files('C20', 'path', ['Gen.CurveDist', 'Hand.MinDist'], PRE, casesC, per_file=6)

    # (d) measured only, NOT part of the agreement count: the model with the GENERATED S (x**k as repeated multiplication instead of
    #     libm pow) and no oracle at all, against CPython: same outcome, distance to 1e-9 relative, parameters exactly
    casesD = []
    for mt in metaB:
        if len(casesD) >= ctx.n(27, 200): break
        if mt['calls'] > 400: continue
        sa, sb = vlib.csegment(fl(gen.seg_from_json(mt['bez1']))), vlib.csegment(fl(gen.seg_from_json(mt['bez2'])))
        if mt['python'] == 'ok':
            v = mt['value']
            casesD.append(f'match curveDistance FOps 64 {sa} {sb} with Ok (d, t1, t2) => fclose 0x1.12e0be826d695p-30 d {vlib.fhex(v[0])} && feq t1 {vlib.fhex(v[1])} && feq t2 {vlib.fhex(v[2])} | _ => false end')
        else:
            casesD.append('false')
    rD = vlib.run_case_files('C20', 'native', ['Gen.CurveDist', 'Hand.MinDist'], PRE, casesD, per_file=10) if casesD else {'n': 0, 'agree': 0, 'errors': []}
    dist['measured: oracle-free float model (generated S) with the same outcome as CPython'] = f"{rD['agree']}/{rD['n']}"

    metas = [metaA, metaB, metaC]
    rs = [rA, rB, rC]
    out = {'n': sum(r['n'] for r in rs), 'agree': sum(r['agree'] for r in rs), 'failing': [], 'errors': sum((r['errors'] for r in rs), []),
           'distribution': dist, 'samples': metaB[:1] + metaC[:1], 'kinds': {'kernels': 18, 'hand_models': 3}}
    out['errors'] += rD.get('errors', [])
    fd = []
    for r, mt in zip(rs, metas):
        out['failing'] += r['failing']
        fd += [mt[i] for i in r['failing'][:2] if i < len(mt)]
    if fd: out['first_disagreement'] = fd[:3]
    # minDist / curveDistance as REGENERATED from utils/curvedistance.py (Gen/MinDist.v: state-passing Fixpoint on fuel, the two property loops
    # as folds, IndexError of the D table as an exception value), related to the hand model by Proofs/Bridge4.v
    kernels.merge_cross_check(out, 'C20', ['curvedistance_minDist@2x2', 'curvedistance_minDist@2x3', 'curvedistance_minDist@2x4', 'curvedistance_minDist@3x2',
        'curvedistance_minDist@3x3', 'curvedistance_minDist@3x4', 'curvedistance_minDist@4x2', 'curvedistance_minDist@4x3', 'curvedistance_minDist@4x4',
        'curvedistance_curveDistance_Line_Line', 'curvedistance_curveDistance_Quad_Cubic', 'curvedistance_curveDistance_Cubic_Cubic'], ctx.n(8, 100), rng)
    # distanceToPath as regenerated from path/__init__.py (Gen/PathOps.v: sampling, first-smallest selection with the 0.0-means-unset quirk, UnboundLocalError as a value; Proofs/Bridge5.v)
    kernels.merge_cross_check(out, 'C20', ['Path_distanceToPath'], ctx.n(20, 200), rng, label='regenerated-kernels-round5')
    return out


# ------------------------------------------------------------------ reference (independent of beziers: plain tuples)
def cps(s):
    return [(float(p.x), float(p.y)) for p in s.points]


def bez(pts, t):
    p = pts
    while len(p) > 1:
        p = [((1 - t) * a[0] + t * b[0], (1 - t) * a[1] + t * b[1]) for a, b in zip(p, p[1:])]
    return p[0]


def _refine(A, B, u, v, h, sign):
    """coordinate pattern search for a local minimum (sign=+1) / maximum (sign=-1) of |A(u)-B(v)|^2 from (u,v), initial step h
    (at most 600 moves: along a valley of zeros -- coincident operands -- rounding noise would otherwise be followed for ever)"""
    def f(u, v):
        p, q = bez(A, u), bez(B, v)
        return sign * ((p[0] - q[0]) ** 2 + (p[1] - q[1]) ** 2)
    best = f(u, v)
    moves = 0
    while h > 1e-13 and moves < 600 and not (sign > 0 and best <= 0.0):
        moved = False
        for du, dv in ((h, 0), (-h, 0), (0, h), (0, -h), (h, h), (h, -h), (-h, h), (-h, -h)):
            uu, vv = min(1.0, max(0.0, u + du)), min(1.0, max(0.0, v + dv))
            x = f(uu, vv)
            if x < best: best, u, v, moved = x, uu, vv, True; moves += 1
        if not moved: h /= 2
    return sign * best, u, v


GOLD = (math.sqrt(5) - 1) / 2


def _golden(f, a, b, iters):
    """golden-section minimisation of f on [a,b]; returns the smallest value seen"""
    c, d = b - GOLD * (b - a), a + GOLD * (b - a)
    fc, fd = f(c), f(d)
    best = min(fc, fd)
    for _ in range(iters):
        if fc < fd:
            b, d, fd = d, c, fc
            c = b - GOLD * (b - a); fc = f(c); best = min(best, fc)
        else:
            a, c, fc = c, d, fd
            d = a + GOLD * (b - a); fd = f(d); best = min(best, fd)
    return best


def _point_curve_sq(p, B, pb):
    """squared distance from the point p to the curve B (pb = its N+1 samples): best sample, refined in its two neighbouring cells"""
    N = len(pb) - 1
    x, y = p
    row = [(x - q[0]) ** 2 + (y - q[1]) ** 2 for q in pb]
    lo = min(row); j = row.index(lo)
    def f(v):
        q = bez(B, v)
        return (x - q[0]) ** 2 + (y - q[1]) ** 2
    return min(lo, _golden(f, max(0, j - 1) / N, min(N, j + 1) / N, 32))


def ref_min_max(A, B, N=200, M=100):
    """(true minimum distance, greatest distance) between the curves with control polygons A, B.
    minimum: g(u) = distance from A(u) to the curve B (N samples of B + golden-section refinement) is sampled at M+1 parameters and
    minimised by golden section around its best local minima (robust for nearly parallel operands, where a 2-D descent stalls in the
    valley), and the same with the roles exchanged; plus a 2-D pattern search from the best cells of the N x N grid.
    maximum: N x N grid + pattern search from the best cells"""
    pa = [bez(A, i / N) for i in range(N + 1)]
    pb = [bez(B, j / N) for j in range(N + 1)]
    lows, highs = [], []
    for i, p in enumerate(pa):
        px_, py_ = p
        row = [(px_ - q[0]) ** 2 + (py_ - q[1]) ** 2 for q in pb]
        lo = min(row); hi = max(row)
        lows.append((lo, i, row.index(lo))); highs.append((hi, i, row.index(hi)))
    lows.sort(); highs.sort(reverse=True)
    mn = min(_refine(A, B, i / N, j / N, 1.0 / N, 1)[0] for _, i, j in lows[:4])
    mx = max(_refine(A, B, i / N, j / N, 1.0 / N, -1)[0] for _, i, j in highs[:3])
    for X, Y, py_ in ((A, B, pb), (B, A, pa)):
        g = lambda u: _point_curve_sq(bez(X, u), Y, py_)
        gs = [g(i / M) for i in range(M + 1)]
        mn = min(mn, min(gs))
        cand = sorted((gs[i], i) for i in range(M + 1) if (i == 0 or gs[i] <= gs[i - 1]) and (i == M or gs[i] <= gs[i + 1]))[:3]
        for _, i in cand:
            mn = min(mn, _golden(g, max(0, i - 1) / M, min(M, i + 1) / M, 32))
    return math.sqrt(max(mn, 0.0)), math.sqrt(mx)


def scale_of(polys):
    return max(1.0, max(abs(c) for poly in polys for p in poly for c in p))


# ------------------------------------------------------------------ the property as written, on the real implementation
TIME_LIMIT = 8.0


def check_pair(a, b, info=None):
    """curveDistance(a, b): no exception, finite, non-negative, >= true minimum - 1e-6*scale, <= greatest distance + 1e-6*scale,
    parameters in [0,1].  Returns list of (class, message)."""
    A, B = cps(a), cps(b)
    sc = scale_of([A, B])
    try:
        r = limited(lambda: curveDistance(a, b), TIME_LIMIT)
    except Timeout:
        return [('C20-no-result-in-time', f'curveDistance did not return within {TIME_LIMIT} s (the recursion is not cut off)')]
    except RecursionError:
        return [('C20-recursion-error', 'curveDistance raised RecursionError')]
    except Exception as e:
        return [(f'C20-exception-{type(e).__name__}', f'curveDistance raised {type(e).__name__}: {e}')]
    d, t1, t2 = r
    fails = []
    if not (isinstance(d, float) and math.isfinite(d)): return [('C20-not-finite', f'reported distance {d!r} is not a finite number')]
    if d < 0: fails.append(('C20-negative', f'reported distance {d!r} is negative'))
    mn, mx = ref_min_max(A, B)
    if d < mn - 1e-6 * sc: fails.append(('C20-below-minimum', f'reported distance {d!r} is smaller than the true minimum distance {mn!r}'))
    if d > mx + 1e-6 * sc: fails.append(('C20-above-maximum', f'reported distance {d!r} is larger than the greatest distance {mx!r} between points of the operands'))
    if not (0 <= t1 <= 1 and 0 <= t2 <= 1): fails.append(('C20-parameter-range', f'reported parameters ({t1!r}, {t2!r}) are not in [0,1]'))
    if info is not None:
        # not claimed by the property, only measured: how far above the true minimum the reported distance is, and how far the
        # distance AT the reported parameters is from the reported distance
        p, q = bez(A, t1), bez(B, t2)
        info['excess'] = (d - mn) / sc
        info['at_reported_params'] = abs(math.hypot(p[0] - q[0], p[1] - q[1]) - d) / sc
    return fails


def check_paths(segs1, segs2):
    p1, p2 = BezierPath.fromSegments(segs1), BezierPath.fromSegments(segs2)
    l1, l2 = p1.asSegments(), p2.asSegments()
    polys1, polys2 = [cps(s) for s in l1], [cps(s) for s in l2]
    sc = scale_of(polys1 + polys2)
    try:
        r = limited(lambda: p1.distanceToPath(p2), TIME_LIMIT)
    except Timeout:
        return [('C20-no-result-in-time', f'distanceToPath did not return within {TIME_LIMIT} s')]
    except RecursionError:
        return [('C20-recursion-error', 'distanceToPath raised RecursionError')]
    except Exception as e:
        return [(f'C20-exception-{type(e).__name__}', f'distanceToPath raised {type(e).__name__}: {e}')]
    d, t1, t2, s1, s2 = r
    fails = []
    if not (isinstance(d, float) and math.isfinite(d)): return [('C20-not-finite', f'reported distance {d!r} is not a finite number')]
    if d < 0: fails.append(('C20-negative', f'reported distance {d!r} is negative'))
    if not any(s1 is s for s in l1): fails.append(('C20-segment-membership', 'the first reported segment is not a segment of the first path'))
    if not any(s2 is s for s in l2): fails.append(('C20-segment-membership', 'the second reported segment is not a segment of the second path'))
    mm = [ref_min_max(A, B, 100, 60) for A in polys1 for B in polys2]
    mn, mx = min(x[0] for x in mm), max(x[1] for x in mm)
    if d < mn - 1e-6 * sc: fails.append(('C20-below-minimum', f'reported distance {d!r} is smaller than the true minimum distance {mn!r} between the paths'))
    if d > mx + 1e-6 * sc: fails.append(('C20-above-maximum', f'reported distance {d!r} is larger than the greatest distance {mx!r} between points of the paths'))
    if not (0 <= t1 <= 1 and 0 <= t2 <= 1): fails.append(('C20-parameter-range', f'reported parameters ({t1!r}, {t2!r}) are not in [0,1]'))
    return fails


def path_pair(rng, ints, mode):
    s1 = rpath(rng, rng.randint(1, 4), ints)
    if mode == 'identical':
        s2 = [gen.KINDS[len(s.points)](*[p.clone() for p in s.points]) for s in s1]
    elif mode == 'touch':
        s2 = rpath(rng, rng.randint(1, 4), ints)
        s2[0].points[0] = rng.choice(s1).points[rng.choice([0, -1])].clone()
    elif mode == 'cross':
        s2 = rpath(rng, rng.randint(1, 4), ints)
        a, b = rng.choice(s1), rng.choice(s2)
        sh = a.pointAtTime(rng.random()) - b.pointAtTime(rng.random())
        if ints: sh = P(round(sh.x), round(sh.y))
        s2 = [gen.KINDS[len(s.points)](*[q + sh for q in s.points]) for s in s2]
    elif mode == 'degenerate':
        p = rpt(rng, ints)
        s2 = [Line(p.clone(), p.clone())]
    elif mode == 'near':
        # disjoint paths whose gap is a fraction of a unit: two axis-parallel boxes g apart (squared and plain distances differ most below 1)
        g = rng.choice([0.5, 0.25, 0.125, rng.uniform(0.05, 0.95)])
        w, h = rng.uniform(5, 60), rng.uniform(5, 60)
        def boxp(x0, y0, x1, y1): return [Line(P(x0, y0), P(x1, y0)), Line(P(x1, y0), P(x1, y1)), Line(P(x1, y1), P(x0, y1)), Line(P(x0, y1), P(x0, y0))]
        s1 = boxp(0.0, 0.0, w, h); s2 = boxp(w + g, rng.uniform(-h, h) * 0.5, w + g + rng.uniform(5, 40), h)
    else:
        s2 = rpath(rng, rng.randint(1, 4), ints)
        if rng.random() < 0.5:
            sh = P(rng.choice([-900, 900]), rng.randint(-300, 300))
            s2 = [gen.KINDS[len(s.points)](*[q + sh for q in s.points]) for s in s2]
    return s1, s2


def search(ctx):
    rng = ctx.rng
    fails, seen, dist, samples, ev = [], set(), {}, [], 0
    worst = {'slowest_s': 0.0, 'max_excess_over_true_min_rel_scale': 0.0, 'max_gap_distance_at_reported_parameters_rel_scale': 0.0}
    def rec(fs, inp):
        for cls, msg in fs:
            fails.append({'class': cls, 'what': msg, 'input': inp, 'observed': msg,
                          'expected': 'a finite non-negative distance realised between points of the operands, parameters in [0,1], segments of the paths'})
    # fixed small cases named in the property: touching / crossing / identical / degenerate, integer coordinates
    fixed = [
        (Line(P(0, 0), P(10, 0)), Line(P(0, 5), P(10, 5))),
        (Line(P(0, 0), P(10, 10)), Line(P(0, 10), P(10, 0))),
        (Line(P(0, 0), P(10, 0)), Line(P(10, 0), P(20, 5))),
        (Line(P(0, 0), P(10, 0)), Line(P(0, 0), P(10, 0))),
        (Line(P(3, 3), P(3, 3)), Line(P(0, 0), P(10, 0))),
        (Line(P(3, 3), P(3, 3)), Line(P(3, 3), P(3, 3))),
        (QuadraticBezier(P(0, 0), P(5, 10), P(10, 0)), Line(P(0, 5), P(10, 5))),
        (CubicBezier(P(0, 0), P(0, 10), P(10, 10), P(10, 0)), CubicBezier(P(0, 5), P(3, -5), P(7, -5), P(10, 5))),
        (CubicBezier(P(129, 139), P(190, 139), P(201, 364), P(90, 364)), CubicBezier(P(309, 159), P(178, 159), P(215, 408), P(309, 408))),
        (CubicBezier(P(129, 139), P(190, 139), P(201, 364), P(90, 364)), Line(P(309, 159), P(309, 408))),
        (QuadraticBezier(P(0, 0), P(0, 0), P(0, 1)), QuadraticBezier(P(0, 0), P(0, 0), P(0, 1))),      # a segment against itself
        (QuadraticBezier(P(0, 0), P(0, 1), P(0, 2)), Line(P(0, 1), P(1, 1))),                        # T-junction at t = 1/2
    ]
    for a, b in fixed:
        ev += 1; dist['fixed'] = dist.get('fixed', 0) + 1
        rec(check_pair(a, b), {'kind': 'segments', 'bez1': gen.seg_json(a), 'bez2': gen.seg_json(b)})
    for _ in range(ctx.n(260, 6000)):
        k1, k2 = rng.choice([2, 3, 4]), rng.choice([2, 3, 4])
        ints = rng.random() < 0.45
        mode = rng.choice(MODES)
        a, b = seg_pair(rng, k1, k2, ints, mode)
        ev += 1
        key = f'{mode}/{"int" if ints else "float"}'
        dist[key] = dist.get(key, 0) + 1
        if gen.nondegenerate(a) and gen.nondegenerate(b): seen.add((gen.seg_key(a), gen.seg_key(b)))
        t0 = time.time()
        info = {}
        fs = check_pair(a, b, info)
        worst['slowest_s'] = max(worst['slowest_s'], round(time.time() - t0, 3))
        if 'excess' in info:
            worst['max_excess_over_true_min_rel_scale'] = max(worst['max_excess_over_true_min_rel_scale'], round(info['excess'], 6))
            worst['max_gap_distance_at_reported_parameters_rel_scale'] = max(worst['max_gap_distance_at_reported_parameters_rel_scale'], round(info['at_reported_params'], 6))
        rec(fs, {'kind': 'segments', 'mode': mode, 'bez1': gen.seg_json(a), 'bez2': gen.seg_json(b)})
        if len(samples) < 2: samples.append({'bez1': gen.seg_json(a), 'bez2': gen.seg_json(b), 'mode': mode})
    # operands with a HISTORY: a Line piece produced by flattening a curve (it carries a back-pointer to that curve; as an operand it is just the line),
    # a half produced by splitAtTime
    for _ in range(ctx.n(40, 600)):
        par = rseg(rng, rng.choice([3, 4]), False); L = par.length
        if not (20 < L < 1500): continue
        if rng.random() < 0.7:
            dd = L / rng.randint(2, 5); pieces = par.flatten(dd)
            if len(pieces) < 2: continue
            j_ = rng.randrange(len(pieces)); a = pieces[j_]; hist = {'parent': gen.seg_json(par), 'flatten': dd, 'piece': j_}
        else:
            ts_ = rng.uniform(0.2, 0.8); j_ = rng.randrange(2); a = par.splitAtTime(ts_)[j_]; hist = {'parent': gen.seg_json(par), 'splitAtTime': ts_, 'piece': j_}
        b = rseg(rng, rng.choice([2, 3, 4]), False)
        if rng.random() < 0.5:      # near the part of the parent that is NOT the piece
            far = par.pointAtTime(0.0 if j_ else 1.0); b = gen.KINDS[len(b.points)](*[q - b.points[0] + far + P(rng.uniform(3, 30), rng.uniform(3, 30)) for q in b.points])
        swap = rng.random() < 0.5
        ev += 1; dist['history-operand'] = dist.get('history-operand', 0) + 1
        rec(check_pair(b, a) if swap else check_pair(a, b), {'kind': 'segments', 'mode': 'history-operand', 'bez1': gen.seg_json(b if swap else a), 'bez2': gen.seg_json(a if swap else b),
                                                             'history': dict(hist, operand=2 if swap else 1)})
    for _ in range(ctx.n(50, 1200)):
        ints = rng.random() < 0.45
        mode = rng.choice(['disjoint', 'disjoint', 'touch', 'cross', 'identical', 'degenerate', 'near'])
        s1, s2 = path_pair(rng, ints, mode)
        ev += 1
        key = f'paths {mode}/{"int" if ints else "float"}'
        dist[key] = dist.get(key, 0) + 1
        seen.add((tuple(gen.seg_key(s) for s in s1), tuple(gen.seg_key(s) for s in s2)))
        rec(check_paths(s1, s2), {'kind': 'paths', 'mode': mode, 'path1': [gen.seg_json(s) for s in s1], 'path2': [gen.seg_json(s) for s in s2]})
    by = {}
    for f in fails: by[f['class']] = by.get(f['class'], 0) + 1
    # stale state: measure, edit an operand in place, measure again (per-segment caches must not survive the edit)
    for _ in range(ctx.n(30, 600)):
        k1, k2 = rng.choice([2, 3, 4]), rng.choice([2, 3, 4])
        a, b = seg_pair(rng, k1, k2, False, 'disjoint')
        ff = gen.freshness(rng, a, {'curveDistance(self, other)': lambda x: curveDistance(x, gen.fresh_copy(b)), 'curveDistance(other, self)': lambda x: curveDistance(gen.fresh_copy(b), x)})
        ev += 1; dist['stale-state'] = dist.get('stale-state', 0) + 1
        if ff: fails.append({'class': 'C20-stale-state', 'what': ff[0], 'input': None, 'observed': ff[:3], 'expected': 'the answer for freshly constructed segments with the same control points'})
    return {'evaluations': ev, 'distinct_nontrivial': len(seen), 'failures': fails, 'distribution': dist, 'samples': samples,
            'measured': dict(worst, failures_by_class=by)}


def replay(ctx, payload):
    i = payload['input']
    if i is None: return {'fails': True, 'observed': 'no concrete input recorded'}
    if i['kind'] == 'segments':
        s1, s2 = gen.seg_from_json(i['bez1']), gen.seg_from_json(i['bez2'])
        h = i.get('history')
        if h:       # one operand is the product of an operation on a parent curve: rebuild it the same way (it may carry state a freshly built one has not)
            par = gen.seg_from_json(h['parent'])
            pc = par.flatten(h['flatten'])[h['piece']] if 'flatten' in h else par.splitAtTime(h['splitAtTime'])[h['piece']]
            if h.get('operand') == 2: s2 = pc
            else: s1 = pc
        f = check_pair(s1, s2)
    else:
        f = check_paths([gen.seg_from_json(s) for s in i['path1']], [gen.seg_from_json(s) for s in i['path2']])
    return {'fails': bool(f), 'observed': f}


def check_known(ctx, finding):
    return replay(ctx, {'input': finding['input']})['fails']
