"""C08: segment, node-list and textual representations are lossless."""
import math, struct, itertools
import vlib, gen, kernels
from beziers.point import Point
from beziers.line import Line
from beziers.quadraticbezier import QuadraticBezier
from beziers.cubicbezier import CubicBezier
from beziers.path import BezierPath
from beziers.path.representations.Segment import SegmentRepresentation
from beziers.path.representations.Nodelist import Node

RULE = ('structure: all kind words of 1..3 segments over line/quad/cubic exhaustively (thorough: 1..4), random paths of up to 8 segments, open and closed, all '
        'rotations of their node lists (start not repeated), with small-integer and float coordinates; text: doubles from every class (subnormal, -0.0, '
        '17-digit, +-max, powers of two, integers) through the real repr()/fromRepr(); malformed strings against the matcher models; '
        'non-trivial = path of >= 2 segments or a non-integer double')
NOT_PROVED = ['CPython repr(float)/float(str) round-trip every double and "%f" prints six decimals: runtime facts, exercised on the real runtime, not proved']
ASSUMPTIONS = ['hypotheses on fmt/parse in the textual theorems (premises of the theorems) hold for CPython']
HAND_FINGERPRINTS = [('path/representations/Segment.py', 'SegmentRepresentation.toNodelist'), ('path/representations/Segment.py', 'SegmentRepresentation.fromNodelist'),
                     ('path/representations/Segment.py', 'SegmentRepresentation.appendSegment'), ('path/__init__.py', 'BezierPath.asSegments'),
                     ('path/__init__.py', 'BezierPath.asNodelist'), ('path/__init__.py', 'BezierPath.asSVGPath'), ('point.py', 'Point.fromRepr'), ('point.py', 'Point.__repr__'),
                     ('line.py', 'Line.fromRepr'), ('quadraticbezier.py', 'QuadraticBezier.fromRepr'), ('cubicbezier.py', 'CubicBezier.fromRepr')]
P = Point
NT = {'line': 'NLine', 'curve': 'NCurve', 'offcurve': 'NOff'}


def cstr(s):
    out = []
    for ch in s:
        if ch == '"': out.append('""')
        elif ch == '\n': out.append('" ++ String "010"%char "')   # newline
        else: out.append(ch)
    return '("' + ''.join(out) + '")%string'


def cnode(n): return f'({vlib.cpt(n.point)}, {NT[n.type]})'
def cnodes(nl): return vlib.clist([cnode(n) for n in nl])
def csegs(segs): return vlib.clist([vlib.csegment(s) for s in segs])
SEGLIST_EQ = 'list_eqb segment_feq'
PRE = '''From Coq Require Import String Ascii.
Definition segment_feq (a b : segment float) : bool :=
  match a, b with SLine x, SLine y => seg2_feq x y | SQuad x, SQuad y => seg3_feq x y | SCubic x, SCubic y => seg4_feq x y | _, _ => false end.
Definition nt_eqb (a b : ntype) : bool := match a, b with NLine, NLine | NCurve, NCurve | NOff, NOff => true | _, _ => false end.
Definition node_feq (a b : node float) : bool := pt_feq (fst a) (fst b) && nt_eqb (snd a) (snd b).
Definition osegs_eq (a b : option (list (segment float))) : bool :=
  match a, b with Some x, Some y => list_eqb segment_feq x y | None, None => true | _, _ => false end.
Fixpoint lookup_fmt (tbl : list (float * string)) (x : float) : string :=
  match tbl with nil => "?"%string | (k, s) :: r => if fbits_eq k x then s else lookup_fmt r x end.
Fixpoint lookup_parse (tbl : list (float * string)) (s : string) : option float :=
  match tbl with nil => None | (k, t) :: r => if String.eqb s t then Some k else lookup_parse r s end.
Definition ostr_eq (a : option string) (b : string) : bool := match a with Some x => String.eqb x b | None => false end.
'''


def rand_path(rng, nseg, ints=True, closed=True):
    def pt():
        return P(rng.randint(-9, 9), rng.randint(-9, 9)) if ints else P(rng.uniform(-500, 500), rng.uniform(-500, 500))
    start = pt()
    cur = start
    segs = []
    for i in range(nseg):
        k = rng.choice([2, 3, 4])
        end = start if (closed and i == nseg - 1 and rng.random() < 0.7) else pt()
        segs.append(gen.KINDS[k](cur, *[pt() for _ in range(k - 2)], end))
        cur = end
    return segs


def py_from_nodelist(nl, closed):
    path = BezierPath(); path.closed = closed
    try:
        r = SegmentRepresentation.fromNodelist(path, nl)
        return r.segments
    except (ValueError, IndexError):
        return None


def fmt_table(vals):
    seen, out = set(), []
    for v in vals:
        k = struct.pack('>d', v)
        if k in seen: continue
        seen.add(k); out.append(v)
    return out


def correspond(ctx):
    rng = ctx.rng
    cases, meta, dist = [], [], {}
    def add(kind, expr, m):
        cases.append(expr); meta.append(dict(m, kind=kind)); dist[kind] = dist.get(kind, 0) + 1
    # toNodelist / fromNodelist on well-formed and arbitrary inputs
    for _ in range(ctx.n(150, 3000)):
        closed = rng.random() < 0.5
        segs = rand_path(rng, rng.randint(1, 8), ints=rng.random() < 0.6, closed=closed)
        nl = SegmentRepresentation(BezierPath(), segs).toNodelist()
        add('toNodelist', f'match toNodelist {csegs(segs)} with Some l => list_eqb node_feq l {cnodes(nl)} | None => false end', {'segments': len(segs)})
        back = py_from_nodelist(nl, closed)
        add('fromNodelist', f'osegs_eq (fromNodelist FOps {vlib.cbool(closed)} {cnodes(nl)}) ' + ('None' if back is None else f'(Some {csegs(back)})'), {'nodes': len(nl), 'closed': closed})
        k = rng.randrange(len(nl))
        rot = nl[k:] + nl[:k]
        back = py_from_nodelist(rot, closed)
        add('fromNodelist-rotated', f'osegs_eq (fromNodelist FOps {vlib.cbool(closed)} {cnodes(rot)}) ' + ('None' if back is None else f'(Some {csegs(back)})'), {'nodes': len(nl), 'rot': k})
    for _ in range(ctx.n(100, 2000)):   # arbitrary node lists, including ones the library rejects
        nl = [Node(rng.randint(-5, 5), rng.randint(-5, 5), rng.choice(['line', 'curve', 'offcurve', 'offcurve'])) for _ in range(rng.randint(1, 9))]
        closed = rng.random() < 0.5
        back = py_from_nodelist(nl, closed)
        add('fromNodelist-arbitrary', f'osegs_eq (fromNodelist FOps {vlib.cbool(closed)} {cnodes(nl)}) ' + ('None' if back is None else f'(Some {csegs(back)})'), {'nodes': [(n.x, n.y, n.type) for n in nl], 'closed': closed, 'python': None if back is None else len(back)})
    # SVG and repr through format tables
    for _ in range(ctx.n(60, 1000)):
        closed = rng.random() < 0.5
        segs = rand_path(rng, rng.randint(1, 5), ints=rng.random() < 0.4, closed=closed)
        path = BezierPath.fromSegments(segs); path.closed = closed
        svg = path.asSVGPath()
        vals = fmt_table([v for s in segs for p in s.points for v in (p.x, p.y)])
        tbl6 = vlib.clist([f'({vlib.fhex(v)}, {cstr("%f" % v)})' for v in vals])
        add('svg', f'ostr_eq (svg_path (lookup_fmt {tbl6}) {vlib.cbool(closed)} {csegs(segs)}) {cstr(svg)}', {'svg': svg})
        s = rng.choice(segs)
        tblr = vlib.clist([f'({vlib.fhex(v)}, {cstr(repr(v))})' for v in vals])
        nm = {2: 'line', 3: 'quad', 4: 'cubic'}[len(s.points)]
        add('repr', f'(String.eqb (repr_{nm} (lookup_fmt {tblr}) {vlib.cseg(s)}) {cstr(repr(s))} && match parse_{nm} (lookup_parse {tblr}) {cstr(repr(s))} with Some x => seg{len(s.points)}_feq x {vlib.cseg(s)} | None => false end)', {'repr': repr(s)})
    # malformed strings against the matcher models (Python: fromRepr raises or returns an object)
    for _ in range(ctx.n(80, 1500)):
        s = rng.choice([Line(P(1, 2), P(3, 4)), QuadraticBezier(P(1, 2), P(3, 4), P(5, 6)), CubicBezier(P(1, 2), P(3, 4), P(5, 6), P(7, 8))])
        txt = list(repr(s))
        for _ in range(rng.randint(1, 3)):
            i = rng.randrange(len(txt)); op = rng.randrange(3)
            if op == 0: del txt[i]
            elif op == 1: txt.insert(i, rng.choice('<>-,LB1.'))
            else: txt[i] = rng.choice('<>-,LB1.')
        txt = ''.join(txt)
        vals = [1.0, 2.0, 3.0, 4.0, 5.0, 6.0, 7.0, 8.0]
        tblr = vlib.clist([f'({vlib.fhex(v)}, {cstr(repr(v))})' for v in vals])
        for nm, cls, k in (('line', Line, 2), ('quad', QuadraticBezier, 3), ('cubic', CubicBezier, 4)):
            try:
                obj = cls.fromRepr(txt)
                ok = all(p.x in vals and p.y in vals for p in obj.points) and all(repr(v) in txt for p in obj.points for v in (p.x, p.y))
                exp = f'match parse_{nm} (lookup_parse {tblr}) {cstr(txt)} with Some x => seg{k}_feq x {vlib.cseg(obj)} | None => false end' if ok else None
            except Exception:
                exp = f'match parse_{nm} (lookup_parse {tblr}) {cstr(txt)} with Some _ => false | None => true end'
            if exp: add('malformed-' + nm, exp, {'text': txt})
    res = vlib.run_case_files('C08', 'nodes', ['Gen.Point', 'Hand.Nodelist'], PRE, cases, per_file=150)
    res['distribution'] = dist
    res['samples'] = meta[:2]
    res['kinds'] = {'hand_models': 7}
    if res['failing']: res['first_disagreement'] = [meta[i] for i in res['failing'][:3]]
    # the conversions as REGENERATED from the source (Gen/Nodelist.v; related to the hand model by Proofs/Bridge3.v), incl. the exceptions
    kernels.merge_cross_check(res, 'C08', ['SegRep_toNodelist', 'SegRep_appendSegment', 'SegRep_fromNodelist'], ctx.n(40, 500), rng)
    return res


def same_segs(a, b):
    return len(a) == len(b) and all(type(x) is type(y) and [(p.x, p.y) for p in x.points] == [(p.x, p.y) for p in y.points] for x, y in zip(a, b))


def check_structure(segs, closed, trips):
    fails = []
    path = BezierPath.fromSegments(list(segs)); path.closed = closed
    for i in range(trips):
        path.asNodelist(); got = path.asSegments()
        if not same_segs(got, segs):
            fails.append(f'round trip {i + 1} changed the segments: {got} vs {segs}'); break
    return fails


def check_rotation(segs):
    """closed contour given as a node list WITHOUT repeated start, at every rotation"""
    fails = []
    nl = SegmentRepresentation(BezierPath(), segs).toNodelist()[:-1]     # drop the repeated start
    base = py_from_nodelist(nl, True)
    if base is None: return ['closed node list rejected']
    if not same_segs(base, segs): fails.append(f'closed node list does not reproduce the contour: {base} vs {segs}')
    n = len(base)
    for k in range(1, len(nl)):
        rot = nl[k:] + nl[:k]
        got = py_from_nodelist(rot, True)
        if got is None: fails.append(f'rotation {k} rejected'); continue
        if len(got) != n: fails.append(f'rotation {k}: {len(got)} segments instead of {n} (exactly one closing segment expected)'); continue
        if not any(same_segs(got, base[j:] + base[:j]) for j in range(n)): fails.append(f'rotation {k} is not a cyclic rotation of the same segments')
    return fails


DOUBLES = [0.0, -0.0, 5e-324, -5e-324, 2.2250738585072014e-308, 1.7976931348623157e308, -1.7976931348623157e308, 0.1, 0.30000000000000004, 1 / 3, 2 / 3,
           123456789.12345679, 1e21, 1e22, 1e-7, 9007199254740993.0, 4.35, 2.675, 1e16, 123456789012345680.0, 0.1 + 0.2, 1.0000000000000002, 0.9999999999999999]


def rand_double(rng):
    r = rng.random()
    if r < 0.3: return rng.choice(DOUBLES)
    if r < 0.6: return struct.unpack('>d', struct.pack('>Q', rng.getrandbits(64)))[0]
    if r < 0.8: return rng.uniform(-1e6, 1e6)
    return float(rng.randint(-10 ** 6, 10 ** 6))


def bits(x): return struct.pack('>d', x)


def check_text(vals):
    fails = []
    vals = [v for v in vals if v == v and not math.isinf(v)]
    while len(vals) < 8: vals.append(1.5)
    objs = [P(vals[0], vals[1]), Line(P(vals[0], vals[1]), P(vals[2], vals[3])),
            QuadraticBezier(P(vals[0], vals[1]), P(vals[2], vals[3]), P(vals[4], vals[5])),
            CubicBezier(P(vals[0], vals[1]), P(vals[2], vals[3]), P(vals[4], vals[5]), P(vals[6], vals[7]))]
    for o in objs:
        txt = repr(o)
        try: back = type(o).fromRepr(txt)
        except Exception as e:
            fails.append(f'{txt} does not parse back: {type(e).__name__}'); continue
        a = [o] if isinstance(o, P) else o.points
        b = [back] if isinstance(back, P) else back.points
        if type(back) is not type(o) or len(a) != len(b) or any(bits(p.x) != bits(q.x) or bits(p.y) != bits(q.y) for p, q in zip(a, b)):
            fails.append(f'{txt} parses back to a different object {back!r}')
    return fails


def check_svg(segs, closed):
    path = BezierPath.fromSegments(list(segs)); path.closed = closed
    s = path.asSVGPath()
    toks = s.split(' ')
    exp = ['M', '%f' % segs[0][0].x, '%f' % segs[0][0].y]
    for sg in segs:
        exp.append('xxLQC'[len(sg.points)])
        for p in sg.points[1:]: exp += ['%f' % p.x, '%f' % p.y]
        exp.append('')           # the library leaves a trailing blank in every drawing command
    if closed: exp.append('Z')
    got = toks
    if [t for t in got if t != ''] != [t for t in exp if t != '']:
        return [f'SVG string {s!r} does not have one move, one command per segment with its control points to six decimals, Z iff closed']
    return []


def search(ctx):
    rng = ctx.rng
    fails, seen, dist, samples, ev = [], set(), {}, [], 0
    def rec(cls, f, inp):
        if f: fails.append({'class': cls, 'what': f[0], 'input': inp, 'observed': f, 'expected': 'lossless representation'})
    # exhaustive kind words
    maxn = 4 if ctx.tier == 'thorough' else 3
    for n in range(1, maxn + 1):
        for word in itertools.product([2, 3, 4], repeat=n):
            for closed in (False, True):
                lab = iter(range(1, 100))
                cur = P(next(lab), next(lab)); start = cur
                segs = []
                for i, k in enumerate(word):
                    end = start if (closed and i == n - 1) else P(next(lab), next(lab))
                    segs.append(gen.KINDS[k](cur, *[P(next(lab), next(lab)) for _ in range(k - 2)], end)); cur = end
                ev += 1; dist['exhaustive-words'] = dist.get('exhaustive-words', 0) + 1
                rec('C08-roundtrip', check_structure(segs, closed, 3), {'kind': 'structure', 'segments': [gen.seg_json(s) for s in segs], 'closed': closed, 'trips': 3})
                if closed and n >= 2:
                    rec('C08-rotation', check_rotation(segs), {'kind': 'rotation', 'segments': [gen.seg_json(s) for s in segs]})
                    seen.add(('rot', word))
    for _ in range(ctx.n(300, 10000)):
        closed = rng.random() < 0.5
        n = rng.randint(1, 8)
        segs = rand_path(rng, n, ints=rng.random() < 0.4, closed=False)
        if closed: segs[-1].points[-1] = segs[0].points[0]
        if not closed and rng.random() < 0.3:
            segs[-1].points[-1] = segs[0].points[0]              # an OPEN path that happens to end where it starts (unclosed loop)
            dist['open-but-returns-to-start'] = dist.get('open-but-returns-to-start', 0) + 1
        if closed and len(segs[-1].points) > 2 and rng.random() < 0.35:
            segs[-1].points[-2] = segs[0].points[0]          # closing curve with a retracted handle: last off-curve node == first on-curve node
            dist['retracted-closing-handle'] = dist.get('retracted-closing-handle', 0) + 1
        if closed and n >= 2 and rng.random() < 0.12:
            # a genuine but tiny closing line next to the origin: absolutely small, relatively far (4e-7 vs 0.0)
            o = P(0.0, 0.0) if rng.random() < 0.7 else P(0.0, float(rng.randint(-50, 50)))
            tiny = P(o.x + rng.choice([4e-7, 9e-7, 1e-7, -3e-7]), o.y)
            segs[0].points[0] = o; segs[-1].points[-1] = tiny
            segs.append(Line(tiny, o)); n += 1
            dist['tiny-closing-line-at-origin'] = dist.get('tiny-closing-line-at-origin', 0) + 1
        ev += 1; dist['random-paths'] = dist.get('random-paths', 0) + 1
        if n >= 2: seen.add(tuple(gen.seg_key(s) for s in segs))
        trips = rng.randint(1, 4)
        rec('C08-roundtrip', check_structure(segs, closed, trips), {'kind': 'structure', 'segments': [gen.seg_json(s) for s in segs], 'closed': closed, 'trips': trips})
        if closed and n >= 2 and len({(s.points[0].x, s.points[0].y) for s in segs}) == n:
            rec('C08-rotation', check_rotation(segs), {'kind': 'rotation', 'segments': [gen.seg_json(s) for s in segs]})
        rec('C08-svg', check_svg(segs, closed), {'kind': 'svg', 'segments': [gen.seg_json(s) for s in segs], 'closed': closed})
        if len(samples) < 2: samples.append({'segments': [gen.seg_json(s) for s in segs], 'closed': closed})
    for _ in range(ctx.n(2000, 200000) // 8):
        vals = [rand_double(rng) for _ in range(8)]
        ev += 1; dist['text-doubles'] = dist.get('text-doubles', 0) + 8
        seen.add(tuple(vals))
        rec('C08-text', check_text(vals), {'kind': 'text', 'values': [v.hex() for v in vals]})
    return {'evaluations': ev, 'distinct_nontrivial': len(seen), 'failures': fails, 'distribution': dist, 'samples': samples}


def replay(ctx, payload):
    i = payload['input']
    if i['kind'] == 'text': f = check_text([float.fromhex(v) for v in i['values']])
    else:
        segs = [gen.seg_from_json(s) for s in i['segments']]
        f = check_structure(segs, i['closed'], i['trips']) if i['kind'] == 'structure' else check_rotation(segs) if i['kind'] == 'rotation' else check_svg(segs, i['closed'])
    return {'fails': bool(f), 'observed': f}


def check_known(ctx, finding):
    return replay(ctx, {'input': finding['input']})['fails']
