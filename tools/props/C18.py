"""C18: tangent, normal and curvature agree with the exact derivatives."""
import math
import vlib, gen, ref, kernels
from beziers.point import Point

RULE = ('line/quadratic/cubic segments (families int/float/grid/collinear/big) x t in [0,1] where the speed is at least 1e-6 of the control-polygon '
        'length; reference derivatives by de Casteljau on the differenced control polygon; non-trivial = non-degenerate control polygon')
NOT_PROVED = ['floating-point error of the formulas (checked at 1e-9 relative)', 'CPython ** is libm pow: x**2 and x**1.5 are oracle values']
ASSUMPTIONS = ['libm atan2/cos/sin/pow close to the real functions']
HAND_FINGERPRINTS = []
P = Point


def correspond(ctx):
    names = []
    for c in ('Line', 'Quad', 'Cubic'):
        names += [f'{c}_tangentAtTime', f'{c}_normalAtTime', f'{c}_startAngle', f'{c}_endAngle', f'{c}_curvatureAtTime']
    names += ['Point_toUnitVector', 'Point_fromAngle', 'Point_rotated', 'Point_angle']
    return kernels.cross_check('C18', names, ctx.n(40, 700), ctx.rng)


def check(s, t):
    cps = [(p.x, p.y) for p in s.points]
    n = len(cps) - 1
    poly = sum(math.hypot(b[0] - a[0], b[1] - a[1]) for a, b in zip(cps, cps[1:]))
    d1 = ref.dbern(cps, t)
    sp = math.hypot(*d1)
    if poly == 0 or sp < 1e-6 * poly: return None
    fails = []
    tan = s.tangentAtTime(t)
    want = (d1[0] / sp, d1[1] / sp)
    if math.hypot(tan.x - want[0], tan.y - want[1]) > 1e-9: fails.append(f'tangent ({tan.x!r},{tan.y!r}) is not the unit derivative {want}')
    nor = s.normalAtTime(t)
    if math.hypot(nor.x + want[1], nor.y - want[0]) > 1e-9: fails.append(f'normal ({nor.x!r},{nor.y!r}) is not the tangent rotated 90 degrees counter-clockwise {(-want[1], want[0])}')
    def ang_ok(a, leg):
        L = math.hypot(*leg)
        if L == 0: return True
        return math.hypot(math.cos(a) - leg[0] / L, math.sin(a) - leg[1] / L) < 1e-9
    if not ang_ok(s.startAngle, (cps[1][0] - cps[0][0], cps[1][1] - cps[0][1])): fails.append('startAngle is not the direction of the first leg')
    if not ang_ok(s.endAngle, (cps[-1][0] - cps[-2][0], cps[-1][1] - cps[-2][1])): fails.append('endAngle is not the direction of the last leg')
    k = s.curvatureAtTime(t)
    if n == 1:
        if not abs(k) < 1e-12: fails.append(f'line curvature {k!r} is not negligible')
    else:
        dd = [(n * (b[0] - a[0]), n * (b[1] - a[1])) for a, b in zip(cps, cps[1:])]
        d2 = ref.dbern(dd, t)
        want_k = (d1[0] * d2[1] - d1[1] * d2[0]) / (sp ** 3)
        if abs(k - want_k) > 1e-9 * (abs(d1[0] * d2[1]) + abs(d1[1] * d2[0])) / (sp ** 3) + 1e-15: fails.append(f'curvature {k!r}, formula from exact derivatives gives {want_k!r}')
    return fails


def search(ctx):
    rng = ctx.rng
    fails, seen, dist, samples, ev = [], set(), {}, [], 0
    for _ in range(ctx.n(800, 20000)):
        s, fam = gen.segment(rng, fam=rng.choice(['int', 'float', 'grid', 'collinear', 'big']))
        t = gen.tvalue(rng)
        k = rng.random(); hist = None
        if k < 0.08:
            s = s.scaled(10.0 ** -rng.randint(6, 12)); fam = 'tiny-scaled'
        elif k < 0.16 and len(s.points) == 4:
            sz = max(abs(p.x) + abs(p.y) for p in s.points) + 1.0
            h = sz * rng.choice([5e-6, 2e-6, 8e-6])
            if rng.random() < 0.5: s[1] = P(s[0].x + h, s[0].y)
            else: s[2] = P(s[3].x - h, s[3].y)
            t = rng.choice([0.0, 1.0, t]); fam = 'short-handle'
        elif k < 0.24:
            # far from the origin with short but real legs (exact dyadic offsets): relative point comparisons must not swallow a leg
            off = 2.0 ** rng.choice([20, 24, 30]); leg = 2.0 ** rng.choice([-11, -6, -1, 2]) * (off / 2.0 ** 20 if rng.random() < 0.5 else 1.0)
            n_ = rng.choice([2, 3, 4])
            ps = [P(off, -off)]
            for j in range(1, n_): ps.append(P(ps[-1].x + leg * rng.choice([1, 2, 3]), ps[-1].y + leg * rng.choice([-1, 0, 1, 2])))
            s = gen.KINDS[n_](*ps); fam = 'far-short-legs'
        elif k < 0.30 and len(s.points) > 2:
            # a Line with a HISTORY: a piece of the flattened curve (it carries a back-pointer to the curve; it is still just a line)
            try:
                L = s.length; dd = L / rng.randint(2, 6)
                pieces = s.flatten(dd) if 1 < L < 2000 else []          # (the sampler's look-up table has one entry per unit of length)
            except Exception: pieces = []
            if len(pieces) >= 2:
                j_ = rng.randrange(len(pieces)); hist = {'parent': gen.seg_json(s), 'flatten': dd, 'piece': j_}; s = pieces[j_]; fam = 'flattened-piece'
        elif k < 0.34 and len(s.points) > 2:
            ts_ = rng.uniform(0.2, 0.8); j_ = rng.randrange(2); hist = {'parent': gen.seg_json(s), 'splitAtTime': ts_, 'piece': j_}; s = s.splitAtTime(ts_)[j_]; fam = 'split-piece'
        f = check(s, t)
        if f == [] and rng.random() < 0.25:
            f = gen.freshness(rng, s, {'tangentAtTime': lambda x: x.tangentAtTime(t), 'normalAtTime': lambda x: x.normalAtTime(t), 'curvatureAtTime': lambda x: x.curvatureAtTime(t)})
        if f is None: dist['skipped-slow'] = dist.get('skipped-slow', 0) + 1; continue
        ev += 1; dist[f'{type(s).__name__}/{fam}'] = dist.get(f'{type(s).__name__}/{fam}', 0) + 1
        seen.add((gen.seg_key(s), t))
        if len(samples) < 3: samples.append({'segment': gen.seg_json(s), 't': t})
        if f: fails.append({'class': 'C18-formula', 'what': f[0], 'input': dict({'segment': gen.seg_json(s), 't': t}, **({'history': hist} if hist else {})), 'observed': f, 'expected': 'C18 clauses at 1e-9'})
    return {'evaluations': ev, 'distinct_nontrivial': len(seen), 'failures': fails, 'distribution': dist, 'samples': samples}


def replay(ctx, payload):
    i = payload['input']
    seg = gen.seg_from_json(i['segment'])
    h = i.get('history')
    if h:        # the segment is the product of an operation on a parent curve: rebuild it the same way (it may carry state a freshly built one has not)
        par = gen.seg_from_json(h['parent'])
        seg = par.flatten(h['flatten'])[h['piece']] if 'flatten' in h else par.splitAtTime(h['splitAtTime'])[h['piece']]
    f = check(seg, i['t'])
    return {'fails': bool(f), 'observed': f}


def check_known(ctx, finding):
    return replay(ctx, {'input': finding['input']})['fails']
