"""C01: evaluation and subdivision reproduce the Bezier polynomial."""
from fractions import Fraction as Fr
import math
import vlib, gen
from beziers.point import Point

RULE = ('segments of order 2/3/4 from families int/float/grid/collinear/coincident/big(1e6)/tiny/near-coincident(1e-10 relative)/small-int, plus stale-state sequences (query, edit in place, query again vs a fresh object) x t,s in {0,1,dyadic,1/3,random}; '
        'non-trivial = control points not all equal; distinct = distinct (control polygon, t, s)')
NOT_PROVED = ['floating-point clause: PROVED (Proofs/C01float.v, Flocq) for evaluation, lerp, the control points of both split pieces and the derivative segments: binary64 result within 74*2^-53*M + 22*2^-1075 <= 1e-12*M + 2^-1070 of the real result for finite inputs with |coord| <= M <= 2^1000, t in [0,1]; the two retrace identities l(s) = B(s*t), r(s) = B(t+s(1-t)) in floating point for arbitrary s are a triangle-inequality consequence that is measured (against exact rational arithmetic), not stated as a theorem']
ASSUMPTIONS = ['Coq.Floats.FloatAxioms (the standard library specification of the primitive binary64 operations, used through Flocq IEEE754.PrimFloat) for the float-clause theorems', 'Python float = IEEE binary64 round-to-nearest; small ints meeting floats behave as the equal float',
               'translator py2v (cross-checked bit-for-bit against CPython on every run)']
HAND_FINGERPRINTS = []
PFX = {2: 'Line', 3: 'Quad', 4: 'Cubic'}


def correspond(ctx):
    """kernel cross-check: float instance of the generated definitions vs CPython, bit-exact"""
    rng = ctx.rng
    cases, meta, dist = [], [], {}
    for _ in range(ctx.n(300, 6000)):
        s, fam = gen.segment(rng)
        t = gen.tvalue(rng)
        k = len(s.points); pf = PFX[k]
        dist[f'{pf}/{fam}'] = dist.get(f'{pf}/{fam}', 0) + 1
        p = s.pointAtTime(t)
        a, b = s.splitAtTime(t)
        e = [f'pt_feq ({pf}_pointAtTime FOps {vlib.cseg(s)} {vlib.fhex(t)}) {vlib.cpt(p)}',
             f'(let \'(a, b) := {pf}_splitAtTime FOps {vlib.cseg(s)} {vlib.fhex(t)} in seg{k}_feq a {vlib.cseg(a)} && seg{k}_feq b {vlib.cseg(b)})']
        if k > 2:
            d = s.derivative()
            e.append(f'seg{k - 1}_feq ({pf}_derivative FOps {vlib.cseg(s)}) {vlib.cseg(d)}')
        cases.append('(' + ' && '.join(e) + ')')
        meta.append({'segment': gen.seg_json(s), 't': t, 'point': [p.x, p.y]})
    res = vlib.run_case_files('C01', 'kern', ['Gen.Point', 'Gen.Line', 'Gen.Quad', 'Gen.Cubic'], '', cases)
    res['distribution'] = dist
    res['samples'] = meta[:3]
    if res['failing']: res['first_disagreement'] = meta[res['failing'][0]]
    return res


def bern_exact(pts, t):
    n = len(pts) - 1
    t = Fr(t)
    x = sum(math.comb(n, i) * (1 - t) ** (n - i) * t ** i * Fr(p[0]) for i, p in enumerate(pts))
    y = sum(math.comb(n, i) * (1 - t) ** (n - i) * t ** i * Fr(p[1]) for i, p in enumerate(pts))
    return x, y


def dbern_exact(pts, t):
    n = len(pts) - 1
    d = [((Fr(pts[i + 1][0]) - Fr(pts[i][0])) * n, (Fr(pts[i + 1][1]) - Fr(pts[i][1])) * n) for i in range(n)]
    return bern_exact(d, t)


def check_one(s, t, u):
    """the property as stated, on the real implementation; returns list of failure descriptions"""
    pts = [(p.x, p.y) for p in s.points]
    scale = max(1e-300, max(abs(c) for p in pts for c in p))
    tol = 1e-12 * scale
    fails = []
    def near(p, q, what, k=1.0):
        if not (abs(Fr(p.x) - q[0]) <= k * tol and abs(Fr(p.y) - q[1]) <= k * tol):
            fails.append(f'{what}: got ({p.x!r},{p.y!r}) want ({float(q[0])!r},{float(q[1])!r}) tol {k * tol:.3g}')
    near(s.pointAtTime(t), bern_exact(pts, t), 'pointAtTime(t) vs Bernstein polynomial')
    if s.pointAtTime(0) != s.points[0] or s.pointAtTime(1) != s.points[-1]: fails.append('end points')
    near(s.pointAtTime(0), (Fr(pts[0][0]), Fr(pts[0][1])), 'pointAtTime(0) = start')
    near(s.pointAtTime(1), (Fr(pts[-1][0]), Fr(pts[-1][1])), 'pointAtTime(1) = end')
    if len(pts) > 2:
        d = s.derivative()
        near(d.pointAtTime(t), dbern_exact(pts, t), 'derivative().pointAtTime(t) vs exact derivative', k=2 * len(pts))
    a, b = s.splitAtTime(t)
    if type(a) is not type(s) or type(b) is not type(s): fails.append('split changes kind')
    pt = bern_exact(pts, t)
    near(a.points[-1], pt, 'left piece ends at point(t)'); near(b.points[0], pt, 'right piece starts at point(t)')
    near(a.points[0], bern_exact(pts, 0), 'left piece starts at start'); near(b.points[-1], bern_exact(pts, 1), 'right piece ends at end')
    near(a.pointAtTime(u), bern_exact(pts, Fr(u) * Fr(t)), 'left piece at s = original at s*t', k=2)
    near(b.pointAtTime(u), bern_exact(pts, Fr(t) + Fr(u) * (1 - Fr(t))), 'right piece at s = original at t+s(1-t)', k=2)
    return fails


def search(ctx):
    rng = ctx.rng
    fails, seen, dist, samples = [], set(), {}, []
    worst = 0.0
    n = ctx.n(400, 8000)
    for _ in range(n):
        s, fam = gen.segment(rng, fam=rng.choice(['int', 'float', 'grid', 'collinear', 'coincident', 'big', 'near', 'smallint']))
        t, u = gen.tvalue(rng), gen.tvalue(rng)
        key = (gen.seg_key(s), t, u)
        if gen.nondegenerate(s): seen.add(key)
        dist[fam] = dist.get(fam, 0) + 1
        f = check_one(s, t, u)
        if not f and rng.random() < 0.25:
            qs = {'pointAtTime': lambda x: x.pointAtTime(t), 'splitAtTime': lambda x: x.splitAtTime(t)}
            if len(s.points) > 2: qs['derivative'] = lambda x: x.derivative().pointAtTime(t)
            f = gen.freshness(rng, s, qs)
        if len(samples) < 3: samples.append({'segment': gen.seg_json(s), 't': t, 's': u})
        if f:
            fails.append({'class': 'C01-identity', 'what': f[0], 'input': {'segment': gen.seg_json(s), 't': t, 's': u}, 'observed': f, 'expected': 'Bernstein identities within 1e-12*max|coord|'})
    return {'evaluations': n, 'distinct_nontrivial': len(seen), 'failures': fails, 'distribution': dist, 'samples': samples}


def replay(ctx, payload):
    i = payload['input']
    f = check_one(gen.seg_from_json(i['segment']), i['t'], i['s'])
    return {'fails': bool(f), 'observed': f}


def check_known(ctx, finding):
    return replay(ctx, {'input': finding['input']})['fails']
