"""C17: flattening yields an on-curve polyline from start to end (Line/QuadraticBezier/CubicBezier.flatten, BezierPath.flatten)."""
import math
import vlib, gen, ref, kernels
import samplib as sl
from beziers.point import Point
from beziers.line import Line
from beziers.quadraticbezier import QuadraticBezier
from beziers.cubicbezier import CubicBezier
from beziers.path import BezierPath
from beziers.path.geometricshapes import Rectangle, Circle

RULE = ('receivers: lines, random quadratics and cubics (int and float control points), quadratics with very uneven parametrisation (control point on '
        'an end point, far beyond or behind the chord, collinear self-retracing), curves rescaled so that their length is k*d or k*d +- 1e-9..1e-3, '
        'Rectangle/Ellipse/Circle, random open and closed chains of 1..8 mixed segments, already flattened paths; steps d from {0.5, 1, 2, 8, 100, '
        'uniform [0.5,100], length/k}; vertices are located on the curve by an independent closest-parameter search; non-trivial = a curve at least d long')
NOT_PROVED = ['edge count: a curve at least d long is divided into MORE than length/(2d) edges (rests on the monotonicity/accuracy of the quadrature-based '
              'look-up table, C04/C16 not-proved clauses); measured by the search',
              'the original is not modified: the model is purely functional (flatten returns new values and cannot express mutation); the search compares '
              'repr(receiver) before and after and checks that a Line flattens to the identical object',
              'float rounding: vertices are pointAt(t) bit for bit (correspondence), the real-number theorems place them exactly on the curve']
ASSUMPTIONS = ['Python float = IEEE binary64', 'reference arc length by adaptive Gauss-Kronrod (tolerance 1e-11) is the truth']
HAND_FINGERPRINTS = [('cubicbezier.py', 'CubicBezier.flatten'), ('quadraticbezier.py', 'QuadraticBezier.flatten'), ('line.py', 'Line.flatten'),
                     ('path/__init__.py', 'BezierPath.flatten'), ('utils/samplemixin.py', 'SampleMixin.sample'),
                     ('utils/samplemixin.py', 'SampleMixin.regularSample'), ('utils/samplemixin.py', 'SampleMixin.regularSampleTValue')]
P = Point
EDGES = 'res_eqb (list_eqb edge_feq)'
FLAT = 'res_eqb flat_feq'


def corig(o): return 'None' if o is None else f'(Some {vlib.csegment(o)})'
def cedge(l): return f'({vlib.cseg(l)}, {corig(l._orig)})'
def cedges(ls): return vlib.clist([cedge(l) for l in ls])
def ctseg(s): return f'({vlib.csegment(s)}, {corig(getattr(s, "_orig", None))})'


def steps_for(rng, L):
    c = [8, rng.choice([0.5, 1, 2, 100]), rng.uniform(0.5, 100)]
    if L == L and 1 < L < 1e5:
        k = rng.randint(1, 12)
        c += [L / k, L / k + rng.choice([1e-9, -1e-9, 1e-6, -1e-6, 1e-3, -1e-3])]
    if rng.random() < 0.1: c.append(0)
    if rng.random() < 0.1: c.append(1e6)
    return [d for d in c if d == 0 or (L / d if d else 0) < 900]


def rescaled(rng, s, d):
    """the curve scaled so that its reported length is (close to) a multiple of d"""
    L = s.length
    if not (L > 1e-6): return s
    k = rng.randint(1, 20)
    target = k * d * rng.choice([1.0, 1.0, 1 + 1e-12, 1 - 1e-12, 1 + 1e-9, 1 - 1e-9, 1 + 1e-6, 1 - 1e-6])
    f = target / L
    return type(s)(*[P(p.x * f, p.y * f) for p in s.points])


def gen_curve(rng):
    fam = rng.choice(['quad', 'cubic', 'uneven-quad', 'uneven-quad', 'int-quad', 'int-cubic', 'line', 'int-line', 'peaked-cubic', 'short-cubic', 'teardrop'])
    if fam == 'teardrop': return fam, sl.teardrop(rng)
    if fam == 'peaked-cubic': return fam, sl.peaked_cubic(rng)
    if fam == 'short-cubic':
        # a few units long: the look-up table of regular sampling has only floor(length)+1 entries
        c = rng.choice([sl.peaked_cubic(rng), sl.curve(rng, 4, fam='float')])
        L = c.length
        if L > 0:
            f = rng.uniform(1, 14) / L
            c = CubicBezier(*[P(p.x * f, p.y * f) for p in c.points])
        return fam, c
    if fam == 'quad': return fam, sl.curve(rng, 3, fam='float')
    if fam == 'cubic': return fam, sl.curve(rng, 4, fam='float')
    if fam == 'int-quad': return fam, sl.curve(rng, 3, fam='int')
    if fam == 'int-cubic': return fam, sl.curve(rng, 4, fam='int')
    if fam == 'uneven-quad': return fam, sl.uneven_quad(rng)
    if fam == 'line': return fam, sl.curve(rng, 2)
    return fam, sl.int_line(rng)


def gen_path(rng):
    fam = rng.choice(['shape', 'chain-open', 'chain-closed', 'staircase', 'reflatten', 'collinear-run', 'teardrop-path'])
    if fam == 'shape': return sl.shape(rng)
    if fam == 'teardrop-path': return fam, sl.teardrop_path(rng)
    if fam == 'collinear-run':
        # a straight stem with a redundant on-curve node: two (or three) consecutive Lines continuing in the same direction, next to a curve
        a = P(float(rng.randint(-100, 100)), float(rng.randint(-100, 100))); d = P(float(rng.randint(-5, 5)), float(rng.randint(1, 40)))
        pts = [a, a + d * rng.randint(1, 6)]
        for _ in range(rng.randint(1, 2)): pts.append(pts[-1] + d * rng.randint(1, 6))
        segs = [Line(pts[i], pts[i + 1]) for i in range(len(pts) - 1)]
        e = pts[-1] + P(float(rng.randint(20, 80)), float(rng.randint(-30, 30)))
        segs.append(CubicBezier(pts[-1], pts[-1] + P(10.0, 25.0), e + P(-10.0, 25.0), e))
        q = BezierPath.fromSegments(segs); q.closed = False
        return fam, q
    if fam == 'chain-open': return fam, sl.chain(rng, rng.randint(1, 6), False)
    if fam == 'chain-closed': return fam, sl.chain(rng, rng.randint(2, 6), True)
    if fam == 'staircase': return fam, sl.staircase(rng, sl.split_int(rng, rng.choice([16, 64, 100, 256]), rng.randint(1, 6)), rng.random() < 0.5)
    return fam, sl.chain(rng, rng.randint(1, 4), rng.random() < 0.5).flatten(rng.choice([8, 20, 50.5]))    # lines that already carry an _orig


def correspond(ctx):
    rng = ctx.rng
    cases, meta, dist = [], [], {}

    def add(kind, fam, o, d, val, expr):
        cases.append(expr)
        meta.append({'op': kind, 'family': fam, 'receiver': sl.obj_json(o), 'degree': d, 'python': (val[0], repr(val[1])[:300])})
        dist[kind] = dist.get(kind, 0) + 1
        if val[0] == 'raise': dist['python-raised/' + val[1]] = dist.get('python-raised/' + val[1], 0) + 1
        elif kind != 'path.flatten' and len(val[1]) == 1 and len(o.points) > 2: dist['short-curve-chord'] = dist.get('short-curve-chord', 0) + 1

    def one_seg(fam, s):
        for d in steps_for(rng, s.length):
            v = sl.run(lambda: s.flatten(d))
            add(type(s).__name__ + '.flatten', fam, s, d, v, f'{EDGES} (seg_flatten FOps {sl.CAP} {ctseg(s)} {vlib.fhex(d)}) {sl.cres(v, cedges)}')

    fixed = [('arch', CubicBezier(P(0, 0), P(0, 100), P(100, 100), P(100, 0))), ('suite-quad', QuadraticBezier(P(150, 40), P(80, 30), P(105, 150))),
             ('point-cubic', CubicBezier(P(2, 3), P(2, 3), P(2, 3), P(2, 3))), ('point-quad', QuadraticBezier(P(2, 3), P(2, 3), P(2, 3))),
             ('int-line', Line(P(0, 0), P(16, 0)))]
    for fam, s in fixed: one_seg(fam, s)
    for _ in range(ctx.n(40, 600)):
        fam, s = gen_curve(rng)
        if rng.random() < 0.35 and len(s.points) > 2:
            s = rescaled(rng, s, rng.choice([0.5, 1, 2, 8, rng.uniform(0.5, 100)])); fam += '/rescaled'
        one_seg(fam, s)
    for fam, p in [('empty-path', BezierPath.fromSegments([])), ('rect-4x4', Rectangle(4, 4)), ('circle-50', Circle(50))] + [gen_path(rng) for _ in range(ctx.n(20, 300))]:
        for d in [8, rng.choice([0.5, 1, 2, 100, rng.uniform(0.5, 100)])]:
            if p.length / d > 1500: continue
            v = sl.run(lambda: p.flatten(d))
            rend = lambda fl: f'({cedges(fl.asSegments())}, {vlib.cbool(fl.closed)})'
            add('path.flatten', fam, p, d, v, f'{FLAT} (path_flatten FOps {sl.CAP} {vlib.clist([ctseg(s) for s in p.asSegments()])} {vlib.cbool(p.closed)} {vlib.fhex(d)}) {sl.cres(v, rend)}')
    res = vlib.run_case_files('C17', 'flatten', sl.IMPORTS, '', cases, per_file=max(10, len(cases) // 16 + 1))
    out = {'n': res['n'], 'agree': res['agree'], 'failing': res['failing'], 'errors': res['errors'], 'distribution': dist,
           'samples': meta[:2], 'kinds': {'kernels': 0, 'hand_models': 4}}
    if res['failing']: out['first_disagreement'] = [meta[i] for i in res['failing'][:3]]
    # the flatteners as REGENERATED from the source (Gen/Sample.v; equal to the hand model by Proofs/Bridge2.v)
    kernels.merge_cross_check(out, 'C17', ['Line_flatten', 'Quad_flatten', 'Cubic_flatten'], ctx.n(25, 300), ctx.rng)
    # BezierPath.flatten itself as regenerated from path/__init__.py (Gen/PathOps.v; equal to the hand model's path_flatten by Proofs/Bridge5.v)
    kernels.merge_cross_check(out, 'C17', ['Path_flatten'], ctx.n(30, 300), ctx.rng, label='regenerated-kernels-round5')
    return out


# ============================================================================================ search: the property as written
GRID = 256


class Locator:
    """independent search for the parameters at which a curve passes through a given point: every grid cell that can come
    within eps of the point (Lipschitz bound on the distance) is cut into sub-cells, each minimised by ternary search"""

    def __init__(self, s):
        self.cps = sl.cps(s)
        self.g = [ref.bern(self.cps, i / GRID) for i in range(GRID + 1)]
        self.scale = max(1.0, max(abs(c) for p in self.cps for c in p))
        n = len(self.cps) - 1
        self.maxspeed = n * max(math.hypot(b[0] - a[0], b[1] - a[1]) for a, b in zip(self.cps, self.cps[1:]))

    def dist(self, t, v):
        p = ref.bern(self.cps, t)
        return math.hypot(p[0] - v[0], p[1] - v[1])

    def _cell(self, i, v, eps, sub=4):
        """(t, distance) candidates inside grid cell i, in parameter order"""
        out = []
        for j in range(sub):
            lo, hi = (i + j / sub) / GRID, (i + (j + 1) / sub) / GRID
            a, b = lo, hi
            for _ in range(34):
                m1, m2 = a + (b - a) / 3, b - (b - a) / 3
                if self.dist(m1, v) <= self.dist(m2, v): b = m2
                else: a = m1
            t = (a + b) / 2
            cands = [(lo, self.dist(lo, v)), (t, self.dist(t, v)), (hi, self.dist(hi, v))]
            out.append(min(cands, key=lambda c: c[1]))
        return out

    def first_at_or_after(self, v, t_prev, eps):
        """smallest parameter >= t_prev - 1e-6 at which the curve is within eps of v; (None, None, best) when there is none,
        best = (t, distance) of the closest approach anywhere"""
        d = [math.hypot(p[0] - v[0], p[1] - v[1]) for p in self.g]
        slack = self.maxspeed / (2 * GRID)
        best = None
        hit = None
        for i in range(GRID):
            if min(d[i], d[i + 1]) - slack > eps: continue
            for t, dm in self._cell(i, v, eps):
                if best is None or dm < best[1]: best = (t, dm)
                if dm <= eps and t >= t_prev - 1e-6 and hit is None: hit = (t, dm)
            if hit is not None: return hit[0], hit[1], best
        if best is None:
            i = min(range(GRID + 1), key=lambda k: d[k]); best = (i / GRID, d[i])
        return None, None, best


def check_segment(s, d, loc=None, max_verts=None):
    """all clauses of C17 for one segment and one step; returns (failures, measurements)"""
    fails, meas = [], {}
    before = repr(s)
    L = s.length
    inp = {'d': d, 'length': L}
    try:
        es = s.flatten(d)
    except Exception as e:
        return [fail('C17-exception', f'flatten({d!r}) raised {type(e).__name__}: {e}', s, inp, repr(e), 'no exception')], meas
    if repr(s) != before: fails.append(fail('C17-purity', 'the receiver was modified by flatten', s, inp, repr(s), before))
    if not es: return fails + [fail('C17-ends', 'flatten returned no edge', s, inp, [], 'at least one edge')], meas
    if not all(isinstance(e, Line) for e in es): fails.append(fail('C17-chain', 'result contains a non-Line', s, inp, [type(e).__name__ for e in es][:5], 'Lines'))
    if isinstance(s, Line):
        if not (len(es) == 1 and es[0] is s): fails.append(fail('C17-line-identity', 'a line is not returned unchanged (same object)', s, inp, [repr(e) for e in es][:3], repr(s)))
        return fails, meas
    st, en = s.points[0], s.points[-1]
    if (es[0].start.x, es[0].start.y) != (st.x, st.y): fails.append(fail('C17-ends', 'the chain does not start at the curve start', s, inp, [es[0].start.x, es[0].start.y], [st.x, st.y]))
    if (es[-1].end.x, es[-1].end.y) != (en.x, en.y): fails.append(fail('C17-ends', 'the chain does not end at the curve end', s, inp, [es[-1].end.x, es[-1].end.y], [en.x, en.y]))
    for i, (a, b) in enumerate(zip(es, es[1:])):
        if (a.end.x, a.end.y) != (b.start.x, b.start.y):
            fails.append(fail('C17-chain', f'edge {i} ends at ({a.end.x!r},{a.end.y!r}) but edge {i + 1} starts at ({b.start.x!r},{b.start.y!r})', s, inp, None, 'shared vertex')); break
    for i, e in enumerate(es):
        if e._orig is not s:
            fails.append(fail('C17-origin', f'edge {i} of {len(es)} does not remember the curve as its origin (_orig = {e._orig!r})', s, inp, repr(e._orig), repr(s))); break
    if L < d:
        if len(es) != 1: fails.append(fail('C17-short-chord', f'a curve of length {L!r} < d = {d!r} became {len(es)} edges', s, inp, len(es), 1))
    else:
        meas['edges_over_bound'] = len(es) / (L / (2 * d))
        if not (len(es) > L / (2 * d)):
            cls = 'C17-edge-count'
            if isinstance(s, CubicBezier):
                # mechanism: the look-up table of regularSampleTValue has parameters 0, 1/L, 2/L, ... <= 1; when the last of them is
                # short of 1.0 and less than half of the arc lies before it, the walk runs out of table and only the final 1.0 is added
                A = sl.ArcRef(s)
                t, t_last = 0.0, 0.0
                while t <= 1.0: t_last = t; t += 1.0 / L
                inp = dict(inp, t_last=t_last, arc_to_t_last=A.to(t_last), true_length=A.total)
                if t_last < 1.0 and A.to(t_last) < 0.52 * A.total: cls = 'C17-edge-count-lookup-stops-before-half'
                # boundary case: length == 2d exactly (two samples): the table ends exactly at 1.0 and the half-length target already resolves
                # to that last entry, so no separate end point is appended: one edge, which EQUALS length/(2d) instead of exceeding it
                elif L / d == 2.0 and len(es) == 1: cls = 'C17-edge-count-length-exactly-2d'
            fails.append(fail(cls, f'a curve of length {L!r} >= d = {d!r} became {len(es)} edges, not more than length/(2d) = {L / (2 * d)!r}', s, inp, len(es), f'> {L / (2 * d)!r}'))
    # vertices on the curve, in non-decreasing parameter order
    loc = loc or Locator(s)
    eps = 1e-6 * loc.scale
    tp = 0.0
    verts = [es[0].start] + [e.end for e in es]
    idx = list(range(len(verts)))
    if max_verts and len(verts) > max_verts:
        # a subsequence (order must hold along any subsequence): both ends, a regular stride, and one run of consecutive vertices
        stride = max(1, len(verts) // (max_verts - 8))
        mid = len(verts) // 2
        idx = sorted(set([0, len(verts) - 1] + list(range(0, len(verts), stride)) + list(range(mid, min(len(verts), mid + 6)))))
    if True:
        worst = 0.0
        for i in idx:
            v = verts[i]
            t, dm, best = loc.first_at_or_after((v.x, v.y), tp, eps)
            if t is None:
                if best is not None and best[1] <= eps:
                    fails.append(fail('C17-order', f'vertex {i} lies on the curve only at parameter {best[0]!r}, before the previous vertex ({tp!r})', s, dict(inp, i=i), best[0], f'>= {tp!r}'))
                else:
                    fails.append(fail('C17-on-curve', f'vertex {i} = ({v.x!r},{v.y!r}) is {best[1] if best else None!r} away from the curve', s, dict(inp, i=i), best[1] if best else None, f'<= {eps!r}'))
                break
            worst = max(worst, dm / loc.scale); tp = max(tp, t)
        meas['worst_vertex_distance_rel'] = worst
    return fails, meas


def fail(cls, what, o, extra, observed, expected):
    return {'class': cls, 'what': what, 'input': dict(sl.obj_json(o), **extra), 'observed': observed, 'expected': expected}


def check_path(p, d):
    fails = []
    segs = list(p.asSegments())
    before = (repr(p.asSegments()), p.closed)
    origs_before = [(s_, getattr(s_, '_orig', None)) for s_ in segs]       # edges of an earlier flatten() remember their curve: flattening again must not touch that
    inp = {'d': d}
    try:
        fl = p.flatten(d)
    except Exception as e:
        return [fail('C17-exception', f'path.flatten({d!r}) raised {type(e).__name__}: {e}', p, inp, repr(e), 'no exception')]
    if (repr(p.asSegments()), p.closed) != before: fails.append(fail('C17-purity', 'the path was modified by flatten', p, inp, None, None))
    if any(getattr(s_, '_orig', None) is not o_ for s_, o_ in origs_before): fails.append(fail('C17-purity', 'flatten changed the recorded origin (_orig) of a segment of the path it was called on', p, inp, None, None))
    es = fl.asSegments()
    if fl.closed != p.closed: fails.append(fail('C17-path-closed', f'closed flag {p.closed} became {fl.closed}', p, inp, fl.closed, p.closed))
    # concatenation of the per-segment results, in order
    want = []
    for s in segs: want += s.flatten(d)
    if [repr(e) for e in es] != [repr(e) for e in want]: fails.append(fail('C17-path-concat', 'path.flatten is not the concatenation of the segments\' flatten', p, inp, len(es), len(want)))
    if segs:
        if not es: return fails + [fail('C17-ends', 'flattened path is empty', p, inp, 0, '> 0')]
        st, en = segs[0].points[0], segs[-1].points[-1]
        if (es[0].start.x, es[0].start.y) != (st.x, st.y) or (es[-1].end.x, es[-1].end.y) != (en.x, en.y):
            fails.append(fail('C17-ends', 'the flattened path does not run from the path start to the path end', p, inp, None, None))
        if all((a.points[-1].x, a.points[-1].y) == (b.points[0].x, b.points[0].y) for a, b in zip(segs, segs[1:])):
            for i, (a, b) in enumerate(zip(es, es[1:])):
                if (a.end.x, a.end.y) != (b.start.x, b.start.y):
                    fails.append(fail('C17-chain', f'flattened path: edge {i} and edge {i + 1} do not share a vertex', p, inp, None, 'shared vertex')); break
        # origins: an edge from a curve remembers that curve; a line of the path is the same object in the result
        k = 0
        for s in segs:
            n = len(s.flatten(d))
            for e in es[k:k + n]:
                if isinstance(s, Line):
                    if e is not s: fails.append(fail('C17-line-identity', 'a line of the path is not the same object in the flattened path', p, inp, repr(e), repr(s))); break
                elif e._orig is not s:
                    fails.append(fail('C17-origin', 'an edge of the flattened path does not remember its curve', p, inp, repr(e._orig), repr(s))); break
            k += n
    return fails


def steps(rng, L):
    c = [rng.choice([0.5, 1.0, 2.0, 8.0, 100.0]), rng.uniform(0.5, 100.0), rng.uniform(0.5, 5.0)]
    if L > 1:
        for _ in range(2):
            k = rng.randint(1, 12); d = L / k
            if 0.5 <= d <= 100: c += [d, d * (1 + rng.choice([1e-12, -1e-12, 1e-9, -1e-9, 1e-6, -1e-6]))]
    return [d for d in c if 0.5 <= d <= 100.0 and L / d <= 600]


def search(ctx):
    rng = ctx.rng
    fails, seen, dist, samples, measured, ev = [], set(), {}, [], {}, 0
    fixed = [('arch', CubicBezier(P(0, 0), P(0, 100), P(100, 100), P(100, 0))), ('suite-quad', QuadraticBezier(P(150, 40), P(80, 30), P(105, 150))),
             ('straight-cubic-1', CubicBezier(P(0, 0), P(1 / 3, 0), P(2 / 3, 0), P(1, 0))), ('straight-cubic-16', CubicBezier(P(0, 0), P(4, 0), P(12, 0), P(16, 0))),
             ('short-uneven-cubic', CubicBezier(P(0, 0), P(0, 0), P(0, 0), P(1.5, 0))), ('short-uneven-cubic', CubicBezier(P(0, 0), P(0, 0), P(0, 0), P(2, 0)))]
    todo = fixed + [gen_curve(rng) for _ in range(ctx.n(60, 700))]
    for fam, s in todo:
        if rng.random() < 0.4 and len(s.points) > 2 and fam not in ('arch', 'suite-quad', 'short-uneven-cubic'):
            s = rescaled(rng, s, rng.choice([0.5, 1.0, 2.0, 8.0, rng.uniform(0.5, 100)])); fam += '/length~k*d'
        L = s.length
        if not (L == L) or L > 5000: continue
        ds = steps(rng, L)
        if fam.endswith('/length~k*d'):
            # steps of which the length is (nearly) a multiple
            for d0 in (0.5, 1.0, 2.0, 8.0):
                k = L / d0
                if abs(k - round(k)) < 1e-5 and L / d0 <= 600: ds.append(d0)
        if fam.startswith('short-cubic') or fam == 'short-uneven-cubic': ds += [0.5, 1.0, rng.uniform(0.5, 1.5)]
        loc = Locator(s) if len(s.points) > 2 else None
        for d in ds:
            f, m = check_segment(s, d, loc, max_verts=60 if ctx.tier == 'thorough' else 20)
            ev += 1
            dist[fam] = dist.get(fam, 0) + 1
            if len(s.points) > 2 and L >= d: seen.add((gen.seg_key(s), d))
            if len(s.points) > 2 and L < d: dist['short-curve'] = dist.get('short-curve', 0) + 1
            for k, v in m.items():
                measured['min_' + k if k == 'edges_over_bound' else 'max_' + k] = (min if k == 'edges_over_bound' else max)(measured.get('min_' + k if k == 'edges_over_bound' else 'max_' + k, v), v)
            fails += f
        if len(samples) < 3: samples.append({'family': fam, 'segment': gen.seg_json(s), 'length': L, 'steps': ds})
    for k_ in range(ctx.n(25, 500)):
        fam, p = gen_path(rng) if k_ >= 3 else ('teardrop-path', sl.teardrop_path(rng))
        for d in [8, rng.uniform(0.5, 100)]:
            if p.length / d > 1500: continue
            fails += check_path(p, d)
            ev += 1; dist['path/' + fam] = dist.get('path/' + fam, 0) + 1
    # stale state: flatten, edit a segment of the path in place through the API, flatten again; compare with a fresh path
    import gen as _g
    for _ in range(ctx.n(25, 300)):
        fam, p = gen_path(rng)
        segs = p.asSegments()
        if not segs or p.length / 8 > 800: continue
        d = rng.choice([8, 4.0, rng.uniform(2, 30)])
        try: p.flatten(d)
        except Exception: continue
        i = rng.randrange(len(segs)); j = rng.randrange(len(segs[i].points))
        segs[i][j] = P(segs[i][j].x + rng.choice([40.0, -25.5]), segs[i][j].y + rng.choice([30.0, -12.25]))
        fresh = BezierPath.fromSegments([_g.fresh_copy(x) for x in segs]); fresh.closed = p.closed
        a = [_g.canon(x) for x in p.flatten(d).asSegments()]; b = [_g.canon(x) for x in fresh.flatten(d).asSegments()]
        ev += 1; dist['stale-state'] = dist.get('stale-state', 0) + 1
        if a != b:
            fails.append({'class': 'C17-stale-state', 'what': f'after flatten({d}); segs[{i}][{j}] = <new point>; flatten({d}) differs from flattening a fresh path with the same control points ({len(a)} vs {len(b)} edges)',
                          'input': None, 'observed': a[:2], 'expected': b[:2]})
    for _ in range(ctx.n(25, 300)):
        fam, s = gen_curve(rng)
        if len(s.points) < 3 or not (s.length == s.length) or s.length > 3000: continue
        d = rng.choice([8, rng.uniform(1, 50)])
        ff = _g.freshness(rng, s, {'flatten': lambda x: x.flatten(d)})
        ev += 1
        if ff: fails.append({'class': 'C17-stale-state', 'what': ff[0], 'input': None, 'observed': ff, 'expected': 'same as a fresh object'})
    # path-level stale state: asking must not change later answers, and an in-place edit of a segment through the path's own
    # segment list (or of its Point objects) must be seen by the next query
    import gen as _gq
    from beziers.point import Point as _PQ
    for _ in range(ctx.n(25, 500)):
        _segs = _gq.closed_contour(rng, ints=rng.random() < 0.3)
        _qp = _PQ(_segs[0][0].x + rng.uniform(-150, 150), _segs[0][0].y + rng.uniform(-150, 150))
        _ff = _gq.path_freshness(rng, _segs, {'flatten(8)': lambda p: [s.points for s in p.flatten(8).asSegments()], 'flatten(25)': lambda p: [s.points for s in p.flatten(25).asSegments()]}, closed=True, disturb=[lambda p: p.pointIsInside(_qp), lambda p: p.bounds(), lambda p: p.length, lambda p: p.area])
        ev += 1; dist['stale-state/path'] = dist.get('stale-state/path', 0) + 1
        if _ff: fails.append({'class': 'C17-stale-state', 'what': _ff[0], 'input': None, 'observed': _ff[:3], 'expected': 'the answers of a freshly built path with the same control points'})
    return {'evaluations': ev, 'distinct_nontrivial': len(seen), 'failures': fails, 'distribution': dist, 'samples': samples, 'measured': measured}


def replay(ctx, payload):
    i = payload['input']
    if i is None: return {'fails': True, 'observed': 'no concrete input recorded'}
    o = sl.obj_from_json(i)
    cls = payload.get('class', '')
    f = check_path(o, i['d']) if sl.is_path(o) else check_segment(o, i['d'])[0]
    f = [x for x in f if not cls or x['class'] == cls] or f
    return {'fails': bool(f), 'observed': [x['what'] for x in f[:3]]}


def check_known(ctx, finding):
    return replay(ctx, {'input': finding['input'], 'class': finding.get('class', '')})['fails']
