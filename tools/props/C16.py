"""C16: arc-length parametrisation is monotone, complete and evenly spaced (sample / regularSample / regularSampleTValue,
Segment.lengthAtTime, BezierPath.pointAtTime / lengthAtTime)."""
import math
import vlib, gen, ref, kernels
import samplib as sl
from beziers.point import Point
from beziers.line import Line
from beziers.quadraticbezier import QuadraticBezier
from beziers.cubicbezier import CubicBezier
from beziers.path import BezierPath
from beziers.path.geometricshapes import Rectangle

RULE = ('receivers: axis-parallel lines of exact integer / power-of-two length, random lines, quadratics, cubics, quadratics with very uneven '
        'parametrisation, staircase paths of integer lines whose total is a power of two (4..512) or an arbitrary integer, Rectangle/Ellipse/Circle, '
        'random connected open and closed chains of 1..8 mixed segments; all of total length >= 10 in the search; t from {0, 1.0, joints k/n, '
        'dyadic, random}; sample counts n from {1, 2, 3, length/4, random in [1, length/4]}; reference arc length = adaptive Gauss-Kronrod '
        '(tools/ref.py); non-trivial = receiver longer than 10 units with n >= 2')
NOT_PROVED = ['lengthAtTime non-decreasing in t up to the 2% tolerance (rests on the accuracy of the 24-point quadrature, C04 not-proved clause); measured',
              'consecutive arc-length gaps of regular sampling equal length/n within 5% + two lookup steps (same reason); measured',
              'STRICT increase of the parameters returned by regular sampling: refuted on the faithful float model (C16_regular_not_strict_refuted) '
              'for paths with one dominant segment; proved instead: non-decreasing, first exactly 0, last exactly 1, all in [0,1]',
              'termination / absence of exceptions in FLOAT arithmetic (the no_raise theorems are over R with the stated fuel bound; the float loops '
              'are exercised bit-exactly by the correspondence, including lengths where the stepping lands exactly on 1.0)']
ASSUMPTIONS = ['Python float = IEEE binary64; Python ints meeting floats (t = 0, pointAtTime(1), len(segs), math.floor) behave as the equal float',
               'reference arc length by adaptive Gauss-Kronrod (tolerance 1e-11) is the truth']
HAND_FINGERPRINTS = [('utils/samplemixin.py', 'SampleMixin.sample'), ('utils/samplemixin.py', 'SampleMixin.regularSample'),
                     ('utils/samplemixin.py', 'SampleMixin.regularSampleTValue'), ('path/__init__.py', 'BezierPath.pointAtTime'),
                     ('path/__init__.py', 'BezierPath.lengthAtTime'), ('path/__init__.py', 'BezierPath.length')]
P = Point
PT = 'res_eqb pt_feq'
FL = 'res_eqb feq'
PTS = 'res_eqb (list_eqb pt_feq)'
FLS = 'res_eqb (list_eqb feq)'


def counts_for(rng, L):
    """sample counts: ints, floats (flatten passes length/degree), and the degenerate 0"""
    top = max(1, int(L / 4)) if L == L and L < 1e6 else 3
    c = [1, 2, 3, top, rng.randint(1, top), rng.uniform(1, max(1.0001, L / 4 if L == L and L < 1e6 else 2.0))]
    if rng.random() < 0.15: c.append(0)
    if rng.random() < 0.15: c.append(L / 8.0 if L == L and 8 <= L < 1e6 else 2.5)
    return c


def tvalues(rng, o):
    n = len(sl.segs_of(o)) if sl.is_path(o) else 1
    ts = [0.0, 1.0, 0, 1, rng.random(), rng.random(), rng.choice([0.5, 0.25, 0.75, 0.125])]
    if n > 1:
        k = rng.randint(1, n - 1)
        ts += [k / n, math.nextafter(k / n, 0.0), math.nextafter(k / n, 1.0), (n - 1) / n]
    ts += [math.nextafter(1.0, 0.0)]
    if rng.random() < 0.3: ts += [rng.choice([-0.25, -1e-9, 1.0000000000000002, 1.5, 2.0, -1.0, -3.5, float('nan'), float('inf'), float('-inf'), 1e300])]
    return ts


def correspond(ctx):
    rng = ctx.rng
    cases, meta, dist = [], [], {}

    def add(kind, fam, o, arg, val, expr):
        cases.append(expr)
        meta.append({'op': kind, 'family': fam, 'receiver': sl.obj_json(o), 'arg': arg, 'python': (val[0], repr(val[1])[:300])})
        key = f'{kind}/{"path" if sl.is_path(o) else "segment"}'
        dist[key] = dist.get(key, 0) + 1
        if val[0] == 'raise': dist['python-raised/' + val[1]] = dist.get('python-raised/' + val[1], 0) + 1

    def one(fam, o):
        L = o.length
        pre = 'path' if sl.is_path(o) else 'seg'
        R = sl.crecv(o)
        if L > 3000: return
        for n in counts_for(rng, L):
            if n > 700: continue
            r = rng.random()
            if r < 0.4:
                v = sl.run(lambda: o.regularSampleTValue(n))
                add('regularSampleTValue', fam, o, n, v, f'{FLS} ({pre}_regularSampleTValue FOps {sl.CAP} {R} {vlib.fhex(n)}) {sl.cres(v, sl.cfloats)}')
            elif r < 0.7:
                v = sl.run(lambda: o.sample(n))
                add('sample', fam, o, n, v, f'{PTS} ({pre}_sample FOps {sl.CAP} {R} {vlib.fhex(n)}) {sl.cres(v, sl.cpts)}')
            else:
                v = sl.run(lambda: o.regularSample(n))
                add('regularSample', fam, o, n, v, f'{PTS} ({pre}_regularSample FOps {sl.CAP} {R} {vlib.fhex(n)}) {sl.cres(v, sl.cpts)}')
        if sl.is_path(o):
            for t in tvalues(rng, o):
                v = sl.run(lambda: o.pointAtTime(t))
                add('pointAtTime', fam, o, t, v, f'{PT} (path_pointAtTime FOps {R} {vlib.fhex(t)}) {sl.cres(v, vlib.cpt)}')
                v = sl.run(lambda: o.lengthAtTime(t))
                add('lengthAtTime', fam, o, t, v, f'{FL} (path_lengthAtTime FOps {R} {vlib.fhex(t)}) {sl.cres(v, vlib.fhex)}')

    # fixed corpus: the stepping lands exactly on 1.0 (D8's trigger), the empty path, zero-length receivers
    fixed = [('rect-4x4', Rectangle(4, 4)), ('rect-2x2', Rectangle(2, 2)), ('rect-16x16', Rectangle(16, 16)), ('rect-64x64', Rectangle(64, 64)),
             ('int-line-16', Line(P(0, 0), P(16, 0))), ('int-line-256', Line(P(3, -5), P(3, 251))), ('int-line-64', Line(P(0, 0), P(-64, 0))),
             ('dominant-path', BezierPath.fromSegments([Line(P(a, 0), P(b, 0)) for a, b in zip([0, 46, 47, 48, 49], [46, 47, 48, 49, 50])])),
             ('empty-path', BezierPath.fromSegments([])), ('point-line', Line(P(1, 1), P(1, 1))),
             ('point-cubic', CubicBezier(P(2, 3), P(2, 3), P(2, 3), P(2, 3)))]
    for fam, o in fixed: one(fam, o)
    o = Rectangle(512, 512); v = sl.run(lambda: o.regularSampleTValue(7))    # length 2048: 2049 look-up entries
    add('regularSampleTValue', 'rect-512x512', o, 7, v, f'{FLS} (path_regularSampleTValue FOps {sl.CAP} {sl.crecv(o)} {vlib.fhex(7)}) {sl.cres(v, sl.cfloats)}')
    for _ in range(ctx.n(26, 400)):
        fam, o, _s = sl.receiver(rng)
        one(fam, o)
    res = vlib.run_case_files('C16', 'sample', sl.IMPORTS, '', cases, per_file=max(20, len(cases) // 16 + 1))
    out = {'n': res['n'], 'agree': res['agree'], 'failing': res['failing'], 'errors': res['errors'], 'distribution': dist,
           'samples': meta[:2], 'kinds': {'kernels': 0, 'hand_models': 5}}
    if res['failing']: out['first_disagreement'] = [meta[i] for i in res['failing'][:3]]
    # the same loops as REGENERATED from the source (Gen/Sample.v; equal to the hand model by Proofs/Bridge2.v), bit for bit incl. exceptions
    kernels.merge_cross_check(out, 'C16', ['Line_sample', 'Line_regularSampleTValue', 'Quad_sample', 'Quad_regularSampleTValue', 'Quad_regularSample', 'Cubic_sample',
                                           'Cubic_regularSampleTValue', 'Cubic_regularSample', 'Path_length', 'Path_pointAtTime', 'Path_lengthAtTime', 'Path_sample',
                                           'Path_regularSampleTValue', 'Path_regularSample'], ctx.n(12, 150), ctx.rng)
    return out


# ============================================================================================ search: the property as written
MIN_LEN = 10.0


def gen_receiver(rng):
    """receivers of the quantifier: segments and open/closed paths of total length >= 10, with emphasis on integer / power-of-two lengths"""
    for _ in range(50):
        r = rng.random()
        if r < 0.10: fam, o = 'dominant-path', sl.dominant_path(rng, rng.random() < 0.5)
        elif r < 0.18: fam, o = 'peaked-cubic', sl.peaked_cubic(rng)
        elif r < 0.24: fam, o = 'teardrop', sl.teardrop(rng)
        elif r < 0.28: fam, o = 'teardrop-path', sl.teardrop_path(rng)
        else: fam, o, _ = sl.receiver(rng)
        L = o.length
        if L == L and MIN_LEN <= L <= 700: return fam, o
    return 'int-line', Line(P(0, 0), P(64, 0))


def counts(rng, L):
    top = int(L / 4)
    c = {1, top, rng.randint(1, top), rng.randint(1, top)}
    if top >= 2: c.add(2)
    return sorted(c)


def params(rng, o):
    n = len(sl.segs_of(o)) if sl.is_path(o) else 1
    ts = {0.0, 1.0, 0.5, 0.25, 0.75, math.nextafter(1.0, 0.0), 1e-9}
    for _ in range(6): ts.add(rng.random())
    for k in range(1, n): ts.update([k / n, math.nextafter(k / n, 0.0), math.nextafter(k / n, 1.0)])
    return sorted(ts)


def fail(cls, what, o, extra, observed, expected):
    return {'class': cls, 'what': what, 'input': dict(sl.obj_json(o), **extra), 'observed': observed, 'expected': expected}


def check_length_and_eval(o, ts, A=None):
    """clauses 1 and 2: lengthAtTime 0 / full / non-decreasing; path evaluation formula, continuity, end"""
    fails, meas = [], {}
    A = A or sl.ArcRef(o)
    L = o.length
    sc = A.scale()
    try:
        vals = [(t, o.lengthAtTime(t)) for t in ts]
    except Exception as e:
        return [fail('C16-exception', f'lengthAtTime raised {type(e).__name__}: {e}', o, {'ts': ts}, repr(e), 'no exception for t in [0,1]')], meas
    v0, v1 = o.lengthAtTime(0.0), o.lengthAtTime(1.0)
    if abs(v0) > 1e-9 * max(1.0, L): fails.append(fail('C16-length-ends', f'lengthAtTime(0) = {v0!r}, expected 0', o, {'t': 0.0}, v0, 0.0))
    if abs(v1 - L) > 1e-9 * max(1.0, L): fails.append(fail('C16-length-ends', f'lengthAtTime(1.0) = {v1!r}, length = {L!r}', o, {'t': 1.0}, v1, L))
    true = [A.to(t) for t in ts]
    worst = 0.0
    for i in range(len(vals)):
        for j in range(i + 1, len(vals)):
            drop = vals[i][1] - vals[j][1]
            tol = 0.02 * (true[i] + true[j]) + 1e-9 * max(1.0, L)
            if drop > 0: worst = max(worst, drop / max(1e-12, true[i] + true[j]))
            if drop > tol:
                fails.append(fail('C16-length-monotone', f'lengthAtTime({vals[i][0]!r}) = {vals[i][1]!r} > lengthAtTime({vals[j][0]!r}) = {vals[j][1]!r} beyond 2%',
                                  o, {'t1': vals[i][0], 't2': vals[j][0]}, [vals[i][1], vals[j][1]], 'non-decreasing up to 2% of the arc lengths'))
                break
        else: continue
        break
    meas['worst_monotonicity_drop_rel'] = worst
    # evaluation formula (segments: plain evaluation) and continuity
    try:
        for t in ts:
            p = o.pointAtTime(t); q = A.point(t)
            if math.hypot(p.x - q[0], p.y - q[1]) > 1e-9 * sc:
                k, u = A.locate(t)
                fails.append(fail('C16-eval-formula', f'pointAtTime({t!r}) = ({p.x!r},{p.y!r}) but segment {k} at {u!r} is {q!r}', o, {'t': t}, [p.x, p.y], list(q)))
                break
        e = sl.segs_of(o)[-1].points[-1]; p1 = o.pointAtTime(1.0)
        if (p1.x, p1.y) != (e.x, e.y): fails.append(fail('C16-eval-end', f'pointAtTime(1.0) = ({p1.x!r},{p1.y!r}) is not the end ({e.x!r},{e.y!r})', o, {'t': 1.0}, [p1.x, p1.y], [e.x, e.y]))
        if connected(o):
            n = A.n
            speed = max(ref.speed(c, u) for c in A.cps for u in (0.0, 0.5, 1.0)) * max(1, n) + 1.0
            for t in ts:
                for h in (1e-9, -1e-9):
                    t2 = t + h
                    if not (0.0 <= t2 <= 1.0): continue
                    a, b = o.pointAtTime(t), o.pointAtTime(t2)
                    if math.hypot(a.x - b.x, a.y - b.y) > 10 * speed * abs(h) + 1e-9 * sc:
                        fails.append(fail('C16-eval-continuity', f'jump of {math.hypot(a.x - b.x, a.y - b.y)!r} between t = {t!r} and {t2!r}', o, {'t': t, 't2': t2}, [[a.x, a.y], [b.x, b.y]], 'continuous'))
                        return fails, meas
    except Exception as e:
        fails.append(fail('C16-exception', f'pointAtTime raised {type(e).__name__}: {e}', o, {'ts': ts}, repr(e), 'no exception for t in [0,1]'))
    return fails, meas


def connected(o):
    segs = sl.segs_of(o)
    return all((a.points[-1].x, a.points[-1].y) == (b.points[0].x, b.points[0].y) for a, b in zip(segs, segs[1:]))


def check_regular(o, n, A=None, lookup=None):
    """clause 3: regular sampling with n samples"""
    fails, meas = [], {}
    A = A or sl.ArcRef(o)
    L = o.length
    try:
        ts = o.regularSampleTValue(n)
        pts = o.regularSample(n)
    except Exception as e:
        return [fail('C16-exception', f'regularSample(TValue)({n}) raised {type(e).__name__}: {e}', o, {'n': n, 'length': L}, repr(e), 'no exception')], meas
    if not ts or not (ts[0] == 0 and isinstance(ts[0], (int, float))):
        fails.append(fail('C16-regular-ends', f'first parameter is {ts[:1]!r}, expected exactly 0', o, {'n': n}, ts[:3], 0.0))
    if not ts or ts[-1] != 1.0:
        fails.append(fail('C16-regular-ends', f'last parameter is {ts[-1:]!r}, expected exactly 1.0', o, {'n': n}, ts[-3:], 1.0))
    if len(pts) != len(ts): fails.append(fail('C16-regular-ends', 'regularSample and regularSampleTValue disagree in length', o, {'n': n}, [len(pts), len(ts)], 'equal'))
    if lookup is None: lookup = A.lookup_step(L)
    meas['lookup_step'] = lookup
    bad = [i for i in range(len(ts) - 1) if not ts[i] < ts[i + 1]]
    if bad:
        i = bad[0]
        coarse = lookup > L / n
        cls = 'C16-regular-repeat-lookup-coarser-than-spacing' if (coarse and ts[i] == ts[i + 1]) else 'C16-regular-not-strict'
        fails.append(fail(cls, f'parameters not strictly increasing: ts[{i}] = {ts[i]!r}, ts[{i + 1}] = {ts[i + 1]!r} ({len(bad)} such pairs; one lookup step covers '
                               f'{lookup:.4g} units, the spacing length/n is {L / n:.4g})', o, {'n': n, 'lookup_step': lookup, 'spacing': L / n}, [ts[i], ts[i + 1]], 'strictly increasing'))
    target = L / n
    tol = 0.05 * target + 2 * lookup + 1e-9 * max(1.0, L)
    worst = 0.0
    arcs = [A.to(t) for t in ts]
    for i in range(len(ts) - 2):          # every consecutive gap except the last
        gap = arcs[i + 1] - arcs[i]
        worst = max(worst, (abs(gap - target) - 2 * lookup) / target)
        if abs(gap - target) > tol:
            fails.append(fail('C16-regular-spacing', f'arc between parameters {i} and {i + 1} is {gap!r}, expected {target!r} +- 5% + 2 x {lookup:.4g}', o, {'n': n, 'i': i}, gap, target))
            break
    meas['worst_spacing_excess_rel'] = worst
    return fails, meas


def check_sample(o, n, A=None):
    """clause 4: plain sampling returns points in parameter order from the start to the end"""
    A = A or sl.ArcRef(o)
    sc = A.scale()
    try:
        pts = o.sample(n)
    except Exception as e:
        return [fail('C16-exception', f'sample({n}) raised {type(e).__name__}: {e}', o, {'n': n}, repr(e), 'no exception')]
    fails = []
    s, e = sl.segs_of(o)[0].points[0], sl.segs_of(o)[-1].points[-1]
    if not pts or (pts[0].x, pts[0].y) != (s.x, s.y): fails.append(fail('C16-sample-ends', 'first sample is not the start', o, {'n': n}, [pts[0].x, pts[0].y] if pts else None, [s.x, s.y]))
    if not pts or (pts[-1].x, pts[-1].y) != (e.x, e.y): fails.append(fail('C16-sample-ends', 'last sample is not the end', o, {'n': n}, [pts[-1].x, pts[-1].y] if pts else None, [e.x, e.y]))
    if not (n + 1 <= len(pts) <= n + 2): fails.append(fail('C16-sample-order', f'{len(pts)} points for {n} samples', o, {'n': n}, len(pts), [n + 1, n + 2]))
    for i, p in enumerate(pts[:-1]):
        q = A.point(min(1.0, i / n))
        if math.hypot(p.x - q[0], p.y - q[1]) > 1e-6 * sc * max(1, A.n):
            fails.append(fail('C16-sample-order', f'sample {i} = ({p.x!r},{p.y!r}) is not the point at parameter {i}/{n} = {q!r}', o, {'n': n, 'i': i}, [p.x, p.y], list(q)))
            break
    return fails


def check_all(o, ns, ts, with_spacing=True):
    A = sl.ArcRef(o)
    fails, meas = check_length_and_eval(o, ts, A)
    lookup = A.lookup_step(o.length) if with_spacing else None
    for n in ns:
        f, m = check_regular(o, n, A, lookup)
        fails += f
        for k, v in m.items(): meas[k] = max(meas.get(k, 0.0), v)
        fails += check_sample(o, n, A)
    return fails, meas


def search(ctx):
    rng = ctx.rng
    fails, seen, dist, samples, measured, ev = [], set(), {}, [], {}, 0
    fixed = [('rect-4x4', Rectangle(4, 4)), ('rect-16x16', Rectangle(16, 16)), ('rect-64x64', Rectangle(64, 64)), ('int-line-16', Line(P(0, 0), P(16, 0))),
             ('int-line-256', Line(P(0, 0), P(0, 256))), ('rect-3x2', Rectangle(3, 2))]
    todo = fixed + [('teardrop', sl.teardrop(rng)) for _ in range(2)] + [('teardrop-path', sl.teardrop_path(rng)) for _ in range(2)] + [gen_receiver(rng) for _ in range(ctx.n(45, 900))]
    # exhaustive over small integer lengths: every staircase split of total 10..40 into <= 2 lines, every n <= length/4
    for tot in ([10, 12, 16, 20, 32] if ctx.tier != 'thorough' else range(10, 41)):
        for a in {1, tot // 2, tot - 1}:
            todo.append(('int-total', sl.staircase(rng, [a, tot - a] if 0 < a < tot else [tot])))
    for fam, o in todo:
        L = o.length
        if not (L >= MIN_LEN): continue
        ns = counts(rng, L) if fam != 'int-total' else list(range(1, int(L / 4) + 1))
        ts = params(rng, o)
        f, m = check_all(o, ns, ts)
        ev += len(ns) * 3 + 2 * len(ts)
        dist[fam] = dist.get(fam, 0) + 1
        key = 'integer-length' if L == int(L) else 'other-length'
        dist[key] = dist.get(key, 0) + 1
        if L == int(L) and int(L) & (int(L) - 1) == 0: dist['power-of-two-length'] = dist.get('power-of-two-length', 0) + 1
        if max(ns) >= 2: seen.add((fam, round(L, 6), tuple(ns)))
        if len(samples) < 3: samples.append({'family': fam, 'receiver': sl.obj_json(o), 'length': L, 'n': ns})
        for k, v in m.items(): measured[k] = max(measured.get(k, 0.0), v)
        fails += f
    # ask, edit in place, ask again: lengths and samplings must be those of a freshly built object with the same control points
    import gen as _g
    from beziers.path import BezierPath as _BP
    for _ in range(ctx.n(40, 800)):
        s0 = _g.segment(rng, order=rng.choice([3, 4]), fam='float')[0]
        if not (s0.length >= MIN_LEN): continue
        n = max(1, int(s0.length / 8))
        qs = {'length': lambda x: x.length, 'lengthAtTime(1.0)': lambda x: x.lengthAtTime(1.0), 'lengthAtTime(0.5)': lambda x: x.lengthAtTime(0.5),
              'regularSampleTValue': lambda x: x.regularSampleTValue(n)}
        ff = _g.freshness(rng, s0, qs)
        ev += 1; dist['stale-state/segment'] = dist.get('stale-state/segment', 0) + 1
        if ff: fails.append({'class': 'C16-stale-state', 'what': ff[0], 'input': None, 'observed': ff[:3], 'expected': 'the answers of a freshly constructed segment with the same control points'})
        # the same through a path: measure, round() in place, measure again
        segs = [_g.fresh_copy(s0)]
        path = _BP.fromSegments(segs); path.closed = False
        try:
            path.length; path.lengthAtTime(1.0)
            path.round()
            fresh = _BP.fromSegments([_g.fresh_copy(x) for x in path.asSegments()]); fresh.closed = False
            a = (path.length, path.lengthAtTime(1.0), path.lengthAtTime(0.5)); b = (fresh.length, fresh.lengthAtTime(1.0), fresh.lengthAtTime(0.5))
        except Exception as e:
            a, b = ('raised', type(e).__name__), None
        ev += 1; dist['stale-state/path-round'] = dist.get('stale-state/path-round', 0) + 1
        if a != b: fails.append({'class': 'C16-stale-state', 'what': f'after length queries and round(), (length, lengthAtTime(1.0), lengthAtTime(0.5)) = {a} but a fresh path with the same segments gives {b}',
                                 'input': None, 'observed': [a, b], 'expected': 'equal'})
    # path-level stale state: asking must not change later answers, and an in-place edit of a segment through the path's own
    # segment list (or of its Point objects) must be seen by the next query
    import gen as _gq
    from beziers.point import Point as _PQ
    for _ in range(ctx.n(25, 500)):
        _segs = _gq.closed_contour(rng, ints=rng.random() < 0.3)
        _qp = _PQ(_segs[0][0].x + rng.uniform(-150, 150), _segs[0][0].y + rng.uniform(-150, 150))
        _ff = _gq.path_freshness(rng, _segs, {'length': lambda p: p.length, 'lengthAtTime(1.0)': lambda p: p.lengthAtTime(1.0), 'lengthAtTime(0.37)': lambda p: p.lengthAtTime(0.37), 'pointAtTime(0.61)': lambda p: p.pointAtTime(0.61)}, closed=True, disturb=[lambda p: p.pointIsInside(_qp), lambda p: p.bounds(), lambda p: p.length, lambda p: p.area])
        ev += 1; dist['stale-state/path'] = dist.get('stale-state/path', 0) + 1
        if _ff: fails.append({'class': 'C16-stale-state', 'what': _ff[0], 'input': None, 'observed': _ff[:3], 'expected': 'the answers of a freshly built path with the same control points'})
    return {'evaluations': ev, 'distinct_nontrivial': len(seen), 'failures': fails, 'distribution': dist, 'samples': samples, 'measured': measured}


def replay(ctx, payload):
    i = payload['input']
    if i is None: return {'fails': True, 'observed': 'no concrete input recorded'}
    o = sl.obj_from_json(i)
    cls = payload.get('class', '')
    if 'n' in i:
        f, _ = check_regular(o, i['n']); f += check_sample(o, i['n'])
    else:
        ts = i.get('ts') or [x for x in (i.get('t'), i.get('t1'), i.get('t2')) if x is not None] + [0.0, 1.0]
        f, _ = check_length_and_eval(o, sorted(set(ts)))
    f = [x for x in f if not cls or x['class'] == cls] or f
    return {'fails': bool(f), 'observed': [x['what'] for x in f[:3]]}


def check_known(ctx, finding):
    return replay(ctx, {'input': finding['input'], 'class': finding.get('class', '')})['fails']
