"""C09: affine maps commute with evaluation and compose in call order."""
import math
import vlib, gen, kernels
from beziers.point import Point
from beziers.affinetransformation import AffineTransformation
from beziers.path import BezierPath

RULE = ('segment (families int/float/grid/collinear/big) x call sequence of length 0..8 over translate/rotate/scale(fx[,fy])/reflect with '
        'arbitrary arguments incl. zero and negative factors x t; identities checked at 1e-9*scale; non-trivial = non-degenerate segment and non-empty call list')
NOT_PROVED = ['floating-point error of the identities (checked at 1e-9 relative by the search)', 'libm cos/sin/atan2 are oracle values in the correspondence']
ASSUMPTIONS = ['libm results are close to the real functions', 'Python float = IEEE binary64']
HAND_FINGERPRINTS = [('path/__init__.py', 'BezierPath.translate'), ('path/__init__.py', 'BezierPath.rotate'), ('path/__init__.py', 'BezierPath.scale')]
P = Point


def correspond(ctx):
    names = ['Affine_apply', 'Affine_apply_backwards', 'Affine_translation', 'Affine_translate', 'Affine_scaling', 'Affine_scale',
             'Affine_reflect', 'Affine_rotation', 'Affine_rotate', 'Affine_invert', 'Point_transformed', 'Point_rotated', 'Point_fromAngle',
             'Point_angle', 'Point_toUnitVector', 'Point_magnitude']
    for c in ('Line', 'Quad', 'Cubic'):
        names += [f'{c}_translated', f'{c}_rotated', f'{c}_scaled', f'{c}_transformed', f'{c}_alignmentTransformation', f'{c}_aligned']
    return kernels.cross_check('C09', names, ctx.n(12, 200), ctx.rng)


def rand_calls(rng, invertible=False):
    calls = []
    for _ in range(rng.randint(0, 8)):
        k = rng.choice('TRSF')
        if k == 'T': calls.append(('translate', rng.uniform(-200, 200), rng.uniform(-200, 200)))
        elif k == 'R': calls.append(('rotate', rng.choice([rng.uniform(-7, 7), math.pi / 2, math.pi, -math.pi / 3])))
        elif k == 'S':
            fx = rng.choice([2.0, 0.5, -1.0, rng.uniform(-3, 3)] + ([] if invertible else [0.0]))
            fy = rng.choice([None, 3.0, rng.uniform(-3, 3), -2.0] + ([] if invertible else [0.0]))
            if invertible and (abs(fx) < 0.2 or (fy is not None and abs(fy) < 0.2)): fx, fy = 2.0, None
            calls.append(('scale', fx, fy))
        else: calls.append(('reflect',))
    return calls


def build(calls):
    m = AffineTransformation()
    for c in calls:
        if c[0] == 'translate': m.translate(P(c[1], c[2]))
        elif c[0] == 'rotate': m.rotate(c[1])
        elif c[0] == 'scale': m.scale(c[1], c[2])
        else: m.reflect()
    return m


def act(c, p):
    x, y = p
    if c[0] == 'translate': return (x + c[1], y + c[2])
    if c[0] == 'rotate': return (x * math.cos(c[1]) - y * math.sin(c[1]), x * math.sin(c[1]) + y * math.cos(c[1]))
    if c[0] == 'scale': return (c[1] * x, (c[1] if c[2] is None else c[2]) * y)
    return (-x, y)


def check(s, calls, t, centre, angle, k):
    fails = []
    mag = max(1.0, max(abs(v) for p in s.points for v in (p.x, p.y)))
    def near(a, b, what, scale):
        ax, ay = (a.x, a.y) if hasattr(a, 'x') else a
        bx, by = (b.x, b.y) if hasattr(b, 'x') else b
        if not (abs(ax - bx) <= 1e-9 * scale and abs(ay - by) <= 1e-9 * scale):
            fails.append(f'{what}: ({ax!r},{ay!r}) vs ({bx!r},{by!r})')
    m = build(calls)
    # growth of the map for the tolerance scale
    g = max(1.0, max(abs(v) for r in m.matrix[:2] for v in r))
    sc = mag * g * 4 + max(abs(m.matrix[0][2]), abs(m.matrix[1][2]))
    p = s.pointAtTime(t)
    near(s.transformed(m).pointAtTime(t), p.transformed(m), 'transformed then evaluated vs evaluated then transformed', sc)
    # call order: matrix action = fold of the primitive actions
    q = (p.x, p.y)
    for c in calls: q = act(c, q)
    near(p.transformed(m), q, 'matrix built by successive calls vs primitive actions in call order', sc)
    v = P(centre.x * 0.5, centre.y * -0.25)
    near(s.translated(v).pointAtTime(t), p + v, 'translated commutes', mag + abs(v.x) + abs(v.y))
    near(s.scaled(k).pointAtTime(t), p * k, 'scaled commutes', mag * max(1, abs(k)))
    rp = s.rotated(centre, angle).pointAtTime(t)
    dx, dy = p.x - centre.x, p.y - centre.y
    want = (centre.x + dx * math.cos(angle) - dy * math.sin(angle), centre.y + dx * math.sin(angle) + dy * math.cos(angle))
    rs = mag + abs(centre.x) + abs(centre.y)
    near(rp, want, 'rotated segment = rigid ccw rotation about the centre', rs)
    near(centre.rotated(centre, angle), centre, 'rotation fixes its centre', rs)
    # paths
    path = BezierPath.fromSegments([s.clone()]); path.closed = False
    near(path.clone().translate(v).asSegments()[0].pointAtTime(t), p + v, 'path.translate', mag + abs(v.x) + abs(v.y))
    near(path.clone().scale(k).asSegments()[0].pointAtTime(t), p * k, 'path.scale', mag * max(1, abs(k)))
    near(path.clone().rotate(centre, angle).asSegments()[0].pointAtTime(t), want, 'path.rotate', rs)
    # inverse
    det = m.matrix[0][0] * m.matrix[1][1] - m.matrix[0][1] * m.matrix[1][0]
    if abs(det) > 1e-3 * g * g:
        mi = AffineTransformation([list(r) for r in m.matrix]); mi.invert()
        near(p.transformed(m).transformed(mi), p, 'map followed by its inverse', sc * max(1.0, g / abs(det)) * g)
    # alignment
    al = s.aligned()
    chord = s.start.distanceFrom(s.end)
    # (the aligned coordinates are computed with one cancellation at the magnitude of the coordinates: measured worst error of the unchanged code
    # 2.3e-13 of that magnitude over 20 000 segments at magnitudes 1 .. 1e10 with chords 1e-6 .. 1e3; 1e-11 leaves a factor 40)
    near(al.start, (0.0, 0.0), 'aligned start at origin', mag * 1e-2)
    near(al.end, (chord, 0.0), 'aligned end on the x-axis at the chord length', mag * 1e-2)
    return fails


def search(ctx):
    rng = ctx.rng
    n = ctx.n(500, 15000)
    fails, seen, dist, samples = [], set(), {}, []
    for _ in range(n):
        s, fam = gen.segment(rng, fam=rng.choice(['int', 'float', 'grid', 'collinear', 'big']))
        calls = rand_calls(rng)
        t = gen.tvalue(rng)
        centre = P(rng.uniform(-300, 300), rng.uniform(-300, 300)); angle = kernels.g_angle(rng); k = rng.choice([0.0, -1.0, 2.0, rng.uniform(-3, 3)])
        dist[f'{fam}/{len(calls)}calls'] = dist.get(f'{fam}/{len(calls)}calls', 0) + 1
        if gen.nondegenerate(s) and calls: seen.add((gen.seg_key(s), tuple(calls), t))
        if len(samples) < 3: samples.append({'segment': gen.seg_json(s), 'calls': calls, 't': t})
        f = check(s, calls, t, centre, angle, k)
        if f: fails.append({'class': 'C09-identity', 'what': f[0], 'input': {'segment': gen.seg_json(s), 'calls': calls, 't': t, 'centre': [centre.x, centre.y], 'angle': angle, 'k': k}, 'observed': f, 'expected': 'identities of C09 within 1e-9*scale'})
    # segments far from the origin whose chord is tiny against the coordinates (1e-10.5 .. 1e-9.2 of them) but far above the rounding of the alignment
    for _ in range(ctx.n(60, 1500)):
        mg = 10.0 ** rng.uniform(2, 10); ch = mg * 10.0 ** rng.uniform(-10.5, -9.2)
        a = P(rng.choice([-1, 1]) * rng.uniform(0.3, 1) * mg, rng.choice([-1, 1]) * rng.uniform(0.3, 1) * mg)
        d = P(rng.uniform(-1, 1) * ch, rng.uniform(-1, 1) * ch)
        k_ = rng.choice([2, 3, 4]); s = gen.KINDS[k_](a, *[a + P(rng.uniform(-1, 1) * ch, rng.uniform(-1, 1) * ch) for _ in range(k_ - 2)], a + d)
        al = s.aligned(); chord = s.start.distanceFrom(s.end); tol = 1e-11 * mg
        n += 1; dist['far-short-chord/align'] = dist.get('far-short-chord/align', 0) + 1
        if chord > 20 * tol and max(abs(al.start.x), abs(al.start.y), abs(al.end.x - chord), abs(al.end.y)) > tol:
            fails.append({'class': 'C09-identity', 'what': f'aligned: start {al.start} end {al.end}, expected (0,0) and ({chord!r},0) within {tol:.3g}', 'input': None, 'observed': repr(al), 'expected': 'start at the origin, end on the x-axis at the chord length'})
    # paths built by the shape constructors (which share Point objects between neighbouring segments), transformed directly
    from beziers.path.geometricshapes import Ellipse, Rectangle
    for _ in range(ctx.n(20, 300)):
        a, b = rng.uniform(20, 400), rng.uniform(20, 400)
        mk = (lambda: Ellipse(a, b)) if rng.random() < 0.6 else (lambda: Rectangle(a, b))
        centre = P(rng.uniform(-100, 100), rng.uniform(-100, 100)); ang = rng.uniform(-3, 3)
        orig = mk(); moved = mk().rotate(centre, ang)
        for s0, s1 in zip(orig.asSegments(), moved.asSegments()):
            for p0, p1 in zip(s0.points, s1.points):
                dx, dy = p0.x - centre.x, p0.y - centre.y
                wx, wy = centre.x + dx * math.cos(ang) - dy * math.sin(ang), centre.y + dx * math.sin(ang) + dy * math.cos(ang)
                if abs(p1.x - wx) > 1e-7 * (1 + a + b) or abs(p1.y - wy) > 1e-7 * (1 + a + b):
                    fails.append({'class': 'C09-identity', 'what': f'path.rotate on a constructor-built shape moved control point ({p0.x},{p0.y}) to ({p1.x},{p1.y}), expected ({wx},{wy})', 'input': {'shape': [a, b], 'centre': [centre.x, centre.y], 'angle': ang}, 'observed': [p1.x, p1.y], 'expected': [wx, wy]})
                    break
            else: continue
            break
    # paths whose segments SHARE Point objects in other patterns than neighbour-to-neighbour (retracted handles written CubicBezier(a, a, b, b), a control
    # point object reused by two segments), moved in place: translating / scaling / rotating the path must commute with evaluation
    from beziers.path import BezierPath as _BP
    from beziers.cubicbezier import CubicBezier as _CB
    from beziers.line import Line as _LN
    for _ in range(ctx.n(40, 600)):
        a, b, c, d = [P(rng.uniform(-200, 200), rng.uniform(-200, 200)) for _ in range(4)]
        pat = rng.choice(['retracted', 'reused-control', 'same-object-twice'])
        if pat == 'retracted': segs = [_CB(a, a, b, b), _LN(b, c), _CB(c, d, d, a)]
        elif pat == 'reused-control': segs = [_CB(a, d, d, b), _CB(b, d, c, c), _LN(c, a)]
        else: segs = [_LN(a, b), _CB(b, c, d, a), _LN(a, b)]
        path = _BP.fromSegments(segs)
        ts = [0.0, 0.3, 0.5, 0.8, 1.0]
        before = [[(s_.pointAtTime(t).x, s_.pointAtTime(t).y) for t in ts] for s_ in path.asSegments()]
        op = rng.choice(['translate', 'scale', 'rotate'])
        v = P(rng.uniform(-50, 50), rng.uniform(-50, 50)); kk = rng.choice([2.0, -0.5, 1.5]); ang = rng.uniform(-3, 3)
        if op == 'translate': path.translate(v); f_ = lambda x, y: (x + v.x, y + v.y)
        elif op == 'scale': path.scale(kk); f_ = lambda x, y: (x * kk, y * kk)
        else: path.rotate(v, ang); f_ = lambda x, y: (v.x + (x - v.x) * math.cos(ang) - (y - v.y) * math.sin(ang), v.y + (x - v.x) * math.sin(ang) + (y - v.y) * math.cos(ang))
        after = [[(s_.pointAtTime(t).x, s_.pointAtTime(t).y) for t in ts] for s_ in path.asSegments()]
        bad = [(b0, a0) for bs, as_ in zip(before, after) for b0, a0 in zip(bs, as_) if abs(f_(*b0)[0] - a0[0]) > 1e-7 * 500 or abs(f_(*b0)[1] - a0[1]) > 1e-7 * 500]
        dist['shared-points/' + pat] = dist.get('shared-points/' + pat, 0) + 1
        if bad or len(after) != len(before):
            fails.append({'class': 'C09-identity', 'what': f'path.{op} on a path whose segments share Point objects ({pat}): a point of the curve moved from {bad[0][0] if bad else None} to {bad[0][1] if bad else None}, not to its image',
                          'input': {'shared_points': pat, 'op': op}, 'observed': bad[:2], 'expected': 'every point of the path is mapped to its image'})
    # invertible maps with a tiny determinant (uniform and non-uniform small scalings): the inverse must still undo them
    for _ in range(ctx.n(40, 600)):
        sx = 10 ** rng.uniform(-7, -2); sy = rng.choice([sx, 10 ** rng.uniform(-7, -2)])
        calls = [('scale', sx, sy), ('translate', rng.uniform(-5, 5), rng.uniform(-5, 5))]
        if rng.random() < 0.5: calls.insert(0, ('rotate', rng.uniform(-3, 3)))
        m = build(calls); mi = AffineTransformation([list(r) for r in m.matrix]); mi.invert()
        p = P(rng.uniform(-300, 300), rng.uniform(-300, 300))
        q = p.transformed(m).transformed(mi)
        if not (abs(q.x - p.x) <= 1e-6 * (1 + abs(p.x)) + 1e-6 and abs(q.y - p.y) <= 1e-6 * (1 + abs(p.y)) + 1e-6):
            fails.append({'class': 'C09-identity', 'what': f'map followed by its inverse is not the identity for the invertible map {calls} (det {sx * sy:.3g}): ({p.x},{p.y}) -> ({q.x},{q.y})', 'input': {'invert_calls': calls, 'point': [p.x, p.y]}, 'observed': [q.x, q.y], 'expected': [p.x, p.y]})
    # scale axes, explicitly including zero factors
    for fx, fy in [(2.0, 0.0), (0.0, 3.0), (-1.5, 0.0), (2.0, None), (0.0, None), (1.0, -1.0)]:
        q = P(3.0, 4.0).transformed(AffineTransformation.scaling(fx, fy))
        want = (fx * 3.0, (fx if fy is None else fy) * 4.0)
        if (q.x, q.y) != want:
            fails.append({'class': 'C09-identity', 'what': f'scaling({fx},{fy}) maps (3,4) to ({q.x},{q.y}), expected {want}', 'input': {'scaling': [fx, fy]}, 'observed': [q.x, q.y], 'expected': want})
    return {'evaluations': n + 6, 'distinct_nontrivial': len(seen), 'failures': fails, 'distribution': dist, 'samples': samples}


def replay(ctx, payload):
    i = payload['input']
    if 'shape' in i or 'shared_points' in i:
        return {'fails': True, 'observed': 'shape / shared-points transform replay: rerun the search with the same seed'}
    if 'invert_calls' in i:
        m = build([tuple(c) for c in i['invert_calls']]); mi = AffineTransformation([list(r) for r in m.matrix]); mi.invert()
        p = P(*i['point']); q = p.transformed(m).transformed(mi)
        bad = not (abs(q.x - p.x) <= 1e-6 * (1 + abs(p.x)) + 1e-6 and abs(q.y - p.y) <= 1e-6 * (1 + abs(p.y)) + 1e-6)
        return {'fails': bad, 'observed': [q.x, q.y]}
    if 'scaling' in i:
        fx, fy = i['scaling']
        q = P(3.0, 4.0).transformed(AffineTransformation.scaling(fx, fy))
        ok = (q.x, q.y) == (fx * 3.0, (fx if fy is None else fy) * 4.0)
        return {'fails': not ok, 'observed': [q.x, q.y]}
    f = check(gen.seg_from_json(i['segment']), [tuple(c) for c in i['calls']], i['t'], P(*i['centre']), i['angle'], i['k'])
    return {'fails': bool(f), 'observed': f}


def check_known(ctx, finding):
    return replay(ctx, {'input': finding['input']})['fails']
