"""C03: extreme finding is exact and adding extremes makes segments monotone."""
import math
from fractions import Fraction as Fr
import vlib, gen, ref, kernels
from beziers.point import Point
from beziers.line import Line
from beziers.quadraticbezier import QuadraticBezier
from beziers.cubicbezier import CubicBezier
from beziers.path import BezierPath

RULE = ('segments: quadratics and cubics with integer / grid-aligned / float control points, plus curves whose derivative in one coordinate is '
        'linear (cubic with vanishing t^3 term, degree-elevated quadratic, symmetric arch) or constant (coordinate linear in t or constant), an '
        'extremum placed at 0.2%..0.99% or 99.01%..99.8% of the parameter range, a double zero of the derivative; paths: connected open and closed '
        'chains of 1..8 such segments and lines (same three coordinate families), some containing the same segment value twice; every resulting '
        'segment is sampled at 401 parameters plus its own exact critical points; non-trivial = a curved segment with a non-degenerate control polygon')
NOT_PROVED = ['floating-point placement of the cuts (theorems are over the reals: a cut misplaced by 1 ulp leaves a back-track of O(ulp^2)); measured',
              'cubics whose derivative has a leading coefficient in the band 0 < |a| <= 1e-9 |b| (quadraticRoots then solves the truncated linear equation): '
              'monotonicity up to the 0.06% tolerance is now proved WITHOUT the genuineness hypothesis (Proofs/C03band.v: piece_monotone_total, addExtremes_monotone_total); only the EXACT '
              'variants (exact set of extremes, exactly monotone pieces) still need `genuine`, and are false in the band (cubic_findExtremes_exact_needs_genuine)',
              'whole-path monotonicity when the same segment value occurs twice: refuted (splitAtPoints_duplicate_refuted, addExtremes_duplicate_refuted); known finding D14']
ASSUMPTIONS = ['Python float = IEEE binary64', 'dict lookup by segment value = numerical equality of all coordinates (no 64-bit hash collision between 1e-9-close tuples, no NaN coordinates)']
HAND_FINGERPRINTS = [('path/__init__.py', 'BezierPath.splitAtPoints'), ('path/__init__.py', 'BezierPath.addExtremes'),
                     ('segment.py', 'Segment.__eq__'), ('segment.py', 'Segment.__hash__'), ('point.py', 'Point.__hash__')]
GOLDEN_FINGERPRINTS = {'path/__init__.py:BezierPath.splitAtPoints': '38d18ff1ee6ed9d2', 'path/__init__.py:BezierPath.addExtremes': '66eb2632b61d4d9d',
                       'segment.py:Segment.__eq__': 'd819c7b26d05b684', 'segment.py:Segment.__hash__': '15b48420655f67a5', 'point.py:Point.__hash__': 'e1e21b872447fdf0'}
P = Point
FAMS = ['int', 'grid', 'float', 'big']
DUP_CLASS = 'C03-duplicate-segment-value'


# ----------------------------------------------------------------------------------------------- generators
def fam_point(rng, fam):
    if fam == 'int': return P(float(rng.randint(-500, 500)), float(rng.randint(-500, 500)))
    if fam == 'grid': return P(float(rng.randint(-5, 5) * 100), float(rng.randint(-5, 5) * 100))
    if fam == 'big': return P(rng.uniform(-20000, 20000), rng.uniform(-20000, 20000))      # relative tests must not be absolute ones
    return P(rng.uniform(-1000, 1000), rng.uniform(-1000, 1000))


SHAPES = ['line', 'quad', 'quad', 'cubic', 'cubic', 'cubic', 'quad-const', 'cubic-lin', 'cubic-lin', 'cubic-const', 'cubic-elev', 'sliver', 'double']


def edge(rng, fam, a, b, shape=None):
    """a segment from a to b; shapes put one coordinate's derivative into the special sets of the property"""
    shape = shape or rng.choice(SHAPES)
    a, b = a.clone(), b.clone()
    r = lambda: fam_point(rng, fam)
    k = rng.randrange(2)                                  # the coordinate that is made special
    if shape in ('sliver', 'double') and (a.x, a.y)[k] == (b.x, b.y)[k]: k = 1 - k
    v0, v3 = (a.x, b.x) if k == 0 else (a.y, b.y)
    if shape in ('sliver', 'double') and v0 == v3: shape = 'cubic'      # both coordinates return to their start: no room for the construction
    def mk(vals, other):                                  # control points from the special coordinate's values and ordinary points
        return [P(v, o.y) if k == 0 else P(o.x, v) for v, o in zip(vals, other)]
    if shape == 'line': return shape, Line(a, b)
    if shape == 'quad': return shape, QuadraticBezier(a, r(), b)
    if shape == 'cubic': return shape, CubicBezier(a, r(), r(), b)
    if shape == 'quad-const':                             # coordinate linear in t: its derivative is constant
        return shape, QuadraticBezier(*mk([v0, (v0 + v3) / 2, v3], [a, r(), b]))
    if shape == 'cubic-const':
        return shape, CubicBezier(*mk([v0, v0 + (v3 - v0) / 3, v0 + 2 * (v3 - v0) / 3, v3], [a, r(), r(), b]))
    if shape == 'cubic-lin':                              # t^3 term of the coordinate vanishes: v3 - 3 v2 + 3 v1 - v0 = 0
        v2 = (r().x if k == 0 else r().y)
        v1 = v2 - (v3 - v0) / 3
        return shape, CubicBezier(*mk([v0, v1, v2, v3], [a, r(), r(), b]))
    if shape == 'cubic-elev': return shape, QuadraticBezier(a, r(), b).toCubicBezier()
    if shape == 'sliver':                                 # coordinate v(t) = v0 + c((t - ts)^2 - ts^2): extremum at ts inside an end sliver
        ts = rng.choice([0.005, 0.995, 0.002, 0.0099, 0.9901, 0.998])
        c = (v3 - v0) / (1 - 2 * ts)
        q = QuadraticBezier(*mk([v0, v0 - c * ts, v3], [a, r(), b]))
        return shape, (q if rng.random() < 0.5 else q.toCubicBezier())
    # double zero of the coordinate's derivative: v(t) = v0 + c((t - t0)^3 + t0^3)
    t0 = rng.choice([0.5, 0.25, rng.uniform(0.1, 0.9)])
    den = (1 - t0) ** 3 + t0 ** 3
    c = (v3 - v0) / den
    c1, c2 = 3 * c * t0 * t0, -3 * c * t0
    return 'double', CubicBezier(*mk([v0, v0 + c1 / 3, v0 + 2 * c1 / 3 + c2 / 3, v3], [a, r(), r(), b]))


def gen_path(rng, dup=None):
    """(family, closed, segments, shapes): a connected chain; closed chains return to the first node"""
    fam = rng.choice(FAMS)
    closed = rng.random() < 0.5
    n = rng.randint(1, 8)
    dup = (rng.random() < 0.06) if dup is None else dup
    if dup:
        # the same segment value twice: A -> B by s, back by another segment, A -> B by s again (and back once more when closed)
        A, B = fam_point(rng, fam), fam_point(rng, fam)
        sh, s = edge(rng, fam, A, B, rng.choice(['quad', 'cubic', 'cubic-lin']))
        segs = [s, edge(rng, fam, B, A)[1], s.clone()]
        if closed: segs.append(edge(rng, fam, B, A)[1])
        return fam, closed, segs, [sh, '*', sh] + (['*'] if closed else [])
    nodes = [fam_point(rng, fam) for _ in range(n)]
    nodes.append(nodes[0] if closed else fam_point(rng, fam))
    out, shapes = [], []
    for i in range(n):
        sh, s = edge(rng, fam, nodes[i], nodes[i + 1])
        out.append(s); shapes.append(sh)
    return fam, closed, out, shapes


def pts(s): return [(p.x, p.y) for p in s.points]
def path_json(closed, segs): return {'closed': closed, 'segments': [gen.seg_json(s) for s in segs]}
def vkey(s): return (len(s.points),) + tuple((p.x + 0.0, p.y + 0.0) for p in s.points)      # -0.0 and 0.0 are one key
def has_duplicate_value(segs):
    ks = [vkey(s) for s in segs]
    return len(set(ks)) < len(ks)


def run_split(closed, segs, splitlist):
    """the real splitAtPoints on a fresh path; None when it raised ZeroDivisionError"""
    path = BezierPath.fromSegments([s.clone() for s in segs]); path.closed = closed
    try:
        path.splitAtPoints(splitlist)
    except ZeroDivisionError:
        return None, path
    return path.asSegments(), path


# ----------------------------------------------------------------------------------------------- correspondence
def coq_expected(out):
    return 'None' if out is None else '(Some ' + vlib.clist([vlib.csegment(s) for s in out]) + ')'


def gen_splitlist(rng, fam, segs):
    """arbitrary requests: unsorted, repeated parameters, parameters below 1e-8 (also negative), 1.0 and beyond, segments not in the path"""
    sl = []
    pool = list(segs)
    for _ in range(rng.randint(0, 10)):
        s = rng.choice(pool)
        s = s.clone() if rng.random() < 0.5 else s                 # same value, different object
        if rng.random() < 0.12: s = edge(rng, fam, fam_point(rng, fam), fam_point(rng, fam))[1]   # not in the path
        r = rng.random()
        if r < 0.55: t = rng.random()
        elif r < 0.65: t = rng.choice([0.5, 0.25, 0.75])
        elif r < 0.75 and sl: t = rng.choice(sl)[1]                 # a parameter already requested (maybe for another segment)
        elif r < 0.85: t = rng.choice([0.0, 1e-9, 9.999e-9, 1e-8, 1.0000001e-8, -0.25, -0.0])
        elif r < 0.92: t = rng.choice([1.0, 1.0, 1.5, 0.9999999999])
        else: t = sl[-1][1] + rng.choice([1e-9, 1e-12, 3e-9]) if sl else 0.3
        sl.append((s, float(t)))
    return sl


def correspond(ctx):
    rng = ctx.rng
    names = ['Quad_findExtremes', 'Cubic_findExtremes_False', 'utils_quadraticRoots', 'Quad__findDRoots', 'Cubic__findDRoots',
             'Path_splitAtPoints', 'Path_addExtremes']      # the last two: the split walk as regenerated from the source (Proofs/Bridge3.v)
    res = kernels.cross_check('C03', names, ctx.n(40, 600), rng)
    cases, meta, dist = [], [], {'X_splitAtTime': 0, 'splitAtPoints': 0, 'splitAtPoints-raises': 0, 'addExtremes': 0, 'duplicate-value paths': 0}
    # X_splitAtTime (kernels.cross_check cannot format pair results): parameters as the walk produces them, also outside [0,1]
    for _ in range(ctx.n(90, 1500)):
        fam = rng.choice(FAMS)
        sh, s = edge(rng, fam, fam_point(rng, fam), fam_point(rng, fam))
        t = rng.choice([gen.tvalue(rng), rng.random(), rng.uniform(-0.5, 1.5), 1e-8])
        a, b = s.clone().splitAtTime(t)
        k = len(s.points); pf = {2: 'Line', 3: 'Quad', 4: 'Cubic'}[k]
        cases.append(f"(let '(a, b) := {pf}_splitAtTime FOps {vlib.cseg(s)} {vlib.fhex(t)} in seg{k}_feq a {vlib.cseg(a)} && seg{k}_feq b {vlib.cseg(b)})")
        meta.append({'fn': pf + '_splitAtTime', 'segment': gen.seg_json(s), 't': t, 'python': [gen.seg_json(a), gen.seg_json(b)]})
        dist['X_splitAtTime'] += 1
    for _ in range(ctx.n(160, 2500)):
        fam, closed, segs, shapes = gen_path(rng, dup=rng.random() < 0.15)
        sl = gen_splitlist(rng, fam, segs)
        out, _ = run_split(closed, segs, sl)
        csegs = vlib.clist([vlib.csegment(s) for s in segs])
        csl = vlib.clist([f'({vlib.csegment(s)}, {vlib.fhex(t)})' for s, t in sl])
        cases.append(f'res_segs_feq (splitAtPoints FOps {csegs} {csl}) {coq_expected(out)}')
        meta.append({'fn': 'splitAtPoints', 'path': path_json(closed, segs), 'splitlist': [[gen.seg_json(s), t] for s, t in sl],
                     'python': None if out is None else [gen.seg_json(s) for s in out]})
        dist['splitAtPoints'] += 1; dist['splitAtPoints-raises'] += out is None; dist['duplicate-value paths'] += has_duplicate_value(segs)
    for _ in range(ctx.n(160, 2500)):
        fam, closed, segs, shapes = gen_path(rng)
        path = BezierPath.fromSegments([s.clone() for s in segs]); path.closed = closed
        path.addExtremes()
        out = path.asSegments()
        csegs = vlib.clist([vlib.csegment(s) for s in segs])
        cases.append(f'res_segs_feq (addExtremes FOps {csegs}) {coq_expected(out)}')
        meta.append({'fn': 'addExtremes', 'path': path_json(closed, segs), 'python': [gen.seg_json(s) for s in out]})
        dist['addExtremes'] += 1; dist['duplicate-value paths'] += has_duplicate_value(segs)
    r2 = vlib.run_case_files('C03', 'split', ['Gen.Point', 'Gen.Line', 'Gen.Quad', 'Gen.Cubic', 'Hand.Split'], '', cases, per_file=60)
    out = {'n': res['n'] + r2['n'], 'agree': res['agree'] + r2['agree'], 'failing': res['failing'] + r2['failing'], 'errors': res['errors'] + r2['errors'],
           'distribution': dict(res['distribution'], **dist), 'samples': res['samples'] + [{k: v for k, v in meta[0].items() if k != 'python'}],
           'kinds': {'kernels': len(names) + 3, 'hand_models': 2}}
    if r2['failing']: out['first_disagreement'] = [meta[i] for i in r2['failing'][:3]]
    elif res['failing']: out['first_disagreement'] = res.get('first_disagreement')
    return out


# ----------------------------------------------------------------------------------------------- oracle: extremes
T_TOL = 1e-9
NEAR_DOUBLE = Fr(1, 10 ** 12)        # |disc| / max(b^2, |4ac|) below this: the two zeros are closer than float root finding resolves


def ref_sign_changes(cps):
    """exact sign-change parameters of x' and y' on the whole real line: list of (t as Fraction, coordinate), and the list of
    coordinates whose derivative is a numerically double-rooted quadratic"""
    n = len(cps) - 1
    out, ill = [], []
    for k in (0, 1):
        ws = [n * (Fr(b[k]) - Fr(a[k])) for a, b in zip(cps, cps[1:])]
        roots, rel = ref.sign_change_roots(ref.power_coeffs(ws))
        # a numerically double-rooted derivative is ill-conditioned in floats and excused -- except when the double root is EXACT and the
        # control values are small integers: then the float discriminant is computed exactly (0.0) and no extreme may be reported
        exact_int = all(float(p[k]).is_integer() and abs(p[k]) < 1e6 for p in cps)
        if rel is not None and abs(rel) < NEAR_DOUBLE and not (rel == 0 and exact_int): ill.append(k)
        out += [(r, k) for r in roots]
    return sorted(out), ill


def check_extremes(s):
    """first sentence: the extremes list is exactly the set of sign-change parameters of x' / y' in [0.01, 0.99] (1e-9 in t)"""
    ex = s.findExtremes()
    if len(s.points) == 2:
        return ([f'a line reports extremes {ex!r}'] if ex else []), {}
    refs, ill = ref_sign_changes(pts(s))
    fails, info = [], {}
    if ill:
        info['near-double'] = 1
        refs = [(r, k) for r, k in refs if k not in ill]
    lo, hi = Fr(1, 100), Fr(99, 100)
    tol = Fr(T_TOL)
    for t in ex:
        if not (0.01 <= t <= 0.99): fails.append(f'reported extreme {t!r} is outside [0.01, 0.99]'); continue
        if any(abs(Fr(t) - r) <= tol for r, _ in refs): continue
        if ill: continue                                  # may belong to the ill-conditioned coordinate
        fails.append(f'reported extreme {t!r} is not a sign change of x\' or y\' (exact sign changes: {[float(r) for r, _ in refs]})')
    for r, k in refs:
        exact_rim = (r == lo or r == hi) and all(float(p[k]).is_integer() and abs(p[k]) < 1e6 for p in pts(s))
        if not (lo + tol <= r <= hi - tol) and not exact_rim: continue      # on the rim of the window: either answer is within tolerance --
        # except when the root is EXACTLY 1/100 or 99/100 on small-integer control values: the window is closed, it must be reported
        if not any(abs(Fr(t) - r) <= tol for t in ex):
            fails.append(f'{"xy"[k]}\' changes sign at t={float(r)!r} inside [0.01, 0.99] but the extremes list is {ex!r}')
    return fails, info


# ----------------------------------------------------------------------------------------------- oracle: addExtremes
def backtrack(vals):
    """(least back-track over the two directions) of a sampled coordinate: 0 iff the samples are monotone"""
    inc = dec = 0.0
    mx = mn = vals[0]
    for v in vals[1:]:
        inc = max(inc, mx - v); dec = max(dec, v - mn)
        mx = max(mx, v); mn = min(mn, v)
    return min(inc, dec)


def piece_samples(cps):
    ts = [i / 400 for i in range(401)]
    if len(cps) > 2:
        n = len(cps) - 1
        for k in (0, 1):
            ws = [n * (Fr(b[k]) - Fr(a[k])) for a, b in zip(cps, cps[1:])]
            ts += [float(r) for r in ref.sign_change_roots(ref.power_coeffs(ws))[0] if 0 < r < 1]
    return sorted(ts)


def param_of_point(cps, p, t0):
    """parameter near t0 at which the curve passes through p: Newton on (B(t)-p).B'(t)"""
    t = t0
    for _ in range(60):
        b = ref.bern(cps, t); d = ref.dbern(cps, t)
        h = 1e-6
        f = (b[0] - p[0]) * d[0] + (b[1] - p[1]) * d[1]
        b2 = ref.bern(cps, t + h); d2 = ref.dbern(cps, t + h)
        f2 = (b2[0] - p[0]) * d2[0] + (b2[1] - p[1]) * d2[1]
        if f2 == f: break
        step = f * h / (f2 - f)
        t -= step
        if abs(step) < 1e-15: break
    return t


def match_group(s, group, scale):
    """the pieces of `group` must retrace s over consecutive parameter windows 0 = c0 < c1 < ... < ck = 1; returns (fails, cuts)"""
    cps = pts(s)
    tol = 1e-7 * scale
    if any(len(g.points) != len(cps) for g in group): return ['a piece has a different kind than the segment it was cut from'], None
    if len(group) == 1:
        if pts(group[0]) != cps: return [f'unsplit segment changed: {pts(group[0])} vs {cps}'], None
        return [], [0.0, 1.0]
    cand = [float(r) for r, _ in ref_sign_changes(cps)[0] if 0 < r < 1] + [t for t in s.findExtremes()]
    cuts = [0.0]
    for g in group[:-1]:
        e = (g.points[-1].x, g.points[-1].y)
        best = min(cand, key=lambda t: math.dist(ref.bern(cps, t), e)) if cand else 0.5
        if math.dist(ref.bern(cps, best), e) > 1e-3 * tol: best = param_of_point(cps, e, best)
        cuts.append(best)
    cuts.append(1.0)
    fails = []
    # equal consecutive cuts are a zero-length piece (a numerically double root of the derivative reported twice): same trace, same order
    if any(not (a <= b) for a, b in zip(cuts, cuts[1:])): fails.append(f'cut parameters are not in order: {cuts}')
    for j, g in enumerate(group):
        a, b = cuts[j], cuts[j + 1]
        want = ref.subdivide(cps, Fr(a), Fr(b))
        got = pts(g)
        err = max(max(abs(float(w[0]) - q[0]), abs(float(w[1]) - q[1])) for w, q in zip(want, got))
        if err > tol: fails.append(f'piece {j} is not the sub-curve on [{a!r},{b!r}] of its segment: control points off by {err:.3g}')
        for i in range(9):                                 # sample both
            u = i / 8
            d = math.dist(ref.bern(got, u), ref.bern(cps, a + u * (b - a)))
            if d > tol: fails.append(f'piece {j} at u={u} is {d:.3g} away from the original at t={a + u * (b - a)!r}'); break
    return fails, cuts


def check_path(closed, segs):
    """second and third sentence on the real addExtremes"""
    info = {}
    path = BezierPath.fromSegments([s.clone() for s in segs]); path.closed = closed
    ret = path.addExtremes()
    out = path.asSegments()
    fails = []
    if ret is not path: fails.append('addExtremes did not return the path')
    if path.closed != closed: fails.append(f'closedness changed: {closed} -> {path.closed}')
    allc = [v for s in segs for p in pts(s) for v in p]
    scale = max(1.0, max(abs(v) for v in allc))
    if pts(out[0])[0] != pts(segs[0])[0]: fails.append(f'start moved: {pts(out[0])[0]} vs {pts(segs[0])[0]}')
    if pts(out[-1])[-1] != pts(segs[-1])[-1]: fails.append(f'end moved: {pts(out[-1])[-1]} vs {pts(segs[-1])[-1]}')
    for i, (a, b) in enumerate(zip(out, out[1:])):
        if pts(a)[-1] != pts(b)[0]: fails.append(f'chain broken between resulting segments {i} and {i + 1}: {pts(a)[-1]} vs {pts(b)[0]}')
    if closed and pts(segs[-1])[-1] == pts(segs[0])[0] and pts(out[-1])[-1] != pts(out[0])[0]: fails.append('closed chain no longer returns to its start')
    # groups: every original node must still be a node, in order; each original is replaced by a run of pieces that retrace it
    pos = 0
    worst = 0.0
    for si, s in enumerate(segs):
        cps = pts(s)
        if pos >= len(out): fails.append(f'no resulting segment left for original segment {si}'); break
        if pts(out[pos])[0] != cps[0]: fails.append(f'original node {cps[0]} (start of segment {si}) is not a node of the result at its place'); break
        ends = [k for k in range(pos, len(out)) if pts(out[k])[-1] == cps[-1]]
        if not ends: fails.append(f'original node {cps[-1]} (end of segment {si}) is no longer a node'); break
        gf = None
        for k in ends[:4]:
            group = out[pos:k + 1]
            gf, cuts = match_group(s, group, scale)
            if not gf: break
        if gf: fails += [f'segment {si}: ' + x for x in gf[:2]]; break
        pos = k + 1
        # monotone up to 0.06% of the original extent
        for j, g in enumerate(group):
            gp = pts(g)
            ts = piece_samples(gp)
            for c in (0, 1):
                ext = max(p[c] for p in cps) - min(p[c] for p in cps)
                bt = backtrack([ref.bern(gp, t)[c] for t in ts])
                allow = 6e-4 * ext + 1e-9 * scale
                if ext > 1e-6 * scale: worst = max(worst, bt / ext)
                if bt > allow:
                    fails.append(f'resulting segment {pos - len(group) + j} (piece {j} of original {si}, t in [{cuts[j]!r},{cuts[j + 1]!r}]) back-tracks in '
                                 f'{"xy"[c]} by {bt!r} > 0.06% of the original extent {ext!r}')
    else:
        if pos != len(out): fails.append(f'{len(out) - pos} extra segments after the last original segment')
    info['worst_backtrack_over_extent'] = worst
    info['pieces'] = len(out)
    return fails, info


def classify(segs):
    return DUP_CLASS if has_duplicate_value(segs) else 'C03-path'


# ----------------------------------------------------------------------------------------------- search
def search(ctx):
    rng = ctx.rng
    fails, seen, dist, samples, ev = [], set(), {}, [], 0
    measured = {'near_double_derivative': 0, 'worst_backtrack_over_extent': 0.0, 'segments_with_cuts': 0, 'duplicate_value_paths': 0, 'duplicate_value_paths_failing': 0}
    for _ in range(ctx.n(400, 10000)):
        fam = rng.choice(FAMS)
        sh, s = edge(rng, fam, fam_point(rng, fam), fam_point(rng, fam))
        if rng.random() < 0.12:
            # a coordinate whose derivative has an EXACT double zero (integer control values: hodograph coefficients m^2 s, -m n s, n^2 s):
            # the derivative touches zero without changing sign, so no extreme may be reported there
            m, n, sc = rng.randint(1, 4), rng.randint(1, 4), 3 * rng.randint(1, 30) * rng.choice([-1, 1])
            d0, d1, d2 = m * m * sc, -m * n * sc, n * n * sc
            v0 = rng.randint(-200, 200)
            vals = [v0, v0 + d0 // 3, v0 + (d0 + d1) // 3, v0 + (d0 + d1 + d2) // 3]
            oth = [rng.randint(-300, 300) for _ in range(4)]
            k = rng.randrange(2)
            s = CubicBezier(*[P(float(v), float(o)) if k == 0 else P(float(o), float(v)) for v, o in zip(vals, oth)]); sh = 'double-exact'; fam = 'int'
        if rng.random() < 0.06:
            # quadratic whose x-extreme is at exactly t = 1/100 or 99/100: control values (0,-1,98) / (0,-99,-98), scaled by an integer
            k = rng.randint(1, 5) * rng.choice([-1, 1]); xs = rng.choice([(0, -1, 98), (0, -99, -98), (98, -1, 0), (-98, -99, 0)])
            oth = [rng.randint(-300, 300) for _ in range(3)]; kk = rng.randrange(2)
            s = QuadraticBezier(*[P(float(k * v), float(o)) if kk == 0 else P(float(o), float(k * v)) for v, o in zip(xs, oth)]); sh = 'extreme-on-window-rim'; fam = 'int'
        ev += 1
        dist[f'segment/{fam}/{sh}'] = dist.get(f'segment/{fam}/{sh}', 0) + 1
        if len(s.points) > 2 and gen.nondegenerate(s): seen.add(gen.seg_key(s))
        f, info = check_extremes(s)
        measured['near_double_derivative'] += info.get('near-double', 0)
        if len(samples) < 1: samples.append({'segment': gen.seg_json(s), 'extremes': s.findExtremes()})
        if f: fails.append({'class': 'C03-extremes', 'what': f[0], 'input': {'segment': gen.seg_json(s)}, 'observed': f,
                            'expected': 'extremes = sign changes of x\' or y\' inside [0.01,0.99] (1e-9 in t); none for a line'})
    for _ in range(ctx.n(150, 3000)):
        fam, closed, segs, shapes = gen_path(rng)
        ev += 1
        dup = has_duplicate_value(segs)
        key = f'path/{fam}/{"closed" if closed else "open"}' + ('/duplicate-value' if dup else '')
        dist[key] = dist.get(key, 0) + 1
        seen.add(('path', tuple(gen.seg_key(s) for s in segs)))
        f, info = check_path(closed, segs)
        measured['worst_backtrack_over_extent'] = max(measured['worst_backtrack_over_extent'], info['worst_backtrack_over_extent'] if not f else 0.0)
        measured['segments_with_cuts'] += info['pieces'] - len(segs)
        measured['duplicate_value_paths'] += dup
        if len(samples) < 2: samples.append({'path': path_json(closed, segs), 'pieces': info['pieces']})
        if f:
            measured['duplicate_value_paths_failing'] += dup
            fails.append({'class': classify(segs), 'what': f[0], 'input': {'path': path_json(closed, segs)}, 'observed': f,
                          'expected': 'every resulting segment monotone in x and y up to 0.06% of the original extent; same curve, order, start, end, closedness, nodes'})
    # ask, edit the segment in place (round(), item assignment, in-place Point mutation), ask again
    for _ in range(ctx.n(60, 1000)):
        fam = rng.choice(FAMS)
        sh, s0 = edge(rng, fam, fam_point(rng, fam), fam_point(rng, fam), rng.choice(['cubic', 'cubic', 'quad', 'cubic-lin']))
        ff = gen.freshness(rng, s0, {'findExtremes': lambda x: x.findExtremes(), 'bounds': lambda x: x.bounds()})
        ev += 1; dist['stale-state'] = dist.get('stale-state', 0) + 1
        if ff: fails.append({'class': 'C03-stale-state', 'what': ff[0], 'input': {'segment': gen.seg_json(s0)}, 'observed': ff[:3], 'expected': 'the answers of a freshly constructed segment'})
    # asking must not change later answers: findExtremes(inflections=True) (and bounds / addExtremes users) first, then findExtremes()
    for _ in range(ctx.n(60, 1000)):
        fam = rng.choice(FAMS)
        sh, s0 = edge(rng, fam, fam_point(rng, fam), fam_point(rng, fam), rng.choice(['cubic', 'cubic', 'cubic-lin', 'cubic-elev', 'quad']))
        s1 = gen.fresh_copy(s0)
        try:
            if len(s1.points) == 4: s1.findExtremes(inflections=True)
            s1.bounds(); s1.findExtremes()
            a = gen.canon(s1.findExtremes()); b = gen.canon(gen.fresh_copy(s0).findExtremes())
        except Exception as e:
            a, b = ('raised', type(e).__name__), None
        ev += 1; dist['repeated-queries'] = dist.get('repeated-queries', 0) + 1
        if a != b: fails.append({'class': 'C03-stale-state', 'what': f'findExtremes() after findExtremes(inflections=True), bounds() and findExtremes() on the same object: {a}; on a fresh equal segment: {b}',
                                 'input': {'segment': gen.seg_json(s0)}, 'observed': [a, b], 'expected': 'equal'})
    return {'evaluations': ev, 'distinct_nontrivial': len(seen), 'failures': fails, 'distribution': dist, 'samples': samples, 'measured': measured}


def replay(ctx, payload):
    i = payload['input']
    if 'segment' in i: f, _ = check_extremes(gen.seg_from_json(i['segment']))
    else: f, _ = check_path(i['path']['closed'], [gen.seg_from_json(s) for s in i['path']['segments']])
    return {'fails': bool(f), 'observed': f}


def check_known(ctx, finding):
    return replay(ctx, {'input': finding['input']})['fails']
