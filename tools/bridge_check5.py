#!/usr/bin/env python3
"""Kernel cross-check of the definitions added to the translator in the fifth round -- the path-level drivers (Gen/PathOps.v):

  Path_flatten               BezierPath.flatten (path/__init__.py): a fold over the segments calling the class-dependent flatteners of
                             Gen/Sample.v (every arm lifted to option (outcome _)), the path as (segments with their `_orig`, closed);
                             IndexError of rSamples[-1] (a cubic with a NaN coordinate) as `Raises PyIndexError`;
  Path_getSelfIntersections  BooleanOperationsMixin.getSelfIntersections (utils/booleanoperationsmixin.py): hasLoop per class, the double loop
                             over pairs i1 < i2 dispatching `intersections` on the classes of both segments, the t1 filter; the Intersections
                             keep BOTH their segments (the _ixss variants); the format parameter "%.2f" % t1 instantiated with key2F / keyF_eqb;
                             AssertionError (coordinates ~1e30) as `Raises PyAssertionError`;
  Path_distanceToPath        BezierPath.distanceToPath: the sampling loops, min() of the squared distances (ValueError = PyValueError), the
                             first-smallest selection with the 0.0-means-unset quirk, curveDistance of the selected pair dispatched on both
                             classes; an empty path (UnboundLocalError of closestPair) as `Raises PyUnboundLocalError`;
  Path_signed_area / Path_area / Path_direction   the shoelace sum over the flattened path (default degree 8).

Every definition is executed on floats inside Coq (vm_compute) and compared with the Python function it was generated from,
structure for structure and bit for bit, on N random inputs each (default 120), including inputs on which Python raises.

    cd <verif> && PYTHONPATH=/repo/src PYTHONHASHSEED=0 /venv/bin/python tools/bridge_check5.py [N] [seed] [name-substring]

Exit status 0 iff every case of every kernel agrees (and every kernel produced at least N cases)."""
import sys, os, json, random
sys.path.insert(0, os.path.dirname(os.path.abspath(__file__)))
import vlib, kernels


def main():
    n = int(sys.argv[1]) if len(sys.argv) > 1 else 120
    seed = int(sys.argv[2]) if len(sys.argv) > 2 else 20261005
    sub = sys.argv[3] if len(sys.argv) > 3 else ''
    names = [k.name for k in kernels.NEW_KERNELS5 if sub in k.name]
    res = kernels.cross_check('BRIDGE5', names, n, random.Random(seed), tag='bridge5')
    short = {d: v['cases'] for d, v in res['distribution'].items() if v['cases'] < n}
    ok = res['n'] == res['agree'] and not res['failing'] and not res['errors'] and not short
    print(json.dumps({'kernels': len(names), 'cases': res['n'], 'agree': res['agree'], 'failing': res['failing'][:10],
                      'failing_kernels': res.get('failing_kernels'), 'first_disagreement': res.get('first_disagreement'),
                      'errors': [e[-800:] for e in res['errors']], 'short_of_cases': short,
                      'python_outcomes': res.get('python_outcomes')}))
    print('BRIDGE5 CROSS-CHECK', 'PASS' if ok else 'FAIL')
    return 0 if ok else 1


if __name__ == '__main__':
    sys.exit(main())
