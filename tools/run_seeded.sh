#!/bin/bash
# run_seeded.sh [ids...] : run every seeded change (or those whose directory name matches) through evalmut, 4 at a time
cd /verif
ls -d seeded/*/ | sed 's#/$##' | while read d; do
  n=$(basename $d); pid=${n%%-*}
  if [ $# -gt 0 ]; then ok=0; for a in "$@"; do [[ $n == $a* ]] && ok=1; done; [ $ok = 1 ] || continue; fi
  echo "$pid $d"
done | xargs -P ${SEEDED_PAR:-4} -L 1 bash -c 'out=$(tools/evalmut.sh $0 $1/patch.diff $1/demo.py 2>&1); v=$(echo "$out" | grep -c "^VIOLATION"); nf=$(echo "$out" | grep -c "no-failing-input-found"); s=$(echo "$out" | grep -c "32 passed"); d0=$(echo "$out" | grep -c "clean tree: exit 0"); d1=$(echo "$out" | grep -c "with the change: exit 1"); echo "$1 suite_ok=$s demo_clean_ok=$d0 demo_fails=$d1 violation=$v no_input=$nf"'
