#!/bin/bash
# evalmut.sh <ID> <patch.diff> <demo.py> : confirm a seeded change in a scratch worktree of /repo and run ./check <ID> against it.
# Everything happens in private copies (a worktree of /repo HEAD and a copy of /verif with its build), so neither /repo nor
# /verif's build directory is touched; both copies are removed at the end.
set -u
ID=$1; DIFF=$(readlink -f "$2"); DEMO=$(readlink -f "$3")
WT=/tmp/mutrepo_$$; VC=/tmp/mutverif_$$
git -C /repo worktree add -q "$WT" HEAD || exit 9
rsync -a --exclude .git --exclude work --exclude replays "${VERIF_SRC:-/verif}"/ "$VC"/ && mkdir -p "$VC/replays"
trap 'git -C /repo worktree remove --force "$WT" >/dev/null 2>&1; rm -rf "$VC"' EXIT
cd "$WT"
PYTHONPATH=$WT/src /venv/bin/python "$DEMO" >/dev/null 2>&1; echo "demo on clean tree: exit $?"
git apply "$DIFF" || { echo "PATCH DOES NOT APPLY"; exit 8; }
echo -n "test suite with the change: "; PYTHONPATH=$WT/src /venv/bin/python -m pytest -q -p no:cacheprovider 2>&1 | tail -1
PYTHONPATH=$WT/src /venv/bin/python "$DEMO" >/tmp/evalmut_demo_$$.txt 2>&1; echo "demo with the change: exit $?"; tail -2 /tmp/evalmut_demo_$$.txt | cut -c1-200; rm -f /tmp/evalmut_demo_$$.txt
cd "$VC" && BEZIERS_REPO=$WT ./check "$ID" 2>&1 | grep -v "^!" | grep -E "tier=|VIOLATION|broken:|KNOWN-FINDING" | cut -c1-260
echo "check exit ${PIPESTATUS[0]}"
