#!/bin/bash
# evalmut.sh <ID> <mutant.diff> <demo.py> : confirm a seeded change in a scratch worktree and run ./check <ID> against it.
# Uses a private worktree (BEZIERS_REPO override) so that /repo is never touched while other work reads it.
set -u
ID=$1; DIFF=$(readlink -f "$2"); DEMO=$(readlink -f "$3")
WT=/tmp/mutrepo_$$
git -C /repo worktree add -q "$WT" HEAD || exit 9
trap 'git -C /repo worktree remove --force "$WT" >/dev/null 2>&1' EXIT
cd "$WT"
echo "== demo on clean tree"; PYTHONPATH=$WT/src /venv/bin/python "$DEMO" >/tmp/evalmut_demo0.txt 2>&1; echo "exit $?"
git apply "$DIFF" || { echo "PATCH DOES NOT APPLY"; exit 8; }
echo "== test suite with the change"; PYTHONPATH=$WT/src /venv/bin/python -m pytest -q -p no:cacheprovider 2>&1 | tail -1
echo "== demo with the change"; PYTHONPATH=$WT/src /venv/bin/python "$DEMO" >/tmp/evalmut_demo1.txt 2>&1; echo "exit $?"; tail -3 /tmp/evalmut_demo1.txt
echo "== ./check $ID against the changed tree"
cd /verif && BEZIERS_REPO=$WT ./check "$ID" 2>&1 | grep -v "^!" | tail -6
echo "check exit ${PIPESTATUS[0]}"
# restore the build state for the unchanged tree
cd /verif && ./setup.sh >/dev/null 2>&1
