#!/usr/bin/env python3
"""py2v: fail-closed translator from the Python ast of /repo/src/beziers to Gallina over `Ops` (DESIGN 2.2).

It is a partial evaluator: control points of a segment, matrix entries, loop bounds that depend only on the
arity of a segment and string/bool flags are resolved at translation time; everything numeric becomes a Coq
term over the scalar record `O : Ops T`.  Anything outside the supported fragment raises Untranslatable,
which the check driver reports as a broken obligation (never silently skipped).

Data-dependent `while` loops become fuelled Fixpoints (FunTx.stmt_while) and the modelled exceptions (IndexError of
l[-1] / l[k], ValueError / OverflowError of math.floor) values of `outcome`; which functions may loop or raise is
declared in EFFECTS and checked.  Gen/Sample.v (sampling loops, path evaluation, flatteners) is written this way.
"""
import ast, sys, os, hashlib, json
from fractions import Fraction

SRC = os.environ.get('BEZIERS_SRC', '/repo/src/beziers')


class Untranslatable(Exception):
    pass


class EffectInJoin(Untranslatable):
    """an effectful operation under a continuation that is not the function result (a branch of an `if` translated as a value)"""


# ----------------------------------------------------------------------------- values
class Val:
    __slots__ = ('ty', 'tx', 'items', 'const')

    def __init__(self, ty, tx=None, items=None, const=None):
        self.ty, self.tx, self.items, self.const = ty, tx, items, const

    def __repr__(self):
        return f"Val({self.ty!r},{self.tx!r},{self.items!r},{self.const!r})"


SEGN = {'seg2': 2, 'seg3': 3, 'seg4': 4}
SEGPROJ = {'seg2': ['l0', 'l1'], 'seg3': ['q0', 'q1', 'q2'], 'seg4': ['c0', 'c1', 'c2', 'c3']}
SEGCON = {2: 'L2', 3: 'Q3', 4: 'C4'}
SEGTY = {2: 'seg2', 3: 'seg3', 4: 'seg4'}
CLASS_OF = {'P': 'Point', 'seg2': 'Line', 'seg3': 'QuadraticBezier', 'seg4': 'CubicBezier',
            'M': 'AffineTransformation', 'BB': 'BoundingBox', 'PATH': 'BezierPath'}
# 'PATH': a BezierPath as the list of its segments, `list (segment T)` (what asSegments() returns; the Nodelist representation
# and the conversion inside asSegments are outside the model).  'SEG': one element of it, the sum type `segment T`: attribute
# access and method calls on it dispatch on the constructor to the definitions generated for the three classes.
SEGSUM = [('SLine', 'seg2'), ('SQuad', 'seg3'), ('SCubic', 'seg4')]
TY_OF_CLASS = {v: k for k, v in CLASS_OF.items()}
PFX = {'Point': 'Point', 'Line': 'Line', 'QuadraticBezier': 'Quad', 'CubicBezier': 'Cubic',
       'AffineTransformation': 'Affine', 'BoundingBox': 'BBox', 'CurveFit': 'CurveFit', 'BezierPath': 'Path'}
FILE_OF = {'Point': 'Point', 'Line': 'Line', 'QuadraticBezier': 'Quad', 'CubicBezier': 'Cubic',
           'AffineTransformation': 'Affine', 'BoundingBox': 'BBox', 'utils': 'Utils', 'curvedistance': 'CurveDist',
           'geometricshapes': 'Shapes', 'curvefitter': 'Fit', 'CurveFit': 'Fit', 'BezierPath': 'Sample'}
FILE_ORDER = ['Utils', 'Point', 'Affine', 'BBox', 'Line', 'Quad', 'Cubic', 'Shapes', 'Fit', 'CurveDist', 'Sample']
# leaves of the import graph: no other generated file imports them (so adding one leaves the text of the others unchanged)
LEAF_FILES = {'Shapes', 'Fit', 'Sample'}
# methods emitted into another file than the one of the receiver's class (keyed by the DEFINING class)
FILE_OF_DEFCLASS = {'SampleMixin': 'Sample'}
# ... or keyed by the method name (the flatteners call the sampling methods, so they live with them)
FILE_OF_METHOD = {'flatten': 'Sample'}
# modules whose module-level constants are emitted as named definitions (elsewhere they are inlined at the use)
NAMED_GLOBAL_MODULES = {'path/geometricshapes.py'}
MODULE_OF_CLASS = {'Point': 'point.py', 'Line': 'line.py', 'QuadraticBezier': 'quadraticbezier.py',
                   'CubicBezier': 'cubicbezier.py', 'Segment': 'segment.py',
                   'AffineTransformation': 'affinetransformation.py', 'BoundingBox': 'boundingbox.py',
                   'ArcLengthMixin': 'utils/arclengthmixin.py', 'IntersectionsMixin': 'utils/intersectionsmixin.py',
                   'SampleMixin': 'utils/samplemixin.py', 'CurveFit': 'utils/curvefitter.py', 'BezierPath': 'path/__init__.py'}
MRO = {'BezierPath': ['BezierPath', 'SampleMixin'],     # BooleanOperationsMixin (pyclipper) is outside the model
       'Point': ['Point'], 'AffineTransformation': ['AffineTransformation'], 'BoundingBox': ['BoundingBox'], 'CurveFit': ['CurveFit'],
       'Line': ['Line', 'Segment', 'IntersectionsMixin', 'SampleMixin'],
       'QuadraticBezier': ['QuadraticBezier', 'ArcLengthMixin', 'Segment', 'IntersectionsMixin', 'SampleMixin'],
       'CubicBezier': ['CubicBezier', 'ArcLengthMixin', 'Segment', 'IntersectionsMixin', 'SampleMixin']}


def tmatch(a, b):
    """type equality up to the wildcard '?' (element type of an empty literal list); returns the more specific type or None"""
    if a == b: return a
    if a == '?': return b
    if b == '?': return a
    if isinstance(a, tuple) and isinstance(b, tuple) and a[0] == b[0]:
        if a[0] in ('L', 'O', 'F', 'X'):
            m = tmatch(a[1], b[1])
            return (a[0], m) if m is not None else None
        if a[0] == 'T' and len(a[1]) == len(b[1]):
            ms = [tmatch(x, y) for x, y in zip(a[1], b[1])]
            return ('T', tuple(ms)) if all(m is not None for m in ms) else None
    return None


def coqty(t):
    if t == '?': return '_'
    if t == 'S': return 'T'
    if t == 'B': return 'bool'
    if t == 'P': return 'pt T'
    if t in SEGN: return f'{t} T'
    if t == 'M': return 'mat3 T'
    if t == 'BB': return 'bbox T'
    if t == 'SEG': return 'segment T'
    if t == 'EDGE': return '(seg2 T * option (segment T))%type'
    if t == 'PATH': return 'list (segment T)'
    if t == 'IX': return '(T * pt T * T)%type'
    if isinstance(t, tuple):
        if t[0] == 'L': return f'list ({coqty(t[1])})'
        if t[0] == 'O': return f'option ({coqty(t[1])})'
        if t[0] == 'F': return f'option ({coqty(t[1])})'       # fuelled: None = the fuel ran out
        if t[0] == 'X': return f'outcome ({coqty(t[1])})'      # may raise: Returns v | Raises e
        if t[0] == 'T': return '(' + ' * '.join(coqty(x) for x in t[1]) + ')%type'
    raise Untranslatable(f'no Coq type for {t!r}')


_mods = {}


def module(path):
    if path not in _mods:
        src = open(os.path.join(SRC, path)).read()
        _mods[path] = (src, ast.parse(src))
    return _mods[path]


def find_def(cls, name):
    """(module path, FunctionDef, defining class) following the MRO; cls None -> module-level in utils/__init__"""
    for k in MRO[cls]:
        src, tree = module(MODULE_OF_CLASS[k])
        for n in tree.body:
            if isinstance(n, ast.ClassDef) and n.name == k:
                for m in n.body:
                    if isinstance(m, ast.FunctionDef) and m.name == name:
                        return MODULE_OF_CLASS[k], m, k
    raise KeyError((cls, name))


def find_modfun(path, name):
    src, tree = module(path)
    for n in tree.body:
        if isinstance(n, ast.FunctionDef) and n.name == name:
            return n
    raise KeyError((path, name))


def modkey_of(path):
    return os.path.basename(os.path.dirname(path)) if path.endswith('__init__.py') else os.path.basename(path)[:-3]


def imports_name(path, name, frm):
    """does module `path` contain `from <frm> import <name>` (unaliased) at top level?"""
    src, tree = module(path)
    for n in tree.body:
        if isinstance(n, ast.ImportFrom) and n.module == frm:
            for a in n.names:
                if a.name == name and a.asname is None: return True
    return False


def decorators(fd):
    out = set()
    for d in fd.decorator_list:
        if isinstance(d, ast.Name): out.add(d.id)
    return out


def fingerprint(node):
    return hashlib.sha256(ast.dump(node, include_attributes=False).encode()).hexdigest()[:16]


# mutators: methods whose effect is an assignment to self; translated as functions returning the new self
MUTATORS = {('AffineTransformation', n) for n in
            ('apply', 'apply_backwards', 'translate', 'scale', 'reflect', 'rotate', 'invert')} | \
           {('Point', 'rotate'), ('Point', 'transform')} | {('BoundingBox', 'extend')} | \
           {(c, 'round') for c in ('Line', 'QuadraticBezier', 'CubicBezier')}
# mutators whose receiver may be a BoundingBox with unset corners.  `BoundingBox()` sets bl = tr = None; the receiver is an
# `option (bbox T)`, None standing for "both corners None".  A state with exactly one corner set has no representation: a body
# that ends in (or joins on) such a state is Untranslatable.
OPT_SELF = {('BoundingBox', 'extend')}
# 'A' in a signature: the definition is specialised on the (translation-time) class of that argument, one of these
ARG_CLASSES = {('BoundingBox', 'extend'): ('P', 'BB')}
UNSET_BOX = {'bl': None, 'tr': None}
# methods that return None and update one of their ARGUMENTS in place: translated as functions returning the new value of it
MUTATED_PARAM = {('CurveFit', 'estimateBi'): 'bez'}

# signature table: argument types of methods (self excluded).  Return types are inferred.
SIG = {
    ('Point', '__mul__'): ['S'], ('Point', '__truediv__'): ['S'], ('Point', '__add__'): ['P'], ('Point', '__sub__'): ['P'],
    ('Point', '__eq__'): ['P'],
    ('Point', 'dot'): ['P'], ('Point', 'lerp'): ['P', 'S'], ('Point', 'rotated'): ['P', 'S'], ('Point', 'rotate'): ['P', 'S'],
    ('Point', 'fromAngle'): ['S'], ('Point', 'squareDistanceFrom'): ['P'], ('Point', 'distanceFrom'): ['P'],
    ('Point', 'transformed'): ['M'], ('Point', 'transform'): ['M'],
    ('AffineTransformation', 'apply'): ['M'], ('AffineTransformation', 'apply_backwards'): ['M'],
    ('AffineTransformation', 'translation'): ['P'], ('AffineTransformation', 'translate'): ['P'],
    ('AffineTransformation', 'scaling'): ['S', ('O', 'S')], ('AffineTransformation', 'scale'): ['S', ('O', 'S')],
    ('AffineTransformation', 'rotation'): ['S'], ('AffineTransformation', 'rotate'): ['S'],
    ('BoundingBox', 'includes'): ['P'], ('BoundingBox', 'overlaps'): ['BB'], ('BoundingBox', 'translated'): ['P'],
    ('BoundingBox', 'addMargin'): ['S'], ('BoundingBox', 'extend'): ['A'],
    ('*seg', 'pointAtTime'): ['S'], ('*seg', 'splitAtTime'): ['S'], ('*seg', 'tangentAtTime'): ['S'],
    ('*seg', 'normalAtTime'): ['S'], ('*seg', 'curvatureAtTime'): ['S'], ('*seg', 'lengthAtTime'): ['S'],
    ('*seg', 'translated'): ['P'], ('*seg', 'rotated'): ['P', 'S'], ('*seg', 'scaled'): ['S'], ('*seg', 'transformed'): ['M'],
    ('*seg', 'tOfPoint'): ['P', 'B'], ('*seg', '_findRoots'): ['K'],
    ('*seg', '_bothPointsAreOnSameSideOfOrigin'): ['P', 'P', 'P'],
    ('*seg', '_line_line_intersections'): ['seg2'], ('*seg', '_curve_line_intersections_t'): ['seg2'],
    ('*seg', '_curve_line_intersections'): ['seg2'],
    ('*seg', 'findExtremes'): ['K'],
    ('CurveFit', 'computeHook'): ['P', 'P', 'S', 'seg4', 'S'],
    ('CurveFit', 'estimateBi'): ['seg4', ('L', 'P'), ('L', 'S')],
    ('CurveFit', 'chordLengthParameterize'): [('L', 'P')],
    ('*seg', 'sample'): ['S'], ('*seg', 'regularSampleTValue'): ['S'], ('*seg', 'regularSample'): ['S'],
    ('BezierPath', 'pointAtTime'): ['S'], ('BezierPath', 'lengthAtTime'): ['S'],
    ('*seg', 'flatten'): ['S'],
    ('BezierPath', 'sample'): ['S'], ('BezierPath', 'regularSampleTValue'): ['S'], ('BezierPath', 'regularSample'): ['S'],
}
# effect table: what a function can do besides returning a value.  'fuel': it contains a data-dependent `while` loop (or calls
# such a function): the definition takes `fuel : nat` first -- the number of iterations every loop invocation may use -- and
# returns `option`, None = the fuel ran out.  'exc': it can raise one of the modelled exceptions (`pyexc`): it returns
# `outcome`.  Both: `option (outcome _)`.  Like the signature table this is declared and CHECKED: a loop or a raising
# operation in a function that does not declare it is Untranslatable, and so is a declared effect that never occurs.
EFFECTS = {
    ('*seg', 'sample'): {'fuel'}, ('*seg', 'regularSampleTValue'): {'fuel', 'exc'}, ('*seg', 'regularSample'): {'fuel', 'exc'},
    ('BezierPath', 'pointAtTime'): {'exc'}, ('BezierPath', 'lengthAtTime'): {'exc'},
    ('Line', 'flatten'): set(), ('QuadraticBezier', 'flatten'): {'fuel'}, ('CubicBezier', 'flatten'): {'fuel', 'exc'},
    # SampleMixin on a path: pointAtTime / lengthAtTime raise, inside the loops too
    ('BezierPath', 'sample'): {'fuel', 'exc'}, ('BezierPath', 'regularSampleTValue'): {'fuel', 'exc'}, ('BezierPath', 'regularSample'): {'fuel', 'exc'},
}
# 'EDGE': a Line together with its `_orig` attribute, `(seg2 T * option (segment T))`: Some c when `line._orig = c` has been
# executed on it, None for a Line that was never tagged (reading the attribute would be an AttributeError; nothing reads it).
# A local variable becomes an EDGE by the statement pair `x = Line(..); x._orig = <segment>` (the object is fresh and unshared).
# Receivers whose own `_orig` is part of the result come in as EDGE:
SELF_TY = {('Line', 'flatten'): 'EDGE'}


def effects_of(cls, name):
    if (cls, name) in EFFECTS: return frozenset(EFFECTS[(cls, name)])
    if cls in ('Line', 'QuadraticBezier', 'CubicBezier'): return frozenset(EFFECTS.get(('*seg', name), ()))
    return frozenset()


def mtype(eff, t):
    """the result type of a function with effects `eff` returning t"""
    if 'exc' in eff: t = ('X', t)
    if 'fuel' in eff: t = ('F', t)
    return t


def is_mtype(t):
    """effects carried by a result type, or None for a plain type"""
    if isinstance(t, tuple) and t[0] == 'F':
        return ({'fuel', 'exc'}, t[1][1]) if isinstance(t[1], tuple) and t[1][0] == 'X' else ({'fuel'}, t[1])
    if isinstance(t, tuple) and t[0] == 'X': return ({'exc'}, t[1])
    return None
CLASSMETHODS = {('Point', 'fromAngle'), ('AffineTransformation', 'translation'), ('AffineTransformation', 'scaling'),
                ('AffineTransformation', 'reflection'), ('AffineTransformation', 'rotation'),
                ('CurveFit', 'computeHook'), ('CurveFit', 'estimateBi'), ('CurveFit', 'chordLengthParameterize')}


def sig_of(cls, name, nargs):
    k = (cls, name)
    if k in SIG: return SIG[k]
    if cls in ('Line', 'QuadraticBezier', 'CubicBezier') and ('*seg', name) in SIG:
        s = SIG[('*seg', name)]
        if cls == 'QuadraticBezier' and name == 'tOfPoint': return ['P']
        if cls == 'CubicBezier' and name == 'tOfPoint': return ['P']
        if cls != 'CubicBezier' and name == 'findExtremes': return []
        return s
    if nargs == 0: return []
    raise Untranslatable(f'no signature for {cls}.{name}')


class Translator:
    def __init__(self):
        self.done = {}        # key -> (coqname, rettype, file)
        self.out = {f: [] for f in FILE_ORDER}
        self.inprogress = set()
        self.fingerprints = {}
        self.counter = 0
        self.loops = {}       # name of an emitted loop Fixpoint -> its text

    # ------------------------------------------------------------------ helpers
    def fresh(self, base):
        self.counter += 1
        return f'{base}_{self.counter}'

    def S(self, v):
        """coerce to scalar text"""
        if v.ty == 'S': return v.tx
        if v.ty == 'I': return f'(ofZ O ({v.const}))'
        if v.ty == 'LEN': return f'(ofZ O (Z.of_nat (length {v.tx})))'      # len(l) of a dynamic list meeting a float
        raise Untranslatable(f'expected scalar, got {v.ty!r}')

    def text(self, v):
        """Coq text of a value (flattening translation-time structure)"""
        if v.ty == 'I': return f'(ofZ O ({v.const}))'
        if v.ty == 'K':
            if v.const is True: return 'true'
            if v.const is False: return 'false'
            raise Untranslatable(f'constant {v.const!r} has no Coq text')
        if v.ty == 'FL':
            return '[' + '; '.join(self.text(i) for i in v.items) + ']'
        if v.ty == 'TUP':
            return '(' + ', '.join(self.text(i) for i in v.items) + ')'
        if v.tx is None: raise Untranslatable(f'no text for {v!r}')
        return v.tx

    def rtype(self, v):
        """runtime (Coq) type of a value"""
        if v.ty == 'I': return 'S'
        if v.ty == 'K' and isinstance(v.const, bool): return 'B'
        if v.ty == 'FL':
            ts = {self.rtype(i) for i in v.items}
            if len(ts) == 1: return ('L', ts.pop())
            if not v.items: return ('L', '?')
            raise Untranslatable('heterogeneous list')
        if v.ty == 'TUP': return ('T', tuple(self.rtype(i) for i in v.items))
        return v.ty

    def atomic(self, v):
        tx = v.tx
        return tx is not None and (tx.replace('_', 'a').isalnum())

    # ------------------------------------------------------------------ function translation
    def cdf_S(self, n1, n2):
        key = ('CDF', 'S', (n1, n2))
        if key in self.done: return self.done[key]
        fd2 = find_cdf_method('S')
        self.fingerprints['utils/curvedistance.py:MinimumCurveDistanceFinder.S'] = fingerprint(fd2)
        fd3 = ast.FunctionDef(name='S', args=fd2.args, body=strip_memo(fd2), decorator_list=[], lineno=fd2.lineno)
        fx = FunTx(self, 'utils/curvedistance.py', None, fd3)
        t1, t2 = SEGTY[n1], SEGTY[n2]
        env = {'self': Val('CDF', items=[Val(t1, 'v_bez1'), Val(t2, 'v_bez2')]), 'u': Val('S', 'v_u'), 'v': Val('S', 'v_v')}
        body = fx.block(fd3.body, env, lambda e: Val('K', const=None), lambda v, e: v)
        cname = f'curvedistance_S_{n1}_{n2}'
        self.out['CurveDist'].append(f'(* utils/curvedistance.py: MinimumCurveDistanceFinder.S for orders {n1} x {n2}, line {fd2.lineno} *)\n'
                                     f'Definition {cname} {{T : Type}} (O : Ops T) (v_bez1 : {coqty(t1)}) (v_bez2 : {coqty(t2)}) (v_u : T) (v_v : T) : T :=\n  {self.text(body)}.\n')
        self.done[key] = (cname, 'S', 'CurveDist')
        return self.done[key]

    def cdf_D(self, n1, n2):
        """the table D(r,k), r in 0..2n, k in 0..max(2m,2n) (minDist also reads D(i, 2n)), as a list of rows"""
        key = ('CDF', 'D', (n1, n2))
        if key in self.done: return self.done[key]
        fd2 = find_cdf_method('D')
        fx = FunTx(self, 'utils/curvedistance.py', None, fd2)
        t1, t2 = SEGTY[n1], SEGTY[n2]
        env = {'self': Val('CDF', items=[Val(t1, 'v_bez1'), Val(t2, 'v_bez2')])}
        n, m = n1 - 1, n2 - 1
        rows = []
        for r in range(0, 2 * n + 1):
            row = []
            for k in range(0, max(2 * m, 2 * n) + 1):
                call = ast.parse(f'self.D({r}, {k})', mode='eval').body
                fx.counter += 1000
                row.append(self.S(fx.expr(call, env)))
            rows.append('[' + ';\n    '.join(row) + ']')
        cname = f'curvedistance_D_{n1}_{n2}'
        self.out['CurveDist'].append(f'(* utils/curvedistance.py: MinimumCurveDistanceFinder.D as a table, orders {n1} x {n2} *)\n'
                                     f'Definition {cname} {{T : Type}} (O : Ops T) (v_bez1 : {coqty(t1)}) (v_bez2 : {coqty(t2)}) : list (list T) :=\n  [' + ';\n   '.join(rows) + '].\n')
        self.done[key] = (cname, ('L', ('L', 'S')), 'CurveDist')
        return self.done[key]

    def global_def(self, fx, path, name, node):
        """module-level constant `name = <expr>` of `path` as a named definition; translation-time structure stays inline"""
        key = ('global', path, name)
        if key in self.done:
            cname, rty, file = self.done[key]
            return Val(rty, f'({cname} O)')
        if key in self.inprogress: raise Untranslatable(f'recursion through {key}')
        self.inprogress.add(key)
        sub = FunTx(self, path, None, fx.fd)
        v = sub.expr(node.value, {})
        self.inprogress.discard(key)
        if v.ty in ('I', 'K', 'FL', 'TUP'): return v
        modkey = modkey_of(path)
        cname = f'{modkey}_{name}'
        rty = self.rtype(v)
        if rty != 'S':
            # the constant is a mutable object shared by every call: it is a constant of the model only if the module can never
            # update it -- every other occurrence of the name must be a direct operand of a binary operator (which builds a new object)
            tree = module(path)[1]
            operands = {id(o) for x in ast.walk(tree) if isinstance(x, ast.BinOp) for o in (x.left, x.right)}
            for x in ast.walk(tree):
                if isinstance(x, ast.Global) and name in x.names: raise Untranslatable(f'{path}: `global {name}`')
                if isinstance(x, ast.Name) and x.id == name and x is not node.targets[0] and id(x) not in operands:
                    raise Untranslatable(f'{path}:{x.lineno}: module constant {name} (a mutable object) is used other than as an operand')
        self.fingerprints[f'{path}:.{name}'] = fingerprint(node)
        self.out[FILE_OF[modkey]].append(f'(* {path}: module constant {name}, line {node.lineno} *)\n'
                                        f'Definition {cname} {{T : Type}} (O : Ops T) : {coqty(rty)} :=\n  {self.text(v)}.\n')
        self.done[key] = (cname, rty, FILE_OF[modkey])
        return Val(rty, f'({cname} O)')

    def global_target(self, path, name):
        """a module constant as a translation target of its own (e.g. one only used as a default argument value)"""
        for n in module(path)[1].body:
            if isinstance(n, ast.Assign) and len(n.targets) == 1 and isinstance(n.targets[0], ast.Name) and n.targets[0].id == name:
                fx = FunTx(self, path, None, ast.FunctionDef(name=f'<module constant {name}>', lineno=n.lineno))
                v = self.global_def(fx, path, name, n)
                if ('global', path, name) not in self.done: raise Untranslatable(f'{path}: constant {name} is translation-time structure')
                return v
        raise KeyError((path, name))

    def function(self, cls, name, consts=()):
        """translate method `name` for receiver class `cls` (or module function when cls startswith 'mod:')"""
        key = (cls, name, consts)
        if key in self.done: return self.done[key]
        if key in self.inprogress: raise Untranslatable(f'recursion through {key}')
        self.inprogress.add(key)
        if cls.startswith('mod:'):
            path = cls[4:]
            fd = find_modfun(path, name); defcls = None
            modkey = modkey_of(path)
            file = FILE_OF[modkey]
            cname = f'{modkey}_{name}'
            argtys = MODSIG[(path, name)]
            selfty = None
        else:
            path, fd, defcls = find_def(cls, name)
            file = FILE_OF_METHOD.get(name, FILE_OF_DEFCLASS.get(defcls, FILE_OF[cls]))
            cname = f'{PFX[cls]}_{name}'
            argtys = sig_of(cls, name, len(fd.args.args) - 1)
            selfty = SELF_TY.get((cls, name), TY_OF_CLASS.get(cls, 'CLS'))
            if (cls, name) in OPT_SELF: selfty = ('O', selfty)
        self.fingerprints[f'{path}:{defcls or ""}.{name}'] = fingerprint(fd)
        params = [a.arg for a in fd.args.args]
        is_cm = (cls, name) in CLASSMETHODS
        if is_cm != ('classmethod' in decorators(fd)): raise Untranslatable(f'{cls}.{name}: classmethod table and @classmethod decorator disagree')
        env = {}
        coqparams = []
        eff = effects_of(cls, name)
        if 'fuel' in eff: coqparams.append('(fuel : nat)')
        if selfty is not None:
            if is_cm:
                env[params[0]] = Val('K', const=('class', cls))
            else:
                env[params[0]] = Val(selfty, 'self_')
                coqparams.append(f'(self_ : {coqty(selfty)})')
            pnames = params[1:]
        else:
            pnames = params
        if len(argtys) != len(pnames):
            raise Untranslatable(f'{cls}.{name}: signature table has {len(argtys)} args, source has {len(pnames)}')
        ci = 0
        suffix = ''
        for pn, ty in zip(pnames, argtys):
            if ty == 'K':
                env[pn] = Val('K', const=consts[ci]); suffix += f'_{consts[ci]}'; ci += 1
            elif ty == 'A':
                aty = consts[ci][1]; ci += 1
                if aty not in ARG_CLASSES[(cls, name)]: raise Untranslatable(f'{cls}.{name}: no specialisation for argument class {aty!r}')
                env[pn] = Val(aty, 'v_' + pn); suffix += '_' + PFX[CLASS_OF[aty]]
                coqparams.append(f'(v_{pn} : {coqty(aty)})')
            else:
                env[pn] = Val(ty, 'v_' + pn)
                coqparams.append(f'(v_{pn} : {coqty(ty)})')
        cname += suffix
        fx = FunTx(self, path, cls if selfty else None, fd)
        fx.effects, fx.cname, fx.file = eff, cname, file
        mut = (cls, name) in MUTATORS
        if eff and (mut or (cls, name) in MUTATED_PARAM or (cls, name) in OPT_SELF): raise Untranslatable(f'{cls}.{name}: a mutator with effects')
        if (cls, name) in MUTATED_PARAM:
            mp = MUTATED_PARAM[(cls, name)]
            if mp not in env: raise Untranslatable(f'{cls}.{name}: no parameter {mp}')
            cont = lambda e: e[mp]
            ret = lambda v, e: e[mp] if (v.ty == 'K' and v.const is None) else fx.fail('mutator returns a value')
            fx.live_stack.append({mp})
        elif mut:
            cont = lambda e: e[params[0]]
            ret = lambda v, e: e[params[0]] if (v.ty == 'K' and v.const is None) else fx.fail('mutator returns a value')
        elif eff:
            cont = lambda e: Val('K', const=None)
            ret = lambda v, e: fx.mreturn(v)
        else:
            cont = lambda e: Val('K', const=None)
            ret = lambda v, e: v
        if mut: fx.live_stack.append({params[0]})
        if (cls, name) in OPT_SELF:
            me = params[0]
            cont = lambda e: fx.as_optbox(e[me], fd)
            ret = lambda v, e: fx.as_optbox(e[me], fd) if (v.ty == 'K' and v.const is None) else fx.fail('mutator returns a value')
            def variant(selfval):
                e = dict(env); e[me] = selfval
                return fx.block(fd.body, e, cont, ret)
            reads_corners = any(isinstance(x, ast.Attribute) and isinstance(x.value, ast.Name) and x.value.id == me and x.attr in UNSET_BOX
                                for st in fd.body for x in ast.walk(st))
            if reads_corners:
                # the body looks at self.bl / self.tr: translate it once for each state of the receiver
                bN = variant(Val('UBB', const=dict(UNSET_BOX)))
                bS = variant(Val('BB', 'b_'))
                body = Val(selfty, f'(match self_ with\n  | None =>\n  {self.text(bN)}\n  | Some b_ =>\n  {self.text(bS)}\n  end)')
            else:
                body = variant(Val(selfty, 'self_'))
        else:
            body = fx.block(fd.body, env, cont, ret)
        if body.ty == 'FL' and not body.items and (cls, name) in RET:
            body = Val(RET[(cls, name)], '[]')
        text = self.text(body)
        rty = self.rtype(body) if not (body.ty == 'K' and body.const is None) else None
        if rty is None: raise Untranslatable(f'{cls}.{name} returns None')
        if eff:
            if is_mtype(rty) is None or is_mtype(rty)[0] != set(eff): raise Untranslatable(f'{cls}.{name}: result {rty!r} does not carry the declared effects {sorted(eff)}')
            if fx.pending: raise Untranslatable(f'{cls}.{name}: unflushed effects')
            for e_ in eff:
                if e_ not in fx.occurred: raise Untranslatable(f'{cls}.{name}: declared effect {e_!r} never occurs')
        src = f'(* {path}: {defcls + "." if defcls else ""}{name}, line {fd.lineno} *)\n'
        self.out[file].append(src + f'Definition {cname} {{T : Type}} (O : Ops T) {" ".join(coqparams)} : {coqty(rty)} :=\n  {text}.\n')
        self.inprogress.discard(key)
        self.done[key] = (cname, rty, file)
        return self.done[key]


RET = {('Line', 'findExtremes'): ('L', 'S')}
INT_FUNS = {('utils/curvedistance.py', 'C')}
INLINE_FUNS = {('utils/curvedistance.py', 'A_r'), ('utils/curvedistance.py', 'C_rk'), ('utils/curvedistance.py', 'basis_function')}
ALIASES = {('utils/curvedistance.py', 'B_k'): 'A_r'}


def run_int_function(path, name, args):
    """int-only helper (binomial coefficient): executed from the source itself at translation time"""
    import math as _math
    fd = find_modfun(path, name)
    ns = {'math': _math}
    exec(compile(ast.Module(body=[fd], type_ignores=[]), path, 'exec'), ns)
    r = ns[name](*args)
    if not isinstance(r, int): raise Untranslatable(f'{name}{tuple(args)} is not an int')
    return r


def strip_memo(fd):
    """memo tables are semantically transparent (DESIGN 4/C20): recognise exactly the two shapes used and drop them"""
    body = [b for b in fd.body if not (isinstance(b, ast.Expr) and isinstance(b.value, ast.Constant))]
    def is_cache_sub(x):
        return isinstance(x, ast.Subscript) and isinstance(x.value, ast.Attribute) and isinstance(x.value.value, ast.Name) \
            and x.value.value.id == 'self' and x.value.attr.endswith('Cache')
    # shape 1: if K not in self.c: self.c[K] = E ; return self.c[K]
    if len(body) == 2 and isinstance(body[0], ast.If) and isinstance(body[0].test, ast.Compare) and isinstance(body[0].test.ops[0], ast.NotIn) \
            and len(body[0].body) == 1 and isinstance(body[0].body[0], ast.Assign) and is_cache_sub(body[0].body[0].targets[0]) \
            and isinstance(body[1], ast.Return) and is_cache_sub(body[1].value) and not body[0].orelse:
        new = ast.Return(value=body[0].body[0].value)
        return [ast.copy_location(new, body[1])]
    # shape 2: if K in self.c: return self.c[K] ; ... ; self.c[K] = v ; return v
    if len(body) >= 3 and isinstance(body[0], ast.If) and isinstance(body[0].test, ast.Compare) and isinstance(body[0].test.ops[0], ast.In) \
            and len(body[0].body) == 1 and isinstance(body[0].body[0], ast.Return) and is_cache_sub(body[0].body[0].value) \
            and isinstance(body[-2], ast.Assign) and is_cache_sub(body[-2].targets[0]) and isinstance(body[-2].value, ast.Name) \
            and isinstance(body[-1], ast.Return) and isinstance(body[-1].value, ast.Name) and body[-1].value.id == body[-2].value.id:
        return body[1:-2] + [body[-1]]
    raise Untranslatable(f'{fd.name}: unrecognised memo shape')


def find_cdf_method(name):
    src, tree = module('utils/curvedistance.py')
    for n in tree.body:
        if isinstance(n, ast.ClassDef) and n.name == 'MinimumCurveDistanceFinder':
            for m in n.body:
                if isinstance(m, ast.FunctionDef) and m.name == name: return m
    raise KeyError(name)


MODSIG = {
    ('utils/__init__.py', 'quadraticRoots'): ['S', 'S', 'S'],
    # path/geometricshapes.py: origin=None is Optional[Point]; superness is a plain float (its default is the module constant
    # CIRCULAR_SUPERNESS, emitted as geometricshapes_CIRCULAR_SUPERNESS and substituted at calls that omit the argument)
    ('path/geometricshapes.py', 'Rectangle'): ['S', 'S', ('O', 'P')],
    ('path/geometricshapes.py', 'Square'): ['S', ('O', 'P')],
    ('path/geometricshapes.py', 'Ellipse'): ['S', 'S', ('O', 'P'), 'S'],
    ('path/geometricshapes.py', 'Circle'): ['S', ('O', 'P'), 'S'],
    ('utils/curvefitter.py', 'B0'): ['S'], ('utils/curvefitter.py', 'B1'): ['S'],
    ('utils/curvefitter.py', 'B2'): ['S'], ('utils/curvefitter.py', 'B3'): ['S'],
}


class FunTx:
    """translation of one function body"""

    def __init__(self, tr, path, cls, fd):
        self.tr, self.path, self.cls, self.fd = tr, path, cls, fd
        self.src = module(path)[0]
        self.localfuns = {}
        self.live_stack = []
        self.counter = 0
        # effects (see EFFECTS): what the function being translated may do, what has occurred so far, the effectful operations of
        # the statement being translated that still have to be wrapped around it (`pending`), and where we are:
        #   ctx 'fun'  : statement level of the function body (its declared effects may be flushed here)
        #   ctx 'loop' : body of a `while` loop, whose Fixpoint returns `option`: only running out of fuel may be flushed
        #   ctx 'pure' : body of a fold / inlined function / comprehension: nothing may be flushed
        self.effects, self.cname, self.file = frozenset(), None, None
        self.occurred = set()
        self.pending = []
        self.ctx_stack = ['fun']
        self.pure_depth = 0          # > 0: inside an expression that Python evaluates conditionally or repeatedly
        self.fuel_names = ['fuel']   # name of the fuel budget in the current context
        self.fuel_used = [False]
        self.loop_stack = []         # (exit, again) continuations of the enclosing `while`; None under a `for`
        self.loop_ids = {}
        self.loop_flags = []         # per enclosing while: {'exc': does its body raise}
        self.trial = 0               # > 0: translating a loop body only to infer the types of its carried variables

    def fresh(self, base):
        self.counter += 1
        return f'{base}_{self.counter}'

    def fail(self, msg, node=None):
        where = f'{self.path}:{getattr(node, "lineno", self.fd.lineno)}'
        raise Untranslatable(f'{where} ({self.fd.name}): {msg}')

    # ------------------------------------------------------------------ constants
    def lit_float(self, node):
        v = node.value
        seg = ast.get_source_segment(self.src, node)
        try:
            q = Fraction(seg.replace('_', ''))
        except Exception:
            q = Fraction(repr(v))
        if float(q) != v: self.fail(f'literal {seg} does not evaluate to its float', node)
        return Val('S', f'(lit O ({q.numerator}) ({q.denominator}) ({v.hex()})%float)')

    def global_const(self, name, node):
        paths = [self.path]
        src, tree = module(self.path)
        for n in tree.body:
            if isinstance(n, ast.ImportFrom) and n.module and n.module.startswith('beziers'):
                for a in n.names:
                    if a.name == name:
                        p = n.module.split('.', 1)[1].replace('.', '/')
                        paths.append(p + '.py' if os.path.exists(os.path.join(SRC, p + '.py')) else p + '/__init__.py')
        for p in paths:
            s, t = module(p)
            for n in t.body:
                if isinstance(n, ast.Assign) and len(n.targets) == 1 and isinstance(n.targets[0], ast.Name) and n.targets[0].id == name:
                    if p in NAMED_GLOBAL_MODULES: return self.tr.global_def(self, p, name, n)
                    sub = FunTx(self.tr, p, None, self.fd)
                    return sub.expr(n.value, {})
        return None

    # ------------------------------------------------------------------ expressions
    def expr(self, n, env):
        tr = self.tr
        if isinstance(n, ast.Constant):
            v = n.value
            if isinstance(v, bool) or v is None or isinstance(v, str): return Val('K', const=v)
            if isinstance(v, int): return Val('I', const=v)
            if isinstance(v, float): return self.lit_float(n)
            self.fail(f'constant {v!r}', n)
        if isinstance(n, ast.Name):
            if n.id in env: return env[n.id]
            if n.id in self.localfuns: return Val('K', const=('localfun', n.id))
            g = self.global_const(n.id, n)
            if g is not None: return g
            if n.id in ('Point', 'Line', 'QuadraticBezier', 'CubicBezier', 'AffineTransformation'):
                return Val('K', const=('class', n.id))
            if n.id == 'BezierPath' and imports_name(self.path, 'BezierPath', 'beziers.path'):
                return Val('K', const=('class', 'BezierPath'))
            self.fail(f'unbound name {n.id}', n)
        if isinstance(n, ast.UnaryOp):
            a = self.expr(n.operand, env)
            if isinstance(n.op, ast.USub):
                if a.ty == 'I': return Val('I', const=-a.const)
                if a.ty == 'S': return Val('S', f'(neg O {a.tx})')
                self.fail(f'negation of {a.ty}', n)
            if isinstance(n.op, ast.Not):
                return self.truth(a, n, negate=True)
            self.fail('unary op', n)
        if isinstance(n, ast.BinOp):
            return self.binop(type(n.op).__name__, self.expr(n.left, env), self.expr(n.right, env), n)
        if isinstance(n, ast.Compare):
            parts = []
            left = self.expr(n.left, env)
            for op, rn in zip(n.ops, n.comparators):
                right = self.expr(rn, env)
                parts.append(self.compare(type(op).__name__, left, right, n))
                left = right
            return self.conj(parts, 'andb')
        if isinstance(n, ast.BoolOp):
            vs = [self.truth(self.expr(n.values[0], env), n)] + self.purely(lambda: [self.truth(self.expr(v, env), n) for v in n.values[1:]])
            return self.conj(vs, 'andb' if isinstance(n.op, ast.And) else 'orb')
        if isinstance(n, ast.IfExp):
            c = self.truth(self.expr(n.test, env), n)
            a, b = self.purely(lambda: (self.expr(n.body, env), self.expr(n.orelse, env)))
            if c.ty == 'K': return a if c.const else b
            return self.join(c, a, b, n)
        if isinstance(n, ast.Attribute):
            return self.attribute(n, env)
        if isinstance(n, ast.Subscript):
            return self.subscript(n, env)
        if isinstance(n, ast.Call):
            return self.call(n, env)
        if isinstance(n, ast.Tuple):
            return Val('TUP', items=[self.expr(e, env) for e in n.elts])
        if isinstance(n, ast.List):
            return Val('FL', items=[self.expr(e, env) for e in n.elts])
        if isinstance(n, ast.ListComp):
            return self.listcomp(n, env)
        self.fail(f'expression {type(n).__name__}', n)

    def conj(self, parts, f):
        # translation-time folding of constants, left to right (Python short-circuit has no effects here)
        out = None
        for p in parts:
            if p.ty == 'K':
                if (f == 'andb' and p.const is False) or (f == 'orb' and p.const is True): return p if out is None else Val('B', f'({f} {out.tx} {"false" if f == "andb" else "true"})')
                continue
            out = p if out is None else Val('B', f'({f} {out.tx} {p.tx})')
        if out is None: return Val('K', const=(f == 'andb'))
        return out

    def truth(self, v, n, negate=False):
        if v.ty == 'K':
            if isinstance(v.const, tuple): b = True
            else: b = bool(v.const)
            return Val('K', const=(not b) if negate else b)
        if v.ty == 'I':
            return Val('K', const=(not v.const) if negate else bool(v.const))
        if v.ty == 'B':
            return Val('B', f'(negb {v.tx})') if negate else v
        if isinstance(v.ty, tuple) and v.ty[0] == 'L':
            return Val('B', f'(isnil {v.tx})') if negate else Val('B', f'(negb (isnil {v.tx}))')
        if v.ty == 'FL':
            return Val('K', const=(not v.items) if negate else bool(v.items))
        if v.ty == 'LEN':
            return Val('B', f'(isnil {v.tx})') if negate else Val('B', f'(negb (isnil {v.tx}))')
        if isinstance(v.ty, tuple) and v.ty[0] == 'O':
            if v.ty[1] == 'S':   # Optional[float]: None and 0.0 are both falsy
                t = f'(match {v.tx} with None => false | Some z_ => negb (eqb O z_ (ofZ O 0)) end)'
            else:
                t = f'(match {v.tx} with None => false | Some _ => true end)'
            return Val('B', f'(negb {t})') if negate else Val('B', t)
        if v.ty == 'M' or v.ty == 'P' or v.ty in SEGN:
            self.always_truthy(v.ty, n)
            return Val('K', const=not True if negate else True)
        self.fail(f'truth value of {v.ty!r}', n)

    def always_truthy(self, ty, n):
        """an instance is truthy unless its class defines __bool__ or __len__ (Segment.__len__ is the number of points, never 0)"""
        cls = CLASS_OF[ty]
        for m in ('__bool__', '__len__'):
            try: find_def(cls, m)
            except KeyError: continue
            if ty in SEGN and m == '__len__': continue
            self.fail(f'{cls} defines {m}: the truth value of an instance is not constant', n)

    def binop(self, op, a, b, n):
        tr = self.tr
        num = lambda v: v.ty in ('S', 'I', 'LEN')
        if a.ty == 'I' and b.ty == 'I':
            x, y = a.const, b.const
            if op == 'Add': return Val('I', const=x + y)
            if op == 'Sub': return Val('I', const=x - y)
            if op == 'Mult': return Val('I', const=x * y)
            if op == 'FloorDiv': return Val('I', const=x // y)
            if op == 'Mod': return Val('I', const=x % y)
            if op == 'Div': return Val('S', f'(dvd O (ofZ O ({x})) (ofZ O ({y})))')
            if op == 'Pow' and y >= 0: return Val('I', const=x ** y)
            self.fail(f'int op {op}', n)
        if num(a) and num(b):
            f = {'Add': 'add', 'Sub': 'sub', 'Mult': 'mul', 'Div': 'dvd'}.get(op)
            if f: return Val('S', f'({f} O {tr.S(a)} {tr.S(b)})')
            if op == 'Pow':
                if b.ty == 'I' and b.const >= 0: return Val('S', f'(powi O {tr.S(a)} {b.const}%nat)')
                return Val('S', f'(pow_ O {tr.S(a)} {tr.S(b)})')
            self.fail(f'scalar op {op}', n)
        if a.ty == 'P' and b.ty == 'P' and op in ('Add', 'Sub', 'MatMult'):
            m = {'Add': '__add__', 'Sub': '__sub__', 'MatMult': 'dot'}[op]
            return self.callfun('Point', m, [a, b], n)
        if a.ty == 'P' and num(b) and op in ('Mult', 'Div'):
            m = {'Mult': '__mul__', 'Div': '__truediv__'}[op]
            return self.callfun('Point', m, [a, Val('S', tr.S(b))], n)
        self.fail(f'binop {op} on {a.ty!r},{b.ty!r}', n)

    def compare(self, op, a, b, n):
        tr = self.tr
        if a.ty == 'K' or b.ty == 'K':
            if a.ty == 'K' and b.ty == 'K':
                if op in ('Eq', 'Is'): return Val('K', const=a.const == b.const)
                if op in ('NotEq', 'IsNot'): return Val('K', const=a.const != b.const)
            k, o = (a, b) if a.ty == 'K' else (b, a)
            if k.const is None and op in ('Is', 'IsNot', 'Eq', 'NotEq'):
                if isinstance(o.ty, tuple) and o.ty[0] == 'O':
                    t = f'(match {o.tx} with None => true | Some _ => false end)'
                    return Val('B', t if op in ('Is', 'Eq') else f'(negb {t})')
                return Val('K', const=op in ('IsNot', 'NotEq'))
            self.fail(f'comparison with constant {k.const!r}', n)
        if a.ty == 'I' and b.ty == 'I':
            x, y = a.const, b.const
            return Val('K', const={'Lt': x < y, 'LtE': x <= y, 'Gt': x > y, 'GtE': x >= y, 'Eq': x == y, 'NotEq': x != y}[op])
        if a.ty in ('S', 'I') and b.ty in ('S', 'I'):
            x, y = tr.S(a), tr.S(b)
            t = {'Lt': f'(ltb O {x} {y})', 'LtE': f'(leb O {x} {y})', 'Gt': f'(ltb O {y} {x})', 'GtE': f'(leb O {y} {x})',
                 'Eq': f'(eqb O {x} {y})', 'NotEq': f'(neqb O {x} {y})'}.get(op)
            if t: return Val('B', t)
        if a.ty == 'P' and b.ty == 'P' and op in ('Eq', 'NotEq'):
            e = self.callfun('Point', '__eq__', [a, b], n)
            return e if op == 'Eq' else Val('B', f'(negb {e.tx})')
        self.fail(f'compare {op} on {a.ty!r},{b.ty!r}', n)

    def unify(self, a, b, n):
        """coerce two branch results to a common runtime type; returns (texta, textb, type)"""
        tr = self.tr
        if a.ty == 'TUP' and b.ty == 'TUP' and len(a.items) == len(b.items):
            us = [self.unify(x, y, n) for x, y in zip(a.items, b.items)]
            return ('(' + ', '.join(u[0] for u in us) + ')', '(' + ', '.join(u[1] for u in us) + ')', ('T', tuple(u[2] for u in us)))
        isbool = lambda v: v.ty == 'B' or (v.ty == 'K' and isinstance(v.const, bool))
        if isbool(a) and isbool(b): return (tr.text(a), tr.text(b), 'B')
        isnone = lambda v: v.ty == 'K' and (v.const is None or v.const is False)
        if isnone(a) and isnone(b): self.fail('both branches None', n)
        if isnone(a) or isnone(b):
            o = b if isnone(a) else a
            oty = tr.rtype(o)
            if isinstance(oty, tuple) and oty[0] == 'O':
                return ('None' if isnone(a) else tr.text(a), 'None' if isnone(b) else tr.text(b), oty)
            s = f'(Some ({tr.text(o)}))'
            return ('None' if isnone(a) else s, 'None' if isnone(b) else s, ('O', oty))
        if a.ty == 'FL' and not a.items and not (b.ty == 'FL' and not b.items):
            tb = tr.rtype(b)
            if isinstance(tb, tuple) and tb[0] == 'L': return ('[]', tr.text(b), tb)
        if b.ty == 'FL' and not b.items and not (a.ty == 'FL' and not a.items):
            ta = tr.rtype(a)
            if isinstance(ta, tuple) and ta[0] == 'L': return (tr.text(a), '[]', ta)
        if a.ty == 'FL' and not a.items and b.ty == 'FL' and not b.items:
            return ('[]', '[]', ('L', '?'))
        ta, tb = tr.rtype(a), tr.rtype(b)
        if tmatch(ta, tb) is not None: return (tr.text(a), tr.text(b), tmatch(ta, tb))
        for x, y in ((ta, tb), (tb, ta)):
            if isinstance(x, tuple) and x[0] == 'O' and x[1] == y:
                return (tr.text(a) if ta == x else f'(Some ({tr.text(a)}))', tr.text(b) if tb == x else f'(Some ({tr.text(b)}))', x)
        if a.ty == 'FL' and not a.items and isinstance(tb, tuple) and tb[0] == 'L': return ('[]', tr.text(b), tb)
        if b.ty == 'FL' and not b.items and isinstance(ta, tuple) and ta[0] == 'L': return (tr.text(a), '[]', ta)
        self.fail(f'branches of different types {ta!r} / {tb!r}', n)

    def join(self, c, a, b, n):
        if a.ty == 'FL' and not a.items and b.ty == 'FL' and not b.items: return a
        x, y, t = self.unify(a, b, n)
        return Val(t, f'(if {c.tx} then {x} else {y})')

    def attribute(self, n, env):
        tr = self.tr
        # math.pi, sys.float_info.epsilon
        if isinstance(n.value, ast.Name) and n.value.id == 'math' and 'math' not in env:
            if n.attr == 'pi': return Val('S', '(pi_ O)')
            return Val('K', const=('math', n.attr))
        if isinstance(n.value, ast.Attribute) and isinstance(n.value.value, ast.Name) and n.value.value.id == 'sys' \
                and n.value.attr == 'float_info' and n.attr == 'epsilon':
            return Val('S', '(lit O 1 4503599627370496 0x1p-52%float)')
        if isinstance(n.value, ast.Name) and n.value.id == 'pyclipper': self.fail('pyclipper', n)
        v = self.expr(n.value, env)
        a = n.attr
        if v.ty == 'P':
            if a in ('x', 'y'): return Val('S', f'(p{a} {v.tx})')
            return self.property_or_method(v, a, n)
        if v.ty in SEGN:
            if a == 'points': return Val('FL', items=[Val('P', f'({p} {v.tx})') for p in SEGPROJ[v.ty]])
            if a == 'start': return Val('P', f'({SEGPROJ[v.ty][0]} {v.tx})')
            if a == 'end': return Val('P', f'({SEGPROJ[v.ty][-1]} {v.tx})')
            if a == 'order': return Val('I', const=SEGN[v.ty])
            if a == '__class__': return Val('K', const=('class', CLASS_OF[v.ty]))
            return self.property_or_method(v, a, n)
        if v.ty == 'M':
            if a == 'matrix': return v
            return self.property_or_method(v, a, n)
        if v.ty == 'BB':
            if a in ('bl', 'tr'): return Val('P', f'({a} {v.tx})')
            return self.property_or_method(v, a, n)
        if v.ty == 'UBB' and a in UNSET_BOX:
            return v.const[a] if v.const[a] is not None else Val('K', const=None)
        if v.ty == 'PATH':
            if a == 'asSegments':
                self.tr.fingerprints['path/__init__.py:BezierPath.asSegments'] = fingerprint(find_def('BezierPath', 'asSegments')[1])
                return Val('K', const=('asSegments', v))
            return self.property_or_method(v, a, n)
        if v.ty == 'SEG':
            kinds = {('property' in decorators(find_def(CLASS_OF[t], a)[1])) for _, t in SEGSUM if self.has_attr(CLASS_OF[t], a)}
            if len(kinds) != 1 or not all(self.has_attr(CLASS_OF[t], a) for _, t in SEGSUM): self.fail(f'attribute .{a} is not the same kind of thing in the three classes of segment', n)
            if kinds == {True}: return self.seg_dispatch(v, lambda c, sv: self.callfun(c, a, [sv], n), n)
            return Val('K', const=('bounddyn', a, v))
        if v.ty == 'IX':
            if a == 't1': return Val('S', f'(fst (fst {v.tx}))')
            if a == 'point': return Val('P', f'(snd (fst {v.tx}))')
            if a == 't2': return Val('S', f'(snd {v.tx})')
        if v.ty == 'K' and isinstance(v.const, tuple) and v.const[0] == 'class':
            return Val('K', const=('classattr', v.const[1], a))
        if v.ty == 'CDF':
            if a == 'bez1': return v.items[0]
            if a == 'bez2': return v.items[1]
            if a in ('D', 'S'): return Val('K', const=('cdfmethod', a, v))
        self.fail(f'attribute .{a} of {v.ty!r}', n)

    def has_attr(self, cls, a):
        try: find_def(cls, a); return True
        except KeyError: return False

    def seg_dispatch(self, v, f, n):
        """`match v with SLine s_ => f Line s_ | SQuad s_ => .. | SCubic s_ => .. end` for a value v of the sum type; results that are
        segments of the receiver's own class (or tuples of them) are injected back into the sum"""
        tr = self.tr
        def inject(t, tx):
            if t in SEGN: return 'SEG', f'({[c for c, k in SEGSUM if k == t][0]} {tx})'
            if isinstance(t, tuple) and t[0] == 'T' and any(x in SEGN for x in t[1]):
                names = [f'y{i}_' for i in range(len(t[1]))]
                pat = names[0]
                for nm in names[1:]: pat = f'({pat}, {nm})'
                parts = [inject(x, nm) for x, nm in zip(t[1], names)]
                return ('T', tuple(p[0] for p in parts)), f"(let '{pat} := {tx} in (" + ', '.join(p[1] for p in parts) + '))'
            return t, tx
        arms, tys = [], []
        for con, t in SEGSUM:
            r = self.purely(lambda: f(CLASS_OF[t], Val(t, 's_')))       # an effectful method cannot be dispatched inside an expression
            if r.ty in ('K', 'FL', 'TUP'): self.fail('dispatch on the class of a segment yields translation-time structure', n)
            ty, tx = inject(tr.rtype(r), tr.text(r))
            arms.append(f'{con} s_ => {tx}'); tys.append(ty)
        if any(t != tys[0] for t in tys): self.fail(f'the three classes of segment give different types: {tys!r}', n)
        return Val(tys[0], f'(match {v.tx} with ' + ' | '.join(arms) + ' end)')

    def property_or_method(self, v, a, n):
        cls = CLASS_OF[v.ty]
        try:
            path, fd, defcls = find_def(cls, a)
        except KeyError:
            self.fail(f'{cls} has no attribute {a}', n)
        if 'property' in decorators(fd):
            return self.callfun(cls, a, [v], n)
        return Val('K', const=('bound', cls, a, v))

    def subscript(self, n, env):
        v = self.expr(n.value, env)
        def dynlist(v): return isinstance(v.ty, tuple) and v.ty[0] == 'L' and v.ty[1] != '?' and v.tx is not None
        if isinstance(n.slice, ast.Slice):
            sl = n.slice
            if dynlist(v) and sl.lower is None and sl.step is None and sl.upper is not None:
                k = self.expr(sl.upper, env)
                if k.ty == 'S' and k.const == 'int': return Val(v.ty, f'(py_slice_to O {v.tx} {k.tx})')     # l[:k], k a Python int
            self.fail('slice', n)
        i = self.expr(n.slice, env)
        if dynlist(v) and i.ty == 'S' and i.const == 'int' and 'exc' in self.effects:
            x = self.fresh('x')
            self.push_effect({'effects': {'exc'}, 'what': 'indexing by a computed int (IndexError)', 'kind': 'index', 'text': f'{v.tx} {i.tx}', 'pat': x}, n)
            return Val(v.ty[1], x)
        if v.ty in SEGN and i.ty == 'I':
            k = i.const if i.const >= 0 else i.const + SEGN[v.ty]
            if not 0 <= k < SEGN[v.ty]: self.fail('segment index out of range', n)
            return Val('P', f'({SEGPROJ[v.ty][k]} {v.tx})')
        if v.ty in ('FL', 'TUP') and i.ty == 'I':
            try: return v.items[i.const]
            except IndexError: self.fail('index out of range', n)
        if v.ty == 'M' and i.ty == 'I':
            r = i.const
            return Val('FL', items=[Val('S', f'(m{r}{c} {v.tx})') for c in range(3)])
        if isinstance(v.ty, tuple) and v.ty[0] == 'L' and v.ty[1] != '?' and i.ty == 'I' and v.tx is not None:
            # a dynamic list indexed by a literal: l[0] where l is known to be h :: t, and l[-1] (IndexError when l is empty)
            if i.const == 0 and isinstance(v.const, tuple) and v.const[0] == 'cons': return Val(v.ty[1], v.const[1])
            if i.const == -1:
                x = self.fresh('x')
                self.push_effect({'effects': {'exc'}, 'what': 'indexing [-1] (IndexError)', 'kind': 'last', 'text': v.tx, 'pat': x}, n)
                return Val(v.ty[1], x)
            self.fail(f'index {i.const} of a list not known to be long enough', n)
        if isinstance(v.ty, tuple) and v.ty[0] == 'T' and i.ty == 'I':
            k, nn = i.const, len(v.ty[1])
            if k < 0: k += nn
            t = v.tx
            for _ in range(nn - 1 - k): t = f'(fst {t})'
            if k > 0: t = f'(snd {t})'
            return Val(v.ty[1][k], t)
        self.fail(f'subscript of {v.ty!r} by {i.ty!r}', n)

    def listcomp(self, n, env):
        if len(n.generators) != 1: self.fail('nested comprehension', n)
        g = n.generators[0]
        if not isinstance(g.target, ast.Name): self.fail('comprehension target', n)
        it = self.expr(g.iter, env)
        x = g.target.id
        if it.ty == 'FL':
            out = []
            dynamic = False
            for item in it.items:
                e2 = dict(env); e2[x] = item
                keep = True
                for c in g.ifs:
                    cv = self.truth(self.expr(c, e2), n)
                    if cv.ty != 'K': dynamic = True; break
                    keep = keep and cv.const
                if dynamic: break
                if keep: out.append(self.expr(n.elt, e2))
            if not dynamic: return Val('FL', items=out)
            it = Val(self.tr.rtype(it), self.tr.text(it))
        if isinstance(it.ty, tuple) and it.ty[0] == 'L':
            et = it.ty[1]
            e2 = dict(env); e2[x] = Val(et, 'v_' + x)
            t = it.tx
            if g.ifs:
                cs = self.conj(self.purely(lambda: [self.truth(self.expr(c, e2), n) for c in g.ifs]), 'andb')
                t = f'(filter (fun v_{x} => {self.tr.text(cs)}) {t})'
            if self.pure_depth > 0 or g.ifs:
                el = self.purely(lambda: self.expr(n.elt, e2))
            else:
                # the element may raise (never consume fuel): [f(x) for x in l] is then map_outcome, the first exception in list order wins
                mark = len(self.pending)
                el = self.expr(n.elt, e2)
                ents = self.pending[mark:]
                del self.pending[mark:]
                if ents:
                    if el.ty in ('K', 'FL', 'TUP'): self.fail('raising comprehension element of translation-time structure', n)
                    body = self.in_ctx('comp', lambda: self.wrap(ents, f'(Returns {self.tr.text(el)})', 'comp', n))
                    r = self.fresh('r')
                    self.push_effect({'effects': {'exc'}, 'what': 'comprehension whose element may raise', 'kind': 'call',
                                      'text': f'(map_outcome (fun v_{x} =>\n  {body}) {t})', 'pat': r}, n)
                    return Val(('L', self.tr.rtype(el)), r)
            if isinstance(n.elt, ast.Name) and n.elt.id == x: return Val(('L', et), t)
            return Val(('L', self.tr.rtype(el)), f'(map (fun v_{x} => {self.tr.text(el)}) {t})')
        self.fail(f'comprehension over {it.ty!r}', n)

    # ------------------------------------------------------------------ calls
    def callfun(self, cls, name, args, n, consts=()):
        """call translated method; args includes the receiver first (unless classmethod)"""
        try:
            cname, rty, file = self.tr.function(cls, name, consts)
        except KeyError:
            self.fail(f'cannot find {cls}.{name}', n)
        if (cls, name) in SELF_TY and (not args or args[0].ty != SELF_TY[(cls, name)]):
            self.fail(f'{cls}.{name} takes its receiver as a {SELF_TY[(cls, name)]!r}', n)
        argt = ' '.join(self.argtext(a) for a in args)
        m = is_mtype(rty)
        if m is not None:
            # the callee consumes fuel and/or may raise: its result is bound around the statement being translated
            eff, inner = m
            fuel = self.budget() + ' ' if 'fuel' in eff else ''
            r = self.fresh('r')
            self.push_effect({'effects': set(eff), 'what': f'call of {cname}', 'kind': 'call', 'text': f'({cname} O {fuel}{argt})'.replace(' )', ')'), 'pat': r}, n)
            return Val(inner, r)
        return Val(rty, f'({cname} O {argt})'.replace(' )', ')'))

    # ------------------------------------------------------------------ effects
    def purely(self, thunk):
        self.pure_depth += 1
        try: return thunk()
        finally: self.pure_depth -= 1

    def in_ctx(self, ctx, thunk):
        self.ctx_stack.append(ctx)
        try: return thunk()
        finally: self.ctx_stack.pop()

    def budget(self):
        if 'fuel' not in self.effects: self.fail('a fuelled operation in a function not declared to use fuel (EFFECTS)')
        self.fuel_used[-1] = True
        self.occurred.add('fuel')
        return self.fuel_names[-1]

    def push_effect(self, ent, n):
        if self.pure_depth > 0: self.fail(f'{ent["what"]} in an expression that is evaluated conditionally or repeatedly', n)
        if not ent['effects'] <= set(self.effects): self.fail(f'{ent["what"]} in a function not declared with effects {sorted(ent["effects"])} (EFFECTS)', n)
        self.pending.append(ent)

    def raise_text(self, e, ctx=None):
        """`raise e` as a result of the function being translated / of the enclosing loop / of one element of a comprehension"""
        ctx = ctx or self.ctx_stack[-1]
        if ctx == 'loop': return f'(Some (Raises {e}))'
        if ctx == 'comp': return f'(Raises {e})'
        return f'(Some (Raises {e}))' if 'fuel' in self.effects else f'(Raises {e})'

    def mreturn(self, v):
        tr = self.tr
        if v.ty == 'K' and v.const is None: return v
        t, tx = tr.rtype(v), tr.text(v)
        if 'exc' in self.effects: tx = f'(Returns {tx})'
        if 'fuel' in self.effects: tx = f'(Some {tx})'
        return Val(mtype(self.effects, t), tx)

    def flush(self, mark, r, node):
        """wrap the effectful operations of one statement (pushed since `mark`) around the translation r of it and of what follows"""
        ents = self.pending[mark:]
        del self.pending[mark:]
        if not ents: return r
        if r.ty == 'K' and r.const is None: self.fail('effectful operation on a path that returns None', node)
        if is_mtype(self.tr.rtype(r)) is None:
            raise EffectInJoin(f'{self.path}:{getattr(node, "lineno", self.fd.lineno)} ({self.fd.name}): effectful operation where the continuation is not a function result')
        return self.retext(r, self.wrap(ents, self.tr.text(r), self.ctx_stack[-1], node))

    def wrap(self, ents, t, ctx, node):
        # a loop body may raise only in a function that declares it; the loop's Fixpoint then returns option (outcome _)
        allowed = {'fun': set(self.effects), 'loop': {'fuel'} | ({'exc'} & set(self.effects)), 'comp': {'exc'} & set(self.effects), 'pure': set()}[ctx]
        for ent in reversed(ents):
            if not ent['effects'] <= allowed: self.fail(f'{ent["what"]} inside a {ctx} body', node)
            self.occurred |= ent['effects']
            if ctx == 'loop' and 'exc' in ent['effects']: self.loop_flags[-1]['exc'] = True
            if ent['kind'] == 'floor':
                t = (f'if negb (eqb O {ent["text"]} {ent["text"]}) then {self.raise_text("PyValueError")}\n  else if isinf_ O {ent["text"]} then {self.raise_text("PyOverflowError")}\n'
                     f'  else let {ent["pat"]} := (floor_ O {ent["text"]}) in\n  {t}')
            elif ent['kind'] == 'index':
                t = f'match py_index O {ent["text"]} with\n  | None => {self.raise_text("PyIndexError")}\n  | Some {ent["pat"]} =>\n  {t}\n  end'
            elif ent['kind'] == 'last':
                t = f'match last_error {ent["text"]} with\n  | None => {self.raise_text("PyIndexError")}\n  | Some {ent["pat"]} =>\n  {t}\n  end'
            elif ent['effects'] == {'fuel'}:
                t = f'match {ent["text"]} with\n  | None => None\n  | Some {ent["pat"]} =>\n  {t}\n  end'
            elif ent['effects'] == {'exc'}:
                t = f'match {ent["text"]} with\n  | Raises e_ => {self.raise_text("e_")}\n  | Returns {ent["pat"]} =>\n  {t}\n  end'
            else:
                t = f'match {ent["text"]} with\n  | None => None\n  | Some (Raises e_) => {self.raise_text("e_")}\n  | Some (Returns {ent["pat"]}) =>\n  {t}\n  end'
        return t

    def argtext(self, a):
        t = self.tr.text(a)
        return t

    def bindargs(self, fd, args, kwargs, n, skip_self, defpath=None):
        """positional+keyword+defaults -> list of Val in parameter order (self excluded);
        with defpath, default expressions are evaluated in the namespace of that module (where Python evaluated them)"""
        dfx = self if defpath is None or defpath == self.path else FunTx(self.tr, defpath, None, fd)
        if len(args) > len([a.arg for a in fd.args.args][1 if skip_self else 0:]) and defpath is not None: self.fail('too many positional arguments', n)
        if defpath is not None and (set(kwargs) - {a.arg for a in fd.args.args}): self.fail('unknown keyword argument', n)
        params = [a.arg for a in fd.args.args][1 if skip_self else 0:]
        defaults = fd.args.defaults
        dmap = {}
        allp = [a.arg for a in fd.args.args]
        for p, d in zip(allp[len(allp) - len(defaults):], defaults): dmap[p] = d
        out = []
        for i, p in enumerate(params):
            if i < len(args): out.append(args[i])
            elif p in kwargs: out.append(kwargs[p])
            elif p in dmap: out.append(dfx.expr(dmap[p], {}))
            else: self.fail(f'missing argument {p}', n)
        return out

    def coerce_args(self, cls, name, vals, n):
        """apply the signature table: constants split off, Optional wrapping, int->scalar"""
        sig = sig_of(cls, name, len(vals))
        consts, out = [], []
        for v, ty in zip(vals, sig):
            if ty == 'K':
                if v.ty != 'K': self.fail(f'argument of {cls}.{name} must be constant', n)
                consts.append(v.const)
            elif ty == 'A':
                if not (isinstance(v.ty, str) and v.ty in ARG_CLASSES[(cls, name)]): self.fail(f'argument class {v.ty!r} of {cls}.{name}', n)
                consts.append(('ty', v.ty)); out.append(v)
            elif ty == 'S':
                out.append(Val('S', self.tr.S(v)))
            elif ty == 'B':
                out.append(Val('B', self.tr.text(v)))
            elif isinstance(ty, tuple) and ty[0] == 'O':
                if v.ty == 'K' and v.const is None: out.append(Val(ty, 'None'))
                elif self.tr.rtype(v) == ty: out.append(v)
                else: out.append(Val(ty, f'(Some {self.tr.S(v) if ty[1] == "S" else self.tr.text(v)})'))
            else:
                if self.tr.rtype(v) != ty: self.fail(f'argument type {self.tr.rtype(v)!r} where {ty!r} expected in {cls}.{name}', n)
                out.append(v)
        return out, tuple(consts)

    def call(self, n, env):
        tr = self.tr
        f = n.func
        if isinstance(f, ast.Name) and f.id == 'isinstance' and f.id not in env and f.id not in self.localfuns:
            # decided at translation time from the class of the value; the classes of the table are unrelated by inheritance
            if len(n.args) != 2 or n.keywords or not isinstance(n.args[1], ast.Name) or n.args[1].id not in TY_OF_CLASS or n.args[1].id in env:
                self.fail('isinstance form', n)
            v = self.expr(n.args[0], env)
            if isinstance(v.ty, str) and v.ty in CLASS_OF: return Val('K', const=(CLASS_OF[v.ty] == n.args[1].id))
            self.fail(f'isinstance of {v.ty!r}', n)
        args = [self.expr(a, env) if not isinstance(a, ast.Starred) else Val('STAR', items=self.expr(a.value, env)) for a in n.args]
        kwargs = {k.arg: self.expr(k.value, env) for k in n.keywords}
        # ---- builtins by name
        if isinstance(f, ast.Name) and f.id not in env and f.id not in self.localfuns:
            name = f.id
            if name == 'abs':
                a = args[0]
                if a.ty == 'I': return Val('I', const=abs(a.const))
                return Val('S', f'(abs_ O {tr.S(a)})')
            if name in ('min', 'max') and len(args) >= 2 and not kwargs:
                # builtin max/min over positional arguments: keep the first, replace when a later one compares strictly better
                if all(a.ty == 'I' for a in args): return Val('I', const=(min if name == 'min' else max)(a.const for a in args))
                acc = tr.S(args[0])
                for b in args[1:]: acc = f'({name}2 O {acc} {tr.S(b)})'
                return Val('S', acc)
            if name == 'len':
                a = args[0]
                if a.ty in SEGN: return Val('I', const=SEGN[a.ty])
                if a.ty in ('FL', 'TUP'): return Val('I', const=len(a.items))
                if isinstance(a.ty, tuple) and a.ty[0] == 'L': return Val('LEN', tx=a.tx)
                self.fail('len', n)
            if name == 'float':
                a = args[0]
                return Val('S', tr.S(a))
            if name == 'int':
                a = args[0]
                if a.ty == 'I': return a
                if a.ty == 'S' and a.const == 'int': return a       # int(math.floor(x)): already an int
                return Val('S', f'(trunc_ O {tr.S(a)})')
            if name == 'sqrt': return Val('S', f'(sqrt_ O {tr.S(args[0])})')
            if name == 'isclose':
                if kwargs: self.fail('isclose with tolerances', n)
                return Val('B', f'(isclose O {tr.S(args[0])} {tr.S(args[1])})')
            if name == 'sorted':
                a = args[0]
                if kwargs: self.fail('sorted with key', n)
                if a.ty == 'FL': a = Val(tr.rtype(a), tr.text(a))
                if a.ty == ('L', 'S'): return Val(a.ty, f'(sort_ O {a.tx})')
                self.fail(f'sorted of {a.ty!r}', n)
            if name == 'reversed':
                a = args[0]
                if a.ty == 'FL': return Val('FL', items=list(reversed(a.items)))
                self.fail('reversed of dynamic list', n)
            if name == 'list':
                return args[0]
            if name == 'print':
                return Val('K', const=None)
            if name == 'type' and len(args) == 1 and args[0].ty in CLASS_OF:
                return Val('K', const=('class', CLASS_OF[args[0].ty]))
            if name == 'range':
                if all(a.ty == 'I' for a in args):
                    return Val('FL', items=[Val('I', const=i) for i in range(*[a.const for a in args])])
                self.fail('dynamic range', n)
            if name == 'zip':
                if all(a.ty == 'FL' for a in args):
                    return Val('FL', items=[Val('TUP', items=list(t)) for t in zip(*[a.items for a in args])])
                if len(args) == 2 and not kwargs and all(isinstance(a.ty, tuple) and a.ty[0] == 'L' and a.ty[1] != '?' for a in args):
                    # zip of two lists stops at the shorter one, as List.combine does
                    return Val(('L', ('T', (args[0].ty[1], args[1].ty[1]))), f'(combine {args[0].tx} {args[1].tx})')
                self.fail('dynamic zip', n)
            if name in TY_OF_CLASS or name == 'klass' or name == 'Intersection':
                return self.construct(name, args, n)
            if (self.path, name) in INT_FUNS or (self.path, ALIASES.get((self.path, name))) in INT_FUNS:
                if not all(a.ty == 'I' for a in args): self.fail(f'{name} needs translation-time ints', n)
                return Val('I', const=run_int_function(self.path, ALIASES.get((self.path, name), name), [a.const for a in args]))
            if (self.path, ALIASES.get((self.path, name), name)) in INLINE_FUNS:
                fd2 = find_modfun(self.path, ALIASES.get((self.path, name), name))
                self.tr.fingerprints[f'{self.path}:.{fd2.name}'] = fingerprint(fd2)
                sub = FunTx(self.tr, self.path, None, fd2)
                sub.counter = self.counter + 1000 * (1 + len(self.tr.fingerprints))
                sub.closure_env = {}
                r = sub.inline(fd2, args, kwargs, n)
                return r
            if (self.path, name) in MODSIG or self.modfun_path(name):
                p = self.modfun_path(name)
                return self.call_modfun(p, name, args, kwargs, n)
            self.fail(f'call of {name}', n)
        fv = self.expr(f, env)
        if fv.ty == 'K' and isinstance(fv.const, tuple):
            kind = fv.const[0]
            if kind == 'math':
                m = fv.const[1]
                if m in ('sqrt', 'cos', 'sin', 'acos'): return Val('S', f'({m}_ O {tr.S(args[0])})')
                if m in ('atan2', 'pow', 'copysign'): return Val('S', f'({m}_ O {tr.S(args[0])} {tr.S(args[1])})')
                if m == 'floor' and 'exc' in self.effects:
                    # math.floor raises ValueError on a NaN and OverflowError on an infinity; its result is an int
                    x = tr.S(args[0])
                    f_ = self.fresh('f')
                    self.push_effect({'effects': {'exc'}, 'what': 'math.floor (ValueError, OverflowError)', 'kind': 'floor', 'text': x, 'pat': f_}, n)
                    return Val('S', f_, const='int')
                if m == 'floor': return Val('S', f'(floor_ O {tr.S(args[0])})')
                if m == 'isclose': return Val('B', f'(isclose O {tr.S(args[0])} {tr.S(args[1])})')
                self.fail(f'math.{m}', n)
            if kind == 'class':
                return self.construct(fv.const[1], args, n)
            if kind == 'classattr':
                _, cls, a = fv.const
                if a == 'fromRepr': self.fail('fromRepr', n)
                if cls == 'BezierPath':
                    # a path built by BezierPath.fromSegments(array) is represented by the list of its segments
                    # (fromSegments stores the array; asSegments() hands the same list back)
                    if a != 'fromSegments' or len(args) != 1 or kwargs: self.fail(f'BezierPath.{a}', n)
                    l = args[0]
                    lt = tr.rtype(l) if l.ty != 'STAR' else None
                    if not (isinstance(lt, tuple) and lt[0] == 'L' and lt[1] in SEGN): self.fail(f'BezierPath.fromSegments of {lt!r}', n)
                    return Val(lt, tr.text(l))
                path, fd, defcls = find_def(cls, a)
                vals = self.bindargs(fd, args, kwargs, n, skip_self=True)
                vals, consts = self.coerce_args(cls, a, vals, n)
                return self.callfun(cls, a, vals, n, consts)
            if kind == 'bound':
                _, cls, a, recv = fv.const
                path, fd, defcls = find_def(cls, a)
                vals = self.bindargs(fd, args, kwargs, n, skip_self=True)
                vals, consts = self.coerce_args(cls, a, vals, n)
                return self.callfun(cls, a, [recv] + vals, n, consts)
            if kind == 'localfun':
                return self.inline(self.localfuns[fv.const[1]], args, kwargs, n)
            if kind == 'asSegments':
                if args or kwargs: self.fail('asSegments with arguments', n)
                return Val(('L', 'SEG'), fv.const[1].tx)
            if kind == 'bounddyn':
                _, a, recv = fv.const
                def one(cls, sv):
                    path, fd, defcls = find_def(cls, a)
                    vals = self.bindargs(fd, args, kwargs, n, skip_self=True)
                    vals, consts = self.coerce_args(cls, a, vals, n)
                    return self.callfun(cls, a, [sv] + vals, n, consts)
                return self.seg_dispatch(recv, one, n)
            if kind == 'cdfmethod':
                _, mname, recv = fv.const
                fd2 = find_cdf_method(mname)
                self.tr.fingerprints[f'utils/curvedistance.py:MinimumCurveDistanceFinder.{mname}'] = fingerprint(fd2)
                fd3 = ast.FunctionDef(name=fd2.name, args=fd2.args, body=strip_memo(fd2), decorator_list=[], lineno=fd2.lineno)
                sub = FunTx(self.tr, 'utils/curvedistance.py', None, fd3)
                sub.counter = self.counter + 100000
                sub.closure_env = {}
                return sub.inline(fd3, [recv] + args, kwargs, n)
        self.fail(f'call of {ast.dump(f)[:80]}', n)

    def modfun_path(self, name):
        src, tree = module(self.path)
        for nn in tree.body:
            if isinstance(nn, ast.FunctionDef) and nn.name == name: return self.path
            if isinstance(nn, ast.ImportFrom) and nn.module and nn.module.startswith('beziers'):
                for a in nn.names:
                    if a.name == name:
                        p = nn.module.split('.', 1)[1].replace('.', '/')
                        p = p + '.py' if os.path.exists(os.path.join(SRC, p + '.py')) else p + '/__init__.py'
                        if (p, name) in MODSIG: return p
        return None

    def call_modfun(self, path, name, args, kwargs, n):
        fd = find_modfun(path, name)
        vals = self.bindargs(fd, args, kwargs, n, skip_self=False, defpath=path)
        sig = MODSIG[(path, name)]
        if len(sig) != len(vals): self.fail(f'{name}: signature table has {len(sig)} args, call binds {len(vals)}', n)
        vals = [self.coerce_to(v, t, name, n) for v, t in zip(vals, sig)]
        cname, rty, file = self.tr.function('mod:' + path, name)
        return Val(rty, f'({cname} O {" ".join(self.tr.text(v) for v in vals)})')

    def coerce_to(self, v, t, what, n):
        """argument of a module function against its declared type"""
        tr = self.tr
        if t == 'S': return Val('S', tr.S(v))
        if isinstance(t, tuple) and t[0] == 'O':
            if v.ty == 'K' and v.const is None: return Val(t, 'None')
            vt = tr.rtype(v)
            if vt == t: return Val(t, tr.text(v))
            if vt == t[1] or (t[1] == 'S' and v.ty == 'I'): return Val(t, f'(Some {tr.S(v) if t[1] == "S" else tr.text(v)})')
            self.fail(f'argument type {vt!r} where {t!r} expected in {what}', n)
        if tr.rtype(v) != t: self.fail(f'argument type {tr.rtype(v)!r} where {t!r} expected in {what}', n)
        return v

    def construct(self, name, args, n):
        tr = self.tr
        if name == 'klass':
            if self.cls is None: self.fail('klass outside class', n)
            name = self.cls
        flat = []
        for a in args:
            if a.ty == 'STAR':
                if a.items.ty != 'FL': self.fail('splat of dynamic list', n)
                flat.extend(a.items.items)
            else: flat.append(a)
        if name == 'Point':
            if len(flat) != 2: self.fail('Point arity', n)
            return Val('P', f'(P {tr.S(flat[0])} {tr.S(flat[1])})')
        if name in ('Line', 'QuadraticBezier', 'CubicBezier'):
            k = {'Line': 2, 'QuadraticBezier': 3, 'CubicBezier': 4}[name]
            if len(flat) != k or any(p.ty != 'P' for p in flat): self.fail(f'{name} constructor arguments', n)
            return Val(SEGTY[k], f'({SEGCON[k]} {" ".join(p.tx for p in flat)})')
        if name == 'AffineTransformation':
            if len(flat) == 0: return Val('M', '(M3 (ofZ O 1) (ofZ O 0) (ofZ O 0) (ofZ O 0) (ofZ O 1) (ofZ O 0) (ofZ O 0) (ofZ O 0) (ofZ O 1))')
            m = flat[0]
            if m.ty == 'FL' and len(m.items) == 3 and all(r.ty == 'FL' and len(r.items) == 3 for r in m.items):
                es = [tr.S(e) for r in m.items for e in r.items]
                return Val('M', f'(M3 {" ".join(es)})')
            self.fail('AffineTransformation constructor argument', n)
        if name == 'BoundingBox':
            if flat: self.fail('BoundingBox constructor arguments', n)
            return Val('UBB', const=dict(UNSET_BOX))
        if name == 'Intersection':
            seg1, t1, seg2, t2 = flat
            pnt = self.callfun(CLASS_OF[seg1.ty], 'pointAtTime', [seg1, Val('S', tr.S(t1))], n)
            return Val('IX', f'({tr.S(t1)}, {pnt.tx}, {tr.S(t2)})')
        self.fail(f'constructor {name}', n)

    def inline(self, fd, args, kwargs, n):
        vals = self.bindargs(fd, args, kwargs, n, skip_self=False)
        params = [a.arg for a in fd.args.args]
        env = dict(self.closure_env)
        lets = []
        for p, v in zip(params, vals):
            if v.tx is not None and not self.tr.atomic(v) and v.ty in ('S', 'P'):
                nm = self.fresh('a_' + p)
                lets.append(f'let {nm} := {v.tx} in ')
                env[p] = Val(v.ty, nm)
            else: env[p] = v
        body = self.in_ctx('pure', lambda: self.block(fd.body, env, lambda e: Val('K', const=None), lambda v, e: v))
        if body.ty in ('I', 'K', 'FL', 'TUP'): 
            if lets: self.fail('inlined function returns translation-time structure under lets', n)
            return body
        return Val(self.tr.rtype(body), '(' + ''.join(lets) + self.tr.text(body) + ')')

    # ------------------------------------------------------------------ statements
    def always_returns(self, stmts):
        if not stmts: return False
        s = stmts[-1]
        if isinstance(s, (ast.Return, ast.Raise)): return True
        if isinstance(s, (ast.Break, ast.Continue)): return True       # leaves the statement list (towards the enclosing loop)
        if isinstance(s, ast.If): return self.always_returns(s.body) and self.always_returns(s.orelse)
        return False

    def has_exit(self, stmts):
        """a return, or a break/continue that belongs to a loop OUTSIDE stmts"""
        def walk(x):
            if isinstance(x, (ast.Return, ast.Break, ast.Continue)): return True
            if isinstance(x, (ast.For, ast.While)): return self.has_return([x])
            return any(walk(c) for c in ast.iter_child_nodes(x))
        return any(walk(st) for st in stmts)

    def has_return(self, stmts):
        for s in stmts:
            for x in ast.walk(s):
                if isinstance(x, ast.Return): return True
        return False

    def loads(self, stmts):
        out = set()
        for st in stmts:
            for x in ast.walk(st):
                if isinstance(x, ast.Name): out.add(x.id)
        return out

    def live_after(self, rest):
        out = self.loads(rest)
        for l in self.live_stack: out |= l
        return out

    def with_live(self, names, thunk):
        self.live_stack.append(set(names))
        try: return thunk()
        finally: self.live_stack.pop()

    def assigned(self, stmts, env):
        out = []
        def add(nm):
            if nm not in out: out.append(nm)
        for s in stmts:
            for x in ast.walk(s):
                if isinstance(x, (ast.Assign, ast.AugAssign)):
                    tg = x.targets if isinstance(x, ast.Assign) else [x.target]
                    for t in tg:
                        for y in ast.walk(t):
                            if isinstance(y, ast.Name): add(y.id); break
                if isinstance(x, ast.Expr) and isinstance(x.value, ast.Call) and isinstance(x.value.func, ast.Attribute) \
                        and isinstance(x.value.func.value, ast.Name):
                    add(x.value.func.value.id)
                if isinstance(x, ast.For) and isinstance(x.iter, ast.Name) and x.iter.id in env and env[x.iter.id].ty == 'FL': add(x.iter.id)
        return out

    def bind(self, name, v, env, k):
        """emit `let name := v in <k env'>` unless v is translation-time structure or atomic"""
        tr = self.tr
        e2 = dict(env)
        if v.ty in ('I', 'K', 'FL', 'TUP', 'LEN', 'UBB') or tr.atomic(v):
            if v.ty in ('FL', 'TUP'):
                # bind non-atomic components so later uses do not duplicate them
                lets, items = [], []
                for i, it in enumerate(v.items):
                    if it.tx is not None and not tr.atomic(it) and it.ty not in ('FL', 'TUP', 'I', 'K'):
                        nm = self.fresh(f'v_{name}{i}')
                        lets.append((nm, it.tx)); items.append(Val(it.ty, nm))
                    else: items.append(it)
                e2[name] = Val(v.ty, items=items)
                r = k(e2)
                t = tr.text(r)
                for nm, tx in reversed(lets): t = f'let {nm} := {tx} in\n  {t}'
                return self.retext(r, t)
            e2[name] = v
            return k(e2)
        nm = self.fresh('v_' + name)
        e2[name] = Val(v.ty, nm)
        r = k(e2)
        return self.retext(r, f'let {nm} := {v.tx} in\n  {tr.text(r)}')

    def retext(self, r, t):
        if r.ty == 'K' and r.const is None: return r
        return Val(self.tr.rtype(r), t)

    def block(self, stmts, env, cont, ret):
        if not stmts: return cont(env)
        mark = len(self.pending)
        return self.flush(mark, self.block1(stmts, env, cont, ret), stmts[0])

    def block1(self, stmts, env, cont, ret):
        tr = self.tr
        s, rest = stmts[0], stmts[1:]
        k = lambda e: self.block(rest, e, cont, ret)
        if isinstance(s, ast.Expr) and isinstance(s.value, ast.Constant): return k(env)
        if isinstance(s, ast.Pass): return k(env)
        if isinstance(s, (ast.Import, ast.ImportFrom)): return k(env)
        if isinstance(s, ast.Return):
            v = self.expr(s.value, env) if s.value is not None else Val('K', const=None)
            return ret(v, env)
        if isinstance(s, ast.Raise):
            self.fail('reachable raise', s)
        if isinstance(s, ast.FunctionDef):
            self.localfuns[s.name] = s
            self.closure_env = env
            return k(env)
        if isinstance(s, ast.Assign):
            if len(s.targets) != 1: self.fail('multiple targets', s)
            t = s.targets[0]
            v = self.expr(s.value, env)
            nx = rest[0] if rest else None
            if isinstance(t, ast.Name) and isinstance(nx, ast.Assign) and len(nx.targets) == 1 and isinstance(nx.targets[0], ast.Attribute) \
                    and nx.targets[0].attr == '_orig' and isinstance(nx.targets[0].value, ast.Name) and nx.targets[0].value.id == t.id:
                # x = Line(..); x._orig = c   -- the new Line, tagged: an EDGE.  Only for a Line built on the spot (nothing else refers to it)
                if not (isinstance(s.value, ast.Call) and isinstance(s.value.func, ast.Name) and s.value.func.id == 'Line' and 'Line' not in env and v.ty == 'seg2'):
                    self.fail('_orig set on something that is not a Line constructed by the previous statement', nx)
                o = self.expr(nx.value, env)
                if o.ty not in SEGN: self.fail(f'_orig set to a {o.ty!r}', nx)
                ev = Val('EDGE', f'({v.tx}, Some ({[c for c, kd in SEGSUM if kd == o.ty][0]} {o.tx}))')
                return self.bind(t.id, ev, env, lambda e: self.block(rest[1:], e, cont, ret))
            return self.assign(t, v, env, k, s)
        if isinstance(s, ast.AugAssign):
            if isinstance(s.target, ast.Attribute) and isinstance(s.target.value, ast.Name) and s.target.value.id in env \
                    and env[s.target.value.id].ty == 'P' and s.target.attr in ('x', 'y'):
                # p.x += e  is  p.x = p.x + e  (the attribute of a float is a float: no in-place operator involved)
                cur = self.expr(s.target, env)
                v = self.binop(type(s.op).__name__, cur, self.expr(s.value, env), s)
                return self.assign(s.target, v, env, k, s)
            if not isinstance(s.target, ast.Name): self.fail('augmented assignment to non-name', s)
            cur = self.expr(s.target, env)
            v = self.binop(type(s.op).__name__, cur, self.expr(s.value, env), s)
            return self.bind(s.target.id, v, env, k)
        if isinstance(s, ast.Expr) and isinstance(s.value, ast.Call):
            return self.stmt_call(s.value, env, k, s)
        if isinstance(s, ast.If):
            return self.stmt_if(s, rest, env, cont, ret)
        if isinstance(s, ast.For):
            return self.stmt_for(s, rest, env, cont, ret)
        if isinstance(s, ast.While):
            return self.stmt_while(s, rest, env, cont, ret)
        if isinstance(s, (ast.Break, ast.Continue)):
            if not self.loop_stack or self.loop_stack[-1] is None: self.fail(f'{type(s).__name__.lower()} outside a while loop', s)
            return self.loop_stack[-1][0 if isinstance(s, ast.Break) else 1](env)
        self.fail(f'statement {type(s).__name__}', s)

    def assign(self, t, v, env, k, s):
        tr = self.tr
        if isinstance(t, ast.Name):
            return self.bind(t.id, v, env, k)
        if isinstance(t, ast.Tuple):
            names = []
            for e in t.elts:
                if not isinstance(e, ast.Name): self.fail('nested unpacking', s)
                names.append(e.id)
            if v.ty in ('TUP', 'FL'):
                if len(v.items) != len(names): self.fail('unpack arity', s)
                def go(i, e):
                    if i == len(names): return k(e)
                    return self.bind(names[i], v.items[i], e, lambda e2: go(i + 1, e2))
                return go(0, env)
            if isinstance(v.ty, tuple) and v.ty[0] == 'T' and len(v.ty[1]) == len(names):
                e2 = dict(env)
                pat = None
                for nm, ty in zip(names, v.ty[1]):
                    fn = self.fresh('v_' + nm)
                    e2[nm] = Val(ty, fn)
                    pat = fn if pat is None else f'({pat}, {fn})'
                r = k(e2)
                return self.retext(r, f"let '{pat} := {v.tx} in\n  {tr.text(r)}")
            self.fail(f'unpack of {v.ty!r}', s)
        if isinstance(t, ast.Attribute) and isinstance(t.value, ast.Name) and t.value.id in env:
            recv = env[t.value.id]
            if recv.ty == 'M' and t.attr == 'matrix':
                if v.ty == 'FL':
                    es = [tr.S(e) for r in v.items for e in r.items]
                    if len(es) != 9: self.fail('matrix literal shape', s)
                    v = Val('M', f'(M3 {" ".join(es)})')
                if v.ty != 'M': self.fail('matrix assignment', s)
                return self.bind(t.value.id, v, env, k)
            if recv.ty == 'P' and t.attr in ('x', 'y'):
                nv = Val('P', f'(P {tr.S(v)} (py {recv.tx}))' if t.attr == 'x' else f'(P (px {recv.tx}) {tr.S(v)})')
                return self.bind(t.value.id, nv, env, k)
            if recv.ty == 'BB' and t.attr in ('bl', 'tr') and v.ty == 'P':
                nv = Val('BB', f'(BB {v.tx} (tr {recv.tx}))' if t.attr == 'bl' else f'(BB (bl {recv.tx}) {v.tx})')
                return self.bind(t.value.id, nv, env, k)
            if recv.ty in SEGN and t.attr == 'points':
                # self.points = [...]: the new list must have exactly the points of this class of segment
                if v.ty != 'FL' or len(v.items) != SEGN[recv.ty] or any(p.ty != 'P' for p in v.items): self.fail('assignment to .points', s)
                return self.bind(t.value.id, Val(recv.ty, f'({SEGCON[SEGN[recv.ty]]} {" ".join(p.tx for p in v.items)})'), env, k)
            if recv.ty == 'UBB' and t.attr in UNSET_BOX and v.ty == 'P':
                fields = dict(recv.const)
                if all(fields[c] is not None for c in UNSET_BOX if c != t.attr):
                    fields[t.attr] = v      # now both corners are set: an ordinary box
                    return self.bind(t.value.id, Val('BB', f'(BB {fields["bl"].tx} {fields["tr"].tx})'), env, k)
                if tr.atomic(v):
                    fields[t.attr] = v
                    e2 = dict(env); e2[t.value.id] = Val('UBB', const=fields)
                    return k(e2)
                nm = self.fresh(f'v_{t.value.id}_{t.attr}')
                fields[t.attr] = Val('P', nm)
                e2 = dict(env); e2[t.value.id] = Val('UBB', const=fields)
                r = k(e2)
                return self.retext(r, f'let {nm} := {v.tx} in\n  {tr.text(r)}')
        if isinstance(t, ast.Subscript) and isinstance(t.value, ast.Name) and t.value.id in env and env[t.value.id].ty in SEGN \
                and not isinstance(t.slice, ast.Slice):
            # seg[k] = point  (Segment.__setitem__: self.points[key] = item)
            recv = env[t.value.id]
            i = self.expr(t.slice, env)
            if i.ty != 'I' or v.ty != 'P': self.fail('segment item assignment', s)
            kk = i.const if i.const >= 0 else i.const + SEGN[recv.ty]
            if not 0 <= kk < SEGN[recv.ty]: self.fail('segment index out of range', s)
            pts = [f'({pj} {recv.tx})' for pj in SEGPROJ[recv.ty]]
            pts[kk] = v.tx
            return self.bind(t.value.id, Val(recv.ty, f'({SEGCON[SEGN[recv.ty]]} {" ".join(pts)})'), env, k)
        if isinstance(t, ast.Attribute) and isinstance(t.value, ast.Attribute) and isinstance(t.value.value, ast.Name) \
                and t.value.value.id in env:
            # self.bl.x = v : in-place update of a coordinate of a corner
            nm = t.value.value.id
            recv = env[nm]
            if recv.ty == 'BB' and t.value.attr in ('bl', 'tr') and t.attr in ('x', 'y'):
                self.check_corner_ownership(s)
                c = t.value.attr
                np = f'(P {tr.S(v)} (py ({c} {recv.tx})))' if t.attr == 'x' else f'(P (px ({c} {recv.tx})) {tr.S(v)})'
                nv = Val('BB', f'(BB {np} (tr {recv.tx}))' if c == 'bl' else f'(BB (bl {recv.tx}) {np})')
                return self.bind(nm, nv, env, k)
        self.fail('assignment target', s)

    def check_corner_ownership(self, s):
        """`box.bl.x = v` updates a Point in place.  The record model is only right when that Point is referenced from nowhere
        else (not from the other corner, not from an argument): the corners of a box received as a value are its own by the
        representation invariant, and every corner ASSIGNED in this function must be a fresh object -- `<expr>.clone()` or `Point(..)`."""
        for x in ast.walk(self.fd):
            if isinstance(x, (ast.Assign, ast.AugAssign, ast.AnnAssign)):
                tg = x.targets if isinstance(x, ast.Assign) else [x.target]
                for t in tg:
                    for y in ast.walk(t):
                        if isinstance(y, ast.Attribute) and y.attr in UNSET_BOX and y is t:
                            val = x.value
                            fresh = isinstance(x, ast.Assign) and isinstance(val, ast.Call) and not val.keywords and (
                                (isinstance(val.func, ast.Attribute) and val.func.attr == 'clone' and not val.args) or
                                (isinstance(val.func, ast.Name) and val.func.id == 'Point'))
                            if not fresh: self.fail('in-place update of a corner that may be shared with another object', s)

    def as_optbox(self, v, node=None):
        """a BoundingBox value as `option (bbox T)`"""
        if v.ty == ('O', 'BB'): return v
        if v.ty == 'BB': return Val(('O', 'BB'), f'(Some {v.tx})')
        if v.ty == 'UBB':
            if all(f is None for f in v.const.values()): return Val(('O', 'BB'), 'None')
            self.fail('BoundingBox with exactly one corner set has no representation', node)
        self.fail(f'{v.ty!r} where a BoundingBox is expected', node)

    def stmt_call(self, c, env, k, s):
        tr = self.tr
        f = c.func
        if isinstance(f, ast.Name) and f.id == 'print': return k(env)
        if isinstance(f, ast.Attribute) and isinstance(f.value, ast.Name) and f.value.id in env:
            nm = f.value.id
            recv = env[nm]
            args = [self.expr(a, env) for a in c.args]
            kwargs = {kw.arg: self.expr(kw.value, env) for kw in c.keywords}
            lty = recv.ty
            if lty == 'FL' or (isinstance(lty, tuple) and lty[0] == 'L'):
                if f.attr == 'append':
                    if lty == 'FL':
                        return self.bind(nm, Val('FL', items=recv.items + [args[0]]), env, k)
                    if lty[1] == '?': lty = ('L', tr.rtype(args[0]))      # first append to a list whose element type is not known yet
                    return self.bind(nm, Val(lty, f'({recv.tx} ++ [{tr.text(args[0]) if lty[1] != "S" else tr.S(args[0])}])'), env, k)
                if f.attr == 'extend':
                    a = args[0]
                    if lty == 'FL' and a.ty == 'FL': return self.bind(nm, Val('FL', items=recv.items + a.items), env, k)
                    if lty == 'FL': recv = Val(a.ty, tr.text(Val('FL', items=recv.items)) if recv.items else '[]')
                    return self.bind(nm, Val(recv.ty, f'({recv.tx} ++ {tr.text(a)})'), env, k)
                if f.attr == 'sort':
                    if lty == 'FL': recv = Val(tr.rtype(recv), tr.text(recv))
                    return self.bind(nm, Val(recv.ty, f'(sort_ O {recv.tx})'), env, k)
                if f.attr == 'pop' and lty != 'FL' and len(args) == 1 and not kwargs and args[0].ty == 'I' and args[0].const == 0:
                    # l.pop(0) as a statement (the popped item is dropped): only where l is known to be h :: t
                    if not (isinstance(recv.const, tuple) and recv.const[0] == 'cons'): self.fail('pop(0) from a list not known to be non-empty', s)
                    e2 = dict(env); e2[nm] = Val(lty, recv.const[2])
                    return k(e2)
            if ('BoundingBox', f.attr) in OPT_SELF and (recv.ty in ('BB', 'UBB') or recv.ty == ('O', 'BB')):
                cls = 'BoundingBox'
                path, fd, defcls = find_def(cls, f.attr)
                vals = self.bindargs(fd, args, kwargs, s, skip_self=True)
                vals, consts = self.coerce_args(cls, f.attr, vals, s)
                nv = self.callfun(cls, f.attr, [self.as_optbox(recv, s)] + vals, s, consts)
                return self.bind(nm, nv, env, k)
            if isinstance(recv.ty, str) and recv.ty in CLASS_OF and (CLASS_OF[recv.ty], f.attr) in MUTATORS:
                cls = CLASS_OF[recv.ty]
                path, fd, defcls = find_def(cls, f.attr)
                vals = self.bindargs(fd, args, kwargs, s, skip_self=True)
                vals, consts = self.coerce_args(cls, f.attr, vals, s)
                nv = self.callfun(cls, f.attr, [recv] + vals, s, consts)
                return self.bind(nm, nv, env, k)
        self.fail('statement-level call', s)

    def narrow(self, test, env):
        """Optional-typed name tested for None / truthiness -> (name, value, mode)"""
        neg = False
        t = test
        if isinstance(t, ast.UnaryOp) and isinstance(t.op, ast.Not): neg = True; t = t.operand
        if isinstance(t, ast.Name) and t.id in env and isinstance(env[t.id].ty, tuple) and env[t.id].ty[0] == 'O':
            return (t.id, env[t.id], 'falsy' if neg else 'truthy')
        if isinstance(t, ast.Compare) and len(t.ops) == 1 and isinstance(t.left, ast.Name) and t.left.id in env \
                and isinstance(env[t.left.id].ty, tuple) and env[t.left.id].ty[0] == 'O' \
                and isinstance(t.comparators[0], ast.Constant) and t.comparators[0].value is None:
            isnone = isinstance(t.ops[0], (ast.Is, ast.Eq))
            if neg: isnone = not isnone
            return (t.left.id, env[t.left.id], 'isnone' if isnone else 'notnone')
        return None

    def list_test(self, t, env):
        """`len(X) == 0`, `len(X) > 0`, `len(X) != 0`, `X`, `not X` for a dynamic list variable X -> (X, True iff the test says X is empty)"""
        neg = False
        if isinstance(t, ast.UnaryOp) and isinstance(t.op, ast.Not): neg = True; t = t.operand
        def dyn(x): return isinstance(x, ast.Name) and x.id in env and isinstance(env[x.id].ty, tuple) and env[x.id].ty[0] == 'L' and env[x.id].tx is not None
        if dyn(t): return (t.id, neg)
        if isinstance(t, ast.Compare) and len(t.ops) == 1 and isinstance(t.left, ast.Call) and isinstance(t.left.func, ast.Name) and t.left.func.id == 'len' \
                and 'len' not in env and 'len' not in self.localfuns and not t.left.keywords and len(t.left.args) == 1 and dyn(t.left.args[0]) \
                and isinstance(t.comparators[0], ast.Constant) and type(t.comparators[0].value) is int and t.comparators[0].value == 0:
            op = t.ops[0]
            if isinstance(op, ast.Eq): return (t.left.args[0].id, not neg)
            if isinstance(op, (ast.Gt, ast.NotEq)): return (t.left.args[0].id, neg)
        return None

    def cons_view(self, X, env):
        """environment in which the dynamic list X is known to be h :: t"""
        h, t = self.fresh(f'v_{X}_hd'), self.fresh(f'v_{X}_tl')
        e2 = dict(env); e2[X] = Val(env[X].ty, f'({h} :: {t})', const=('cons', h, t))
        return e2, h, t

    def stmt_if(self, s, rest, env, cont, ret):
        tr = self.tr
        lt = self.list_test(s.test, env) if self.effects else None
        if lt is not None:
            # a test of emptiness of a list is a match: the non-empty side sees it as h :: t (so l[0], l.pop(0) cannot fail there)
            X, empty = lt
            nil_b, cons_b = (s.body, s.orelse) if empty else (s.orelse, s.body)
            rn, rc = self.always_returns(nil_b), self.always_returns(cons_b)
            if not (rn or rc) and rest: self.fail('emptiness test neither side of which leaves', s)
            eN = dict(env); eN[X] = Val(env[X].ty, '[]')
            eC, h, t = self.cons_view(X, env)
            a = self.block(nil_b + ([] if rn else rest), eN, cont, ret)
            b = self.block(cons_b + ([] if rc else rest), eC, cont, ret)
            if a.ty == 'K' and a.const is None and b.ty == 'K' and b.const is None: return a
            x, y, ty = self.unify(a, b, s)
            return Val(ty, f'(match {env[X].tx} with\n  | [] =>\n  {x}\n  | {h} :: {t} =>\n  {y}\n  end)')
        nar = self.narrow(s.test, env)
        if nar is not None:
            name, ov, mode = nar
            inner = ov.ty[1]
            z = self.fresh('z')
            envN = dict(env); envN[name] = Val('K', const=None)
            envS = dict(env); envS[name] = Val(inner, z)
            cN = Val('K', const=mode in ('falsy', 'isnone'))
            if mode == 'isnone': cS = Val('K', const=False)
            elif mode == 'notnone': cS = Val('K', const=True)
            elif inner == 'S':
                cS = Val('B', f'(eqb O {z} (ofZ O 0))') if mode == 'falsy' else Val('B', f'(neqb O {z} (ofZ O 0))')
            else:
                if mode in ('truthy', 'falsy') and isinstance(inner, str) and inner in CLASS_OF: self.always_truthy(inner, s)
                cS = Val('K', const=(mode == 'truthy'))
            rN = self.if_with(cN, s, rest, envN, cont, ret)
            rS = self.if_with(cS, s, rest, envS, cont, ret)
            x, y, ty = self.unify(rN, rS, s)
            return Val(ty, f'(match {ov.tx} with None => {x} | Some {z} => {y} end)')
        c = self.truth(self.expr(s.test, env), s)
        return self.if_with(c, s, rest, env, cont, ret)

    def if_with(self, c, s, rest, env, cont, ret):
        tr = self.tr
        if c.ty == 'K':
            return self.block((s.body if c.const else s.orelse) + rest, env, cont, ret)
        rb, ro = self.always_returns(s.body), self.always_returns(s.orelse)
        if rb or ro or self.has_exit(s.body) or self.has_exit(s.orelse):
            # at least one side leaves the function: no join needed (the rest is duplicated only on mixed paths)
            a = self.block(s.body + ([] if rb else rest), env, cont, ret)
            b = self.block(s.orelse + ([] if ro else rest), env, cont, ret)
            if a.ty == 'K' and a.const is None and b.ty == 'K' and b.const is None: return a
            return self.join(c, a, b, s)
        live = self.live_after(rest)
        names = [v for v in self.assigned(s.body + s.orelse, env) if v in live]
        if not names: return self.block(rest, env, cont, ret)
        def branch(stmts):
            return self.with_live(names, lambda: self.block(stmts, env, lambda e: Val('TUP', items=[self.need(e, v, s) for v in names]), lambda v, e: self.fail('return in joined branch', s)))
        saved = (self.counter, len(self.pending))
        try:
            a, b = branch(s.body), branch(s.orelse)
        except EffectInJoin:
            # a branch consumes fuel or may raise: it cannot be a value joined by `if`; each branch is continued by the rest instead
            if not self.effects: raise
            self.counter = saved[0]; del self.pending[saved[1]:]
            a = self.block(s.body + rest, env, cont, ret)
            b = self.block(s.orelse + rest, env, cont, ret)
            if a.ty == 'K' and a.const is None and b.ty == 'K' and b.const is None: return a
            return self.join(c, a, b, s)
        # a, b are TUP possibly wrapped in lets: normalise through text
        x, y, ty = self.unify_wrapped(a, b, names, s)
        e2 = dict(env)
        if len(names) == 1:
            fn = self.fresh('v_' + names[0])
            e2[names[0]] = Val(ty[1][0], fn)
            pat = fn
        else:
            pat = None
            for nm, t in zip(names, ty[1]):
                fn = self.fresh('v_' + nm)
                e2[nm] = Val(t, fn)
                pat = fn if pat is None else f'({pat}, {fn})'
            pat = "'" + pat
        r = self.block(rest, e2, cont, ret)
        return self.retext(r, f'let {pat} := (if {c.tx} then {x} else {y}) in\n  {tr.text(r)}')

    def need(self, env, v, s):
        if v not in env: self.fail(f'variable {v} not defined on every path', s)
        val = env[v]
        if val.ty == 'UBB': return self.as_optbox(val, s)
        if val.ty == 'FL': return Val(self.tr.rtype(val) if val.items else 'FL', self.tr.text(val) if val.items else None, items=None if val.items else [])
        return val

    def unify_wrapped(self, a, b, names, s):
        tr = self.tr
        if a.ty == 'TUP' and b.ty == 'TUP':
            if len(names) == 1:
                x, y, t = self.unify(a.items[0], b.items[0], s)
                return x, y, ('T', (t,))
            return self.unify(a, b, s)
        ta, tb = tr.rtype(a), tr.rtype(b)
        if tmatch(ta, tb) is None: self.fail(f'joined branches differ: {ta!r} / {tb!r}', s)
        ta = tmatch(ta, tb)
        if len(names) == 1: return tr.text(a), tr.text(b), ('T', (ta,)) if not (isinstance(ta, tuple) and ta[0] == 'T') else ta
        return tr.text(a), tr.text(b), ta

    def pairs_loop(self, s, env):
        """recognise   for i in range(1, len(X)): <body reading i only as X[i] and X[i - 1]>   over a dynamic list X.
        The iterations see exactly the pairs (X[i], X[i-1]), i = 1 .. len(X)-1, i.e. the elements of combine (tl X) X, and no
        index can be out of range.  Returns (X, name for X[i], name for X[i-1], rewritten loop) or None."""
        it = s.iter
        if not (isinstance(it, ast.Call) and isinstance(it.func, ast.Name) and it.func.id == 'range' and not it.keywords and len(it.args) == 2
                and isinstance(it.args[0], ast.Constant) and it.args[0].value == 1 and type(it.args[0].value) is int
                and isinstance(it.args[1], ast.Call) and isinstance(it.args[1].func, ast.Name) and it.args[1].func.id == 'len'
                and not it.args[1].keywords and len(it.args[1].args) == 1 and isinstance(it.args[1].args[0], ast.Name)
                and isinstance(s.target, ast.Name)):
            return None
        if 'range' in env or 'len' in env or 'range' in self.localfuns or 'len' in self.localfuns: return None
        X, i = it.args[1].args[0].id, s.target.id
        if X not in env or not (isinstance(env[X].ty, tuple) and env[X].ty[0] == 'L' and env[X].ty[1] != '?') or X == i: return None
        cur, prev = f'{X}_at_{i}', f'{X}_at_{i}_minus_1'
        for x in ast.walk(self.fd):
            if isinstance(x, ast.Name) and x.id in (cur, prev): return None
        if cur in env or prev in env: return None
        if X in self.assigned(s.body, env) or i in self.assigned(s.body, env): return None
        ok = [True]
        def is_i(e): return isinstance(e, ast.Name) and e.id == i
        class Rw(ast.NodeTransformer):
            def visit_Subscript(self, node):
                if isinstance(node.value, ast.Name) and node.value.id == X and isinstance(node.ctx, ast.Load):
                    if is_i(node.slice): return ast.copy_location(ast.Name(id=cur, ctx=ast.Load()), node)
                    sl = node.slice
                    if isinstance(sl, ast.BinOp) and isinstance(sl.op, ast.Sub) and is_i(sl.left) and isinstance(sl.right, ast.Constant) \
                            and type(sl.right.value) is int and sl.right.value == 1:
                        return ast.copy_location(ast.Name(id=prev, ctx=ast.Load()), node)
                return self.generic_visit(node)
            def visit_Name(self, node):
                if node.id == i: ok[0] = False      # any other use of the index
                return node
        import copy
        body = [Rw().visit(copy.deepcopy(b)) for b in s.body]
        if not ok[0]: return None
        s2 = ast.For(target=s.target, iter=s.iter, body=body, orelse=s.orelse)
        ast.copy_location(s2, s); ast.fix_missing_locations(s2)
        return X, cur, prev, s2

    def stmt_while(self, s, rest, env, cont, ret):
        """`while test: body` as a fuelled Fixpoint of its own

            Fixpoint <fn>_loop<k> {T} (O : Ops T) [(fuel0 : nat)] (fuel : nat) <captured variables> <carried variables> {struct fuel}
              : option (<carried tuple>) :=
              match fuel with
              | 0 => None                                             (* out of fuel: never a normal value *)
              | S fuel_ => if test then <body>; <fn>_loop<k> O [fuel0] fuel_ <captured> <carried'> else Some (<carried>)
              end.

        carried  = the local variables (re)bound in the body that exist before the loop (`x = e`, `x += e`, `l.append(e)`, `l.pop(0)`);
        captured = the other variables read; they are parameters, so the body cannot update them;
        fuel0    = the budget handed to loops / fuelled functions invoked from the body (present only when there are any);
        `break` is `Some (<carried>)`, `continue` the recursive call.  A test `len(l) > 0 [and p]` on a carried list is a match on
        l, and the body (and p) see l as h :: t.  No return inside a loop.  When the body can raise (only in a function declared
        with 'exc'), the Fixpoint returns `option (outcome (<carried tuple>))`: `Some (Raises e)` at the raise, `Some (Returns ..)` at the exit."""
        tr = self.tr
        if self.ctx_stack[-1] not in ('fun', 'loop'): self.fail('while loop inside a fold / inlined function', s)
        if s.orelse: self.fail('while-else', s)
        if self.has_return(s.body): self.fail('return inside a while loop', s)
        for x in ast.walk(s.test):
            if isinstance(x, (ast.NamedExpr, ast.Lambda, ast.ListComp, ast.Await, ast.Yield)): self.fail('while test too complex', s)
        k = self.loop_ids.setdefault(id(s), len(self.loop_ids) + 1)
        lname = f'{self.cname}_loop{k}'
        budget = self.budget()                     # the loop itself runs on the budget of the enclosing context
        names = self.assigned(s.body, env)
        after = self.live_after(rest)
        for v in names:
            if v not in env and v in after: self.fail(f'variable {v} first assigned inside a while loop and used after it', s)
        carried = [v for v in names if v in env]
        if not carried: self.fail('while loop that carries no variable', s)
        inits = [self.need(env, v, s) for v in carried]
        tys = [tr.rtype(a) for a in inits]
        e1, cparams = {}, []
        for nm in sorted((self.loads([s]) & set(env)) - set(carried)):
            v = env[nm]
            if v.ty in ('K', 'I'): e1[nm] = v; continue
            if v.tx is None or not (isinstance(v.ty, tuple) or v.ty in ('S', 'B', 'P', 'M', 'BB', 'IX', 'PATH', 'SEG', 'EDGE') or v.ty in SEGN):
                self.fail(f'while loop captures {nm}, a {v.ty!r}', s)
            pn = 'self_' if nm == 'self' else 'v_' + nm
            e1[nm] = Val(v.ty, pn); cparams.append((pn, v.ty, v.tx))
        lty = ('F', ('LOOP', lname))

        def attempt(tys):
            e = dict(e1)
            for nm, t in zip(carried, tys): e[nm] = Val(t, 'v_' + nm)
            seen = []
            def pack(e2):
                vals = [self.need(e2, v, s) for v in carried]
                seen.append([tr.rtype(x) for x in vals])
                return vals
            def exit_(e2):
                vals = pack(e2)
                return Val(lty, '(Some @RETO@' + (tr.text(Val('TUP', items=vals)) if len(vals) > 1 else tr.text(vals[0])) + '@RETC@)')
            def again(e2):
                vals = pack(e2)
                return Val(lty, f'({lname} O @FUEL0@fuel_ ' + ' '.join([p for p, _, _ in cparams] + [tr.text(x) for x in vals]) + ')')
            noret = lambda v, e2: self.fail('return inside a while loop', s)
            self.loop_stack.append((exit_, again)); self.ctx_stack.append('loop'); self.fuel_names.append('fuel0'); self.fuel_used.append(False)
            self.loop_flags.append({'exc': False})
            try:
                body = self.with_live(carried, lambda: self.loop_test(s, e, lambda e2: self.block(s.body, e2, again, noret), exit_))
                used, exc = self.fuel_used[-1], self.loop_flags[-1]['exc']
            finally:
                self.loop_stack.pop(); self.ctx_stack.pop(); self.fuel_names.pop(); self.fuel_used.pop(); self.loop_flags.pop()
            text = tr.text(body).replace('@FUEL0@', 'fuel0 ' if used else '').replace('@RETO@', '(Returns ' if exc else '').replace('@RETC@', ')' if exc else '')
            return text, used, exc, seen

        for _ in range(4):
            saved = (self.counter, tr.counter)
            self.trial += 1
            try: _, _, _, seen = attempt(tys)
            finally: self.trial -= 1
            self.counter, tr.counter = saved
            new = list(tys)
            for row in seen:
                for i, t in enumerate(row):
                    new[i] = tmatch(new[i], t)
                    if new[i] is None: self.fail(f'while loop changes the type of {carried[i]}: {tys[i]!r} / {t!r}', s)
            if new == tys: break
            tys = new
        else:
            self.fail('types of the carried variables do not settle', s)
        def unresolved(t): return t == '?' or (isinstance(t, tuple) and any(unresolved(x) for x in (t[1] if t[0] == 'T' else t[1:])))
        if any(unresolved(t) for t in tys): self.fail(f'cannot infer the types of the carried variables {carried}: {tys!r}', s)
        body, used, exc, _ = attempt(tys)
        cty = coqty(('T', tuple(tys))) if len(tys) > 1 else coqty(tys[0])
        if exc: cty = f'outcome ({cty})'
        params = ''.join(f' ({p} : {coqty(t)})' for p, t, _ in cparams) + ''.join(f' (v_{nm} : {coqty(t)})' for nm, t in zip(carried, tys))
        text = (f'(* {self.path}: {self.fd.name}, the while loop at line {s.lineno} *)\n'
                f'Fixpoint {lname} {{T : Type}} (O : Ops T){" (fuel0 : nat)" if used else ""} (fuel : nat){params} {{struct fuel}} : option ({cty}) :=\n'
                f'  match fuel with\n  | Datatypes.O => None\n  | S fuel_ =>\n  {body}\n  end.\n')
        if self.trial == 0:
            if lname in tr.loops and tr.loops[lname] != text: self.fail('one while loop translates to two different definitions (it is reached with different environments)', s)
            if lname not in tr.loops:
                tr.loops[lname] = text
                tr.out[self.file].append(text)
        call = f'({lname} O {budget + " " if used else ""}{budget} ' + ' '.join([tx for _, _, tx in cparams] + [tr.text(a) for a in inits]) + ')'
        e2 = dict(env)
        pat = None
        for nm, t in zip(carried, tys):
            fn = self.fresh('v_' + nm)
            e2[nm] = Val(t, fn)
            pat = fn if pat is None else f'({pat}, {fn})'
        r = self.block(rest, e2, cont, ret)
        if r.ty == 'K' and r.const is None: return r
        if is_mtype(tr.rtype(r)) is None or 'fuel' not in is_mtype(tr.rtype(r))[0]:
            raise EffectInJoin(f'{self.path}:{s.lineno} ({self.fd.name}): the code after a while loop is not a fuelled result')
        if exc:
            # the loop may have raised: so may the context it is invoked from (the function, or an enclosing loop)
            if self.ctx_stack[-1] == 'loop': self.loop_flags[-1]['exc'] = True
            self.occurred.add('exc')
            return self.retext(r, f'match {call} with\n  | None => None\n  | Some (Raises e_) => {self.raise_text("e_")}\n  | Some (Returns {pat}) =>\n  {tr.text(r)}\n  end')
        return self.retext(r, f'match {call} with\n  | None => None\n  | Some {pat} =>\n  {tr.text(r)}\n  end')

    def loop_test(self, s, e, body_k, exit_k):
        """the test of a while loop: plain, or `len(X) > 0 [and rest]` / `X [and rest]` on a dynamic list variable X"""
        test = s.test
        conj = list(test.values) if isinstance(test, ast.BoolOp) and isinstance(test.op, ast.And) else [test]
        lt = self.list_test(conj[0], e)
        def cond(c, body, ex):
            if c.ty == 'K': return body() if c.const else ex()
            b, x = body(), ex()
            return Val(b.ty, f'(if {c.tx} then\n  {self.tr.text(b)}\n  else {self.tr.text(x)})')
        if lt is not None and not lt[1]:
            X = lt[0]
            e2, h, t = self.cons_view(X, e)
            c = self.conj(self.purely(lambda: [self.truth(self.expr(c_, e2), s) for c_ in conj[1:]]), 'andb')
            inner = cond(c, lambda: body_k(e2), lambda: exit_k(e2))
            ex = exit_k(e)
            return Val(inner.ty, f'match {e[X].tx} with\n  | [] => {self.tr.text(ex)}\n  | {h} :: {t} =>\n  {self.tr.text(inner)}\n  end')
        c = self.purely(lambda: self.truth(self.expr(test, e), s))
        return cond(c, lambda: body_k(e), lambda: exit_k(e))

    def stmt_for(self, s, rest, env, cont, ret):
        tr = self.tr
        def own_exit(x):
            if isinstance(x, (ast.Break, ast.Continue)): return True
            if isinstance(x, (ast.For, ast.While)): return False
            return any(own_exit(c) for c in ast.iter_child_nodes(x))
        if any(own_exit(b) for b in s.body): self.fail('break/continue in a for loop', s)
        pl = self.pairs_loop(s, env)
        if pl is not None:
            X, cur, prev, s2 = pl
            if s.orelse: self.fail('for-else', s)
            if self.has_return(s2.body): self.fail('return inside a loop over consecutive pairs', s)
            if s.target.id in self.live_after(rest): self.fail(f'loop index {s.target.id} used after the loop', s)
            t = env[X].ty[1]
            e1 = dict(env); e1[cur] = Val(t, 'v_' + cur); e1[prev] = Val(t, 'v_' + prev)
            e1.pop(s.target.id, None)
            itv = Val(('L', ('T', (t, t))), f'(combine (tl {env[X].tx}) {env[X].tx})')
            return self.fold_loop(s2, rest, env, e1, [cur, prev], f"'(v_{cur}, v_{prev})", itv, cont, ret)
        it = self.expr(s.iter, env)
        if s.orelse: self.fail('for-else', s)
        if it.ty == 'FL':
            itname = s.iter.id if isinstance(s.iter, ast.Name) else None
            items = list(it.items)
            def go(i, e):
                if i == len(items): return self.block(rest, e, cont, ret)
                def after(e2):
                    if itname is not None and isinstance(s.target, ast.Name) and s.target.id in e2:
                        cur = e2[itname]
                        if cur.ty == 'FL' and i < len(cur.items) and e2[s.target.id] is not cur.items[i]:
                            new = list(cur.items); new[i] = e2[s.target.id]
                            e2 = dict(e2); e2[itname] = Val('FL', items=new)
                    return go(i + 1, e2)
                return self.assign(s.target, items[i], e, lambda e1: self.block(s.body, e1, after, ret), s)
            return self.with_live(self.loads(s.body) | self.loads(rest), lambda: go(0, env))
        if isinstance(it.ty, tuple) and it.ty[0] == 'L' and isinstance(s.target, ast.Tuple):
            # for a, b in <list of pairs>: a fold whose step function takes the pair apart
            et = it.ty[1]
            tn = [e.id for e in s.target.elts if isinstance(e, ast.Name)]
            if len(tn) != len(s.target.elts) or len(set(tn)) != len(tn) or not (isinstance(et, tuple) and et[0] == 'T' and len(et[1]) == len(tn)):
                self.fail('dynamic for target', s)
            if self.has_return(s.body): self.fail('return inside a loop over pairs', s)
            e1 = dict(env)
            xpat = None
            for nm, ty in zip(tn, et[1]):
                e1[nm] = Val(ty, 'v_' + nm)
                xpat = 'v_' + nm if xpat is None else f'({xpat}, v_{nm})'
            return self.fold_loop(s, rest, env, e1, tn, "'" + xpat, it, cont, ret)
        if isinstance(it.ty, tuple) and it.ty[0] == 'L':
            if not isinstance(s.target, ast.Name): self.fail('dynamic for target', s)
            x = s.target.id
            et = it.ty[1]
            e1 = dict(env); e1[x] = Val(et, 'v_' + x)
            if self.has_return(s.body):
                names = [v for v in self.assigned(s.body, env) if v != x]
                if names: self.fail('find-first loop with assignments', s)
                none = Val('K', const=None)
                body = self.in_ctx('pure', lambda: self.block(s.body, e1, lambda e: none, lambda v, e: Val('SOME', items=[ret(v, e)])))
                bt, rty = self.optionise(body, s)
                r = self.block(rest, env, cont, ret)
                nm = self.fresh('r')
                x_, y_, ty = self.unify(Val(rty, nm), r, s)
                return Val(ty, f'(match find_first (fun v_{x} => {bt}) {it.tx} with Some {nm} => {x_} | None => {y_} end)')
            names = [v for v in self.assigned(s.body, env) if v != x]
            if not names: return self.block(rest, env, cont, ret)
            accs = [self.need(env, v, s) for v in names]
            tys = [tr.rtype(a) for a in accs]
            inner = {nm: self.fresh('v_' + nm) for nm in names}
            for nm, t in zip(names, tys): e1[nm] = Val(t, inner[nm])
            body = self.in_ctx('pure', lambda: self.with_live(names, lambda: self.block(s.body, e1, lambda e: Val('TUP', items=[self.need(e, v, s) for v in names]), lambda v, e: self.fail('return in fold', s))))
            pat = None
            for nm in names: pat = inner[nm] if pat is None else f'({pat}, {inner[nm]})'
            init = tr.text(Val('TUP', items=accs)) if len(accs) > 1 else tr.text(accs[0])
            bt = tr.text(body) if len(accs) > 1 or body.ty != 'TUP' else tr.text(body.items[0])
            e2 = dict(env)
            outer = {nm: self.fresh('v_' + nm) for nm in names}
            opat = None
            for nm, t in zip(names, tys):
                e2[nm] = Val(t, outer[nm])
                opat = outer[nm] if opat is None else f'({opat}, {outer[nm]})'
            r = self.block(rest, e2, cont, ret)
            lp = "'" + pat if len(names) > 1 else pat
            olp = "'" + opat if len(names) > 1 else opat
            return self.retext(r, f"let {olp} := fold_left (fun {lp} v_{x} => {bt}) {it.tx} {init} in\n  {tr.text(r)}")
        self.fail(f'for over {it.ty!r}', s)

    def fold_loop(self, s, rest, env, e1, targets, xpat, it, cont, ret):
        """`for <targets> in <dynamic list>` without return, as fold_left over the variables assigned in the body.  A variable
        that does not exist before the loop is local to one iteration (it must not be read after the loop)."""
        tr = self.tr
        names = [v for v in self.assigned(s.body, env) if v not in targets]
        after = self.live_after(rest)
        for v in names:
            if v not in env and v in after: self.fail(f'variable {v} first assigned inside a loop and used after it', s)
        for v in targets:
            if v in after: self.fail(f'loop variable {v} used after the loop', s)
        names = [v for v in names if v in env]
        if not names: return self.block(rest, env, cont, ret)
        accs = [self.need(env, v, s) for v in names]
        tys = [tr.rtype(a) for a in accs]
        inner = {nm: self.fresh('v_' + nm) for nm in names}
        for nm, t in zip(names, tys): e1[nm] = Val(t, inner[nm])
        body = self.in_ctx('pure', lambda: self.with_live(names, lambda: self.block(s.body, e1, lambda e: Val('TUP', items=[self.need(e, v, s) for v in names]), lambda v, e: self.fail('return in fold', s))))
        if body.ty == 'TUP':
            for i, (b, t) in enumerate(zip(body.items, tys)):
                if tmatch(tr.rtype(b), t) is None: self.fail(f'loop changes the type of an accumulator: {tr.rtype(b)!r} / {t!r}', s)
                tys[i] = tmatch(tr.rtype(b), t)
        pat = None
        for nm in names: pat = inner[nm] if pat is None else f'({pat}, {inner[nm]})'
        init = tr.text(Val('TUP', items=accs)) if len(accs) > 1 else tr.text(accs[0])
        bt = tr.text(body) if len(accs) > 1 or body.ty != 'TUP' else tr.text(body.items[0])
        e2 = dict(env)
        outer = {nm: self.fresh('v_' + nm) for nm in names}
        opat = None
        for nm, t in zip(names, tys):
            e2[nm] = Val(t, outer[nm])
            opat = outer[nm] if opat is None else f'({opat}, {outer[nm]})'
        r = self.block(rest, e2, cont, ret)
        lp = "'" + pat if len(names) > 1 else pat
        olp = "'" + opat if len(names) > 1 else opat
        return self.retext(r, f"let {olp} := fold_left (fun {lp} {xpat} => {bt}) {it.tx} {init} in\n  {tr.text(r)}")

    def optionise(self, body, s):
        """text of an option-valued body whose leaves are SOME(v) or None; returns (text, element type)"""
        tr = self.tr
        tys = []
        def walk(v):
            if v.ty == 'SOME':
                inner = v.items[0]
                tys.append(tr.rtype(inner))
                return f'(Some ({tr.text(inner)}))'
            if v.ty == 'K' and v.const is None: return 'None'
            self.fail('find-first body too complex', s)
        t = walk(body) if body.ty in ('SOME', 'K') else None
        if t is None:
            # body is an if-expression produced by join(): handled there through unify on SOME/None
            self.fail('find-first body shape', s)
        return t, tys[0]


# join() needs to understand SOME/None leaves produced inside find-first bodies
_orig_unify = FunTx.unify
def _unify_some(self, a, b, n):
    if a.ty == 'SOME' or b.ty == 'SOME':
        def one(v):
            if v.ty == 'SOME': return f'(Some ({self.tr.text(v.items[0])}))', self.tr.rtype(v.items[0])
            if v.ty == 'K' and v.const is None: return 'None', None
            if v.ty == 'OPTX': return v.tx, v.const
            self.fail('find-first branch', n)
        (x, tx_), (y, ty_) = one(a), one(b)
        return x, y, ('OPTX', tx_ or ty_)
    return _orig_unify(self, a, b, n)
FunTx.unify = _unify_some
_orig_join = FunTx.join
def _join_some(self, c, a, b, n):
    if a.ty in ('SOME', 'OPTX') or b.ty in ('SOME', 'OPTX'):
        x, y, t = self.unify(a, b, n)
        return Val('OPTX', f'(if {c.tx} then {x} else {y})', const=t[1])
    return _orig_join(self, c, a, b, n)
FunTx.join = _join_some
_orig_opt = FunTx.optionise
def _optionise(self, body, s):
    if body.ty == 'OPTX': return body.tx, body.const
    if isinstance(body.ty, tuple) and body.ty[0] == 'O': return body.tx, body.ty[1]
    return _orig_opt(self, body, s)
FunTx.optionise = _optionise
_orig_retext = FunTx.retext
def _retext(self, r, t):
    if r.ty == 'OPTX': return Val('OPTX', t, const=r.const)
    if r.ty == 'SOME': return Val('OPTX', t.replace(self.tr.text(r.items[0]), self.tr.text(r.items[0])) if False else f'(Some ({self.tr.text(r.items[0])}))' if t == self.tr.text(r) else t, const=self.tr.rtype(r.items[0]))
    return _orig_retext(self, r, t)
FunTx.retext = _retext
_orig_text = Translator.text
def _text(self, v):
    if v.ty == 'SOME': return f'(Some ({self.text(v.items[0])}))'
    return _orig_text(self, v)
Translator.text = _text
_orig_rtype = Translator.rtype
def _rtype(self, v):
    if v.ty == 'SOME': return ('O', self.rtype(v.items[0]))
    if v.ty == 'OPTX': return ('O', v.const)
    return _orig_rtype(self, v)
Translator.rtype = _rtype


# ----------------------------------------------------------------------------- what to translate
TARGETS = [
    ('Point', '__add__'), ('Point', '__sub__'), ('Point', '__mul__'), ('Point', '__truediv__'), ('Point', 'dot'),
    ('Point', 'lerp'), ('Point', '__eq__'), ('Point', 'squareMagnitude'), ('Point', 'magnitude'), ('Point', 'toUnitVector'),
    ('Point', 'angle'), ('Point', 'fromAngle'), ('Point', 'rotated'), ('Point', 'rotate'), ('Point', 'squareDistanceFrom'),
    ('Point', 'distanceFrom'), ('Point', 'transformed'), ('Point', 'transform'), ('Point', 'rounded'), ('Point', 'slope'),
    ('mod:utils/__init__.py', 'quadraticRoots'),
    ('AffineTransformation', 'apply'), ('AffineTransformation', 'apply_backwards'), ('AffineTransformation', 'translation'),
    ('AffineTransformation', 'translate'), ('AffineTransformation', 'scaling'), ('AffineTransformation', 'scale'),
    ('AffineTransformation', 'reflection'), ('AffineTransformation', 'reflect'), ('AffineTransformation', 'rotation'),
    ('AffineTransformation', 'rotate'), ('AffineTransformation', 'invert'),
    ('BoundingBox', 'includes'), ('BoundingBox', 'overlaps'), ('BoundingBox', 'area'),
]
BOUNDS_TARGETS = [('BoundingBox', 'extend', (('ty', 'P'),)), ('BoundingBox', 'extend', (('ty', 'BB'),)),
                  ('Line', 'bounds'), ('QuadraticBezier', 'bounds'), ('CubicBezier', 'bounds')]
SHAPE_TARGETS = [('mod:path/geometricshapes.py', n) for n in ('Rectangle', 'Square', 'Ellipse', 'Circle')] + \
                [('global:path/geometricshapes.py', 'CIRCULAR_SUPERNESS')]
for _c in ('Line', 'QuadraticBezier', 'CubicBezier'):
    TARGETS += [(_c, m) for m in ('pointAtTime', 'splitAtTime', 'translated', 'rotated', 'scaled', 'transformed',
                                  'alignmentTransformation', 'aligned', 'reversed', 'tangentAtTime', 'normalAtTime',
                                  'startAngle', 'endAngle', 'curvatureAtTime', 'area', 'length', 'lengthAtTime')]
    TARGETS += [(_c, '_findRoots', ('x',)), (_c, '_findRoots', ('y',))]
TARGETS += [('QuadraticBezier', 'derivative'), ('CubicBezier', 'derivative'),
            ('Line', 'tOfPoint'), ('Line', 'slope'), ('Line', 'intercept'), ('Line', 'findExtremes'),
            ('QuadraticBezier', 'tOfPoint'), ('QuadraticBezier', '_findDRoots'), ('QuadraticBezier', 'findExtremes'),
            ('QuadraticBezier', 'toCubicBezier'),
            ('CubicBezier', '_findDRoots'), ('CubicBezier', 'findExtremes', (False,)), ('CubicBezier', 'hasLoop'),
            ('Line', '_bothPointsAreOnSameSideOfOrigin'), ('Line', '_line_line_intersections'),
            ('QuadraticBezier', '_curve_line_intersections_t'), ('CubicBezier', '_curve_line_intersections_t'),
            ('QuadraticBezier', '_curve_line_intersections'), ('CubicBezier', '_curve_line_intersections'),
            ] + [('CDF', 'S', (a, b)) for a in (2, 3, 4) for b in (2, 3, 4)] + [('CDF', 'D', (a, b)) for a in (2, 3, 4) for b in (2, 3, 4)]
SEGMENT_TARGETS = [(c, m) for c in ('Line', 'QuadraticBezier', 'CubicBezier') for m in ('clone', 'round')]
FIT_TARGETS = [('mod:utils/curvefitter.py', b) for b in ('B0', 'B1', 'B2', 'B3')] + [('CurveFit', 'computeHook'), ('CurveFit', 'estimateBi'),
                                                                                          ('CurveFit', 'chordLengthParameterize')]
SAMPLE_TARGETS = [(c, m) for m in ('sample', 'regularSampleTValue', 'regularSample') for c in ('Line', 'QuadraticBezier', 'CubicBezier')]
PATH_TARGETS = [('BezierPath', 'length'), ('BezierPath', 'pointAtTime'), ('BezierPath', 'lengthAtTime')] + \
               [(c, 'flatten') for c in ('Line', 'QuadraticBezier', 'CubicBezier')] + \
               [('BezierPath', m) for m in ('sample', 'regularSampleTValue', 'regularSample')]
TARGETS += SHAPE_TARGETS + BOUNDS_TARGETS + SEGMENT_TARGETS + FIT_TARGETS + SAMPLE_TARGETS + PATH_TARGETS

# fixed text at the top of a generated file: the types and list helpers the effectful definitions are written with
PRELUDE = {'Sample': '''(* A function with a data-dependent `while` loop takes [fuel : nat] -- the number of iterations EVERY loop invocation may
   use -- and returns an option: None = the fuel ran out (never a normal value).  A function that can raise one of the
   modelled Python exceptions returns an [outcome]; both: [option (outcome _)].  ZeroDivisionError is NOT modelled here:
   as everywhere in Gen, `/` is the total [dvd]. *)
Inductive pyexc : Set := PyIndexError | PyValueError | PyOverflowError.
Inductive outcome (A : Type) : Type := Returns (a : A) | Raises (e : pyexc).
Arguments Returns {A}. Arguments Raises {A}.
(* l[-1]; None = IndexError *)
Fixpoint last_error {A : Type} (l : list A) : option A :=
  match l with [] => None | [a] => Some a | _ :: r => last_error r end.
(* [f x for x in l] when f may raise: in list order, the first exception wins *)
Fixpoint map_outcome {A B : Type} (f : A -> outcome B) (l : list A) : outcome (list B) :=
  match l with
  | [] => Returns []
  | a :: r => match f a with
              | Raises e => Raises e
              | Returns b => match map_outcome f r with Raises e => Raises e | Returns bs => Returns (b :: bs) end
              end
  end.
(* list access by a Python int held in a scalar (Ops has no T -> nat): l[k] and l[:k] for k >= 0 by counting down ... *)
Fixpoint nth_T {T A : Type} (O : Ops T) (l : list A) (k : T) : option A :=
  match l with
  | [] => None
  | a :: r => if ltb O k (ofZ O 1) then Some a else nth_T O r (sub O k (ofZ O 1))
  end.
Fixpoint take_T {T A : Type} (O : Ops T) (l : list A) (k : T) : list A :=
  match l with
  | [] => []
  | a :: r => if ltb O k (ofZ O 1) then [] else a :: take_T O r (sub O k (ofZ O 1))
  end.
Fixpoint drop_T {T A : Type} (O : Ops T) (l : list A) (k : T) : list A :=
  match l with
  | [] => []
  | _ :: r => if ltb O k (ofZ O 1) then l else drop_T O r (sub O k (ofZ O 1))
  end.
(* ... and Python's reading of a negative int: l[k] is l[len(l) + k] (None = IndexError), l[:k] drops the last -k items *)
Definition py_index {T A : Type} (O : Ops T) (l : list A) (k : T) : option A :=
  if ltb O k (ofZ O 0) then nth_T O (rev l) (sub O (neg O k) (ofZ O 1)) else nth_T O l k.
Definition py_slice_to {T A : Type} (O : Ops T) (l : list A) (k : T) : list A :=
  if ltb O k (ofZ O 0) then rev (drop_T O (rev l) (neg O k)) else take_T O l k.

'''}


def header(file, deps):
    imps = ''.join(f'From BZ Require Import Gen.{d}.\n' for d in deps)
    return ('(* GENERATED by tools/py2v.py from /repo/src/beziers -- do not edit; regenerated on every check run *)\n'
            'From Coq Require Import PrimFloat.\nFrom Coq Require Import ZArith List Bool.\nImport ListNotations.\n'
            'From BZ Require Import Base.Ops.\n' + imps + '\n')


def generate(outdir, targets=None):
    """translate; returns (dict file->text, fingerprints, errors)"""
    tr = Translator()
    errors = []
    for t in (targets or TARGETS):
        cls, name = t[0], t[1]
        consts = t[2] if len(t) > 2 else ()
        try:
            if cls == 'CDF' and name == 'S': tr.cdf_S(*consts)
            elif cls == 'CDF' and name == 'D': tr.cdf_D(*consts)
            elif cls.startswith('global:'): tr.global_target(cls[7:], name)
            else: tr.function(cls, name, consts)
        except Untranslatable as e:
            errors.append({'function': f'{cls}.{name}', 'error': str(e)})
            tr.inprogress.clear()
        except KeyError as e:
            errors.append({'function': f'{cls}.{name}', 'error': f'not found: {e}'})
            tr.inprogress.clear()
    texts = {}
    for i, f in enumerate(FILE_ORDER):
        texts[f] = header(f, [d for d in FILE_ORDER[:i] if d not in LEAF_FILES]) + PRELUDE.get(f, '') + '\n'.join(tr.out[f])
    os.makedirs(outdir, exist_ok=True)
    changed = []
    for f, t in texts.items():
        p = os.path.join(outdir, f + '.v')
        old = open(p).read() if os.path.exists(p) else None
        if old != t:
            open(p, 'w').write(t); changed.append(f)
    meta = {'fingerprints': tr.fingerprints, 'errors': errors, 'changed': changed,
            'functions': sorted(v[0] for v in tr.done.values())}
    json.dump(meta, open(os.path.join(outdir, 'meta.json'), 'w'), indent=1, sort_keys=True)
    return meta


if __name__ == '__main__':
    out = sys.argv[1] if len(sys.argv) > 1 else os.path.join(os.path.dirname(os.path.abspath(__file__)), '..', 'coq', 'Gen')
    m = generate(out)
    print(json.dumps({'changed': m['changed'], 'errors': m['errors'], 'n_functions': len(m['functions'])}))
    sys.exit(1 if m['errors'] else 0)
